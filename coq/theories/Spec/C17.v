(* Specification of C17, written from the property text:
   "`x in $name` evaluates to exactly the answer of the list matcher installed
    in the execution context for x's type, queried with that list name and x's
    value - per element under [*], false when x is absent - and is rejected at
    parse time when no list is registered for the type or the name is not made
    of a-z, 0-9, _ and inner dots.  The built-in always-list matches every
    value and the never-list none; matcher state set on a context is what
    executions see, survives a serialization round trip and is emptied by
    clear."

   Nothing here indexes matchers by registration order, builds a serialized
   document or runs a lexer loop: matchers are keyed by type, a round trip is
   the identity, a permitted name is a predicate on byte strings. *)
From Coq Require Import List ZArith NArith Bool Arith.
From WF Require Import Base.Bytes Sem.RangeSet Lang.Types Lang.Ast Lang.Context Spec.Denote Spec.Typing
     Sem.ListState.
Import ListNotations.

(* ---- (a) delegation ---- *)

(* the list registered for a type, if any *)
Definition kind_of (sch : scheme) (t : ty) : option list_kind :=
  option_map snd (find (fun p => ty_eqb t (fst p)) (sc_lists sch)).

(* "the list matcher installed in the execution context for x's type" *)
Definition ctx_matcher (sch : scheme) (c : ctx) (t : ty) : option matcher :=
  match list_index sch t with
  | Some i => nth_error (cx_lists c) i
  | None => None
  end.

(* the value of `x in $name`, [ask] being the matcher's answer for this name:
   "per element under [*], false when x is absent" *)
Definition in_list_spec (ask : value -> bool) (x : sel) : lres :=
  match x with
  | SAbsent => ROne false
  | SOne v => ROne (ask v)
  | SMany l => RVec (map ask l)
  end.

(* "queried with that list name and x's value": the values the matcher is asked about *)
Definition in_list_queries (x : sel) : list value :=
  match x with
  | SAbsent => []
  | SOne v => [v]
  | SMany l => l
  end.

(* ---- (b) the built-in lists ---- *)
Definition always_answers (m : matcher) : Prop := forall name v, match_value m name v = true.
Definition never_answers (m : matcher) : Prop := forall name v, match_value m name v = false.

(* ---- (c) list names ---- *)

(* a-z, 0-9, _ and . *)
Definition name_char (b : N) : bool :=
  ((97 <=? b) && (b <=? 122) || (48 <=? b) && (b <=? 57) || (b =? 95) || (b =? 46))%N.

(* "made of a-z, 0-9, _ and inner dots": not empty, only name characters, no
   dot at either end (dots may follow each other inside) *)
Definition permitted_name (n : bytes) : bool :=
  match n with
  | [] => false
  | b :: _ => forallb name_char n && negb (b =? 46)%N && negb (last n 0%N =? 46)%N
  end.

(* what follows `$` splits into the name read (the longest run of name
   characters) and the rest of the input *)
Definition name_split (s name rest : bytes) : Prop :=
  s = name ++ rest /\ forallb name_char name = true /\
  match rest with [] => True | b :: _ => name_char b = false end.

Fixpoint name_run (s : bytes) : bytes :=
  match s with
  | b :: r => if name_char b then b :: name_run r else []
  | [] => []
  end.

(* outcome of parsing `<lhs> in $<name>` as a whole filter, [t] being the
   static type of <lhs> and <name> an arbitrary byte string that contains no
   character able to continue a filter after a list name (the generator's
   alphabet: name characters, upper-case letters, `-`, `$`, `:` ...) *)
Inductive name_outcome :=
| NAccepted (li : nat) (name : bytes)
| NInvalidName                                    (* InvalidListName *)
| NUnsupported                                    (* UnsupportedOp: `in` not available for this type *)
| NOther.                                         (* rejected for what follows the name *)

Definition list_name_outcome (sch : scheme) (t : ty) (name : bytes) : name_outcome :=
  match t with
  | TInt | TBytes | TIp =>
      let run := name_run name in
      if negb (permitted_name run) then NInvalidName
      else match list_index sch t with
           | None => NUnsupported                 (* "no list is registered for the type" *)
           | Some li => if Nat.eqb (length run) (length name) then NAccepted li name else NOther
           end
  | TArray TBool | TMap TBool | TBool => NOther   (* a bare boolean (array): `in` is left over *)
  | _ => NUnsupported
  end.

(* every `in $name` node of an AST carries a permitted name *)
Fixpoint names_ok_lexpr (e : lexpr) : bool :=
  match e with
  | ECombining _ items => names_ok_lexprs items
  | EComparison lhs op =>
      names_ok_iexpr lhs && match op with CInList _ name => permitted_name name | _ => true end
  | EParen e' | ENot e' => names_ok_lexpr e'
  | EQuantIndex _ a => names_ok_iexpr a
  | EQuantLogical _ a => names_ok_lexpr a
  end
with names_ok_lexprs (l : lexprs) : bool :=
  match l with LNil => true | LCons e r => names_ok_lexpr e && names_ok_lexprs r end
with names_ok_iexpr (e : iexpr) : bool :=
  match e with IField _ _ => true | ICall _ a _ => names_ok_args a end
with names_ok_args (a : args) : bool :=
  match a with ANil => true | ACons x r => names_ok_arg x && names_ok_args r end
with names_ok_arg (a : arg) : bool :=
  match a with AIndex e => names_ok_iexpr e | ALit _ => true | ALogical e => names_ok_lexpr e end.

(* ---- (d) matcher state on a context ---- *)

(* abstract state: an optional value per field and, per type, the state of the
   list registered for it *)
Record astate := {
  a_vals : nat -> option value;
  a_match : ty -> option matcher;
}.

Definition upd_nat {A} (m : nat -> A) (k : nat) (x : A) : nat -> A :=
  fun i => if Nat.eqb i k then x else m i.
Definition upd_ty {A} (m : ty -> A) (k : ty) (x : A) : ty -> A :=
  fun t => if ty_eqb t k then x else m t.

(* a new context: no values; the built-in lists, and empty set lists *)
Definition fresh_matcher (k : list_kind) : matcher :=
  match k with LkAlways => MAlways | LkNever => MNever | LkSet => MSet [] end.

Definition a_new (sch : scheme) : astate :=
  {| a_vals := fun _ => None; a_match := fun t => option_map fresh_matcher (kind_of sch t) |}.

(* "emptied by clear" *)
Definition emptied (m : matcher) : matcher :=
  match m with MSet _ => MSet [] | MAlways => MAlways | MNever => MNever end.

(* the context an execution sees *)
Definition a_view (sch : scheme) (a : astate) : ctx :=
  {| cx_vals := map (a_vals a) (seq 0 (length (sc_fields sch)));
     cx_lists := map (fun p => match a_match a (fst p) with Some m => m | None => MNever end) (sc_lists sch) |}.

Definition a_mutate (a : astate) (t : ty) (f : list (bytes * list value) -> list (bytes * list value))
  : astate * lobs :=
  match a_match a t with
  | None => (a, BNoList)
  | Some (MSet s) => ({| a_vals := a_vals a; a_match := upd_ty (a_match a) t (Some (MSet (f s))) |}, BOk)
  | Some _ => (a, BNotSet)
  end.

(* reading a "$lists" document into a new context: every entry must name a
   registered type and carry data its list understands; it then becomes the
   state of that type's list *)
Fixpoint a_entries (sch : scheme) (m : ty -> option matcher) (es : ldoc) : (ty -> option matcher) + derr :=
  match es with
  | [] => inl m
  | (t, d) :: r =>
      match kind_of sch t with
      | None => inr ENoList
      | Some k =>
          match deserialize_matcher k d with
          | None => inr EBadData
          | Some x => a_entries sch (upd_ty m t (Some x)) r
          end
      end
  end.

Definition a_step (sch : scheme) (a : astate) (o : lop) : astate * lobs :=
  match o with
  | LAdd t name v => a_mutate a t (sets_add name v)
  | LDel t name v => a_mutate a t (sets_del name v)
  | LSetVal f v =>
      match nth_error (sc_fields sch) f with
      | None => (a, BBadArg)
      | Some fd =>
          if ty_eqb (fd_ty fd) (type_of v)
          then ({| a_vals := upd_nat (a_vals a) f (Some v); a_match := a_match a |}, BOk)
          else (a, BErr EBadValue)
      end
  | LClear =>
      ({| a_vals := fun _ => None; a_match := fun t => option_map emptied (a_match a t) |}, BOk)
  | LRoundTrip _ =>
      (* "survives a serialization round trip" *)
      (a, BState (a_view sch a))
  | LLoad d =>
      match a_entries sch (a_match (a_new sch)) d with
      | inl m => ({| a_vals := fun _ => None; a_match := m |}, BOk)
      | inr e => (a, BErr e)
      end
  | LDump t =>
      match a_match a t with Some m => (a, BDump m) | None => (a, BNoList) end
  | LProbe t name v =>
      match a_match a t with Some m => (a, BBool (match_value m name v)) | None => (a, BNoList) end
  | LExec e =>
      (* "matcher state set on a context is what executions see" *)
      if wt_filter sch e
      then (a, match denote_filter sch e (a_view sch a) with Some b => BBool b | None => BUndef end)
      else (a, BBadFilter)
  end.

Fixpoint a_run_from (sch : scheme) (a : astate) (ops : list lop) : list lobs :=
  match ops with
  | [] => []
  | o :: r => let p := a_step sch a o in snd p :: a_run_from sch (fst p) r
  end.

Definition a_run (sch : scheme) (ops : list lop) : list lobs := a_run_from sch (a_new sch) ops.

(* well-formed inputs: a scheme registers at most one list per type
   (Scheme::add_list refuses a second one); every field is optional (reading
   an unset mandatory field is C08's panic, not this property's); values
   offered were built by the checked constructors *)
Definition lists_distinct (sch : scheme) : Prop := NoDup (map fst (sc_lists sch)).
Definition all_optional (sch : scheme) : Prop := forall fd, In fd (sc_fields sch) -> fd_optional fd = true.
Definition lop_wf (o : lop) : bool :=
  match o with LSetVal _ v => value_wf v | _ => true end.
