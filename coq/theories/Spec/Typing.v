(* The documented typing rules (C04's specification) and the well-formedness
   of contexts (C08's invariant), as boolean predicates. *)
From Coq Require Import List ZArith NArith Bool.
From WF Require Import Base.Bytes Sem.RangeSet Sem.Matchers Spec.C09 Lang.Types Lang.Ast Lang.Context.
Import ListNotations.

Definition is_prim (t : ty) : bool :=
  match t with TBool | TBytes | TInt | TIp => true | _ => false end.

Definition ip_item_wfb (it : ip_item) : bool :=
  match it with
  | IpRange4 _ _ | IpRange6 _ _ => true
  | IpCidr4 a n => ((0 <=? n) && (n <=? 32) && (a mod 2 ^ (32 - n) =? 0))%Z
  | IpCidr6 a n => ((0 <=? n) && (n <=? 128) && (a mod 2 ^ (128 - n) =? 0))%Z
  end.

(* index kind matching the container: [n] on arrays, ["k"] on maps, [*] on both *)
Fixpoint ty_index_ok (t : ty) (idx : list index) {struct idx} : option ty :=
  match idx with
  | [] => Some t
  | i :: r =>
      match t, i with
      | TArray s, IArr _ | TArray s, IEach | TMap s, IKey _ | TMap s, IEach => ty_index_ok s r
      | _, _ => None
      end
  end.

Section WithScheme.
Variable sch : scheme.

(* operator / left type / literal compatibility (left type is a primitive) *)
Definition op_ok (t : ty) (op : cmpop) : bool :=
  match t, op with
  | TBool, CIsTrue => true
  | TInt, COrd _ (RInt _) | TInt, CBitAnd _ | TInt, COneOfInt _ => true
  | TBytes, COrd _ (RBytes _ _) | TBytes, CContains _ _ | TBytes, COneOfBytes _ => true
  | TBytes, CMatches pat _ => match regex_compile pat with Some _ => true | None => false end
  | TBytes, CWildcard _ pat _ =>
      match wparse pat with Some t => negb (has_double_star t) | None => false end
  | TIp, COrd _ (RIp _) => true
  | TIp, COneOfIp l => forallb ip_item_wfb l
  | TInt, CInList li _ | TBytes, CInList li _ | TIp, CInList li _ =>
      match list_index sch t with Some i => Nat.eqb i li | None => false end
  | _, _ => false
  end.

(* A context is well-formed for the scheme: one slot per field, every stored
   value has the declared full nested type, mandatory fields are set, one
   matcher per registered list. *)
Definition slot_ok (fd : field_def) (o : option value) : bool :=
  match o with
  | Some v => has_type v (fd_ty fd)
  | None => fd_optional fd
  end.

Fixpoint slots_ok (fds : list field_def) (vals : list (option value)) : bool :=
  match fds, vals with
  | [], [] => true
  | fd :: fds', o :: vals' => slot_ok fd o && slots_ok fds' vals'
  | _, _ => false
  end.

Definition ctx_ok (c : ctx) : bool :=
  slots_ok (sc_fields sch) (cx_vals c) && Nat.eqb (length (cx_lists c)) (length (sc_lists sch)).

(* scalar filters (C01): comparisons of primitive fields joined by
   not / and / xor / or / parentheses *)
Fixpoint scalar (e : lexpr) : bool :=
  match e with
  | ECombining _ items => match items with LNil => false | LCons _ _ => scalars items end
  | EComparison (IField f []) op =>
      match field_ty sch f with
      | Some t => is_prim t && op_ok t op
      | None => false
      end
  | EParen e' | ENot e' => scalar e'
  | _ => false
  end
with scalars (l : lexprs) : bool :=
  match l with
  | LNil => true
  | LCons e r => scalar e && scalars r
  end.

End WithScheme.

(* ---- the documented typing rules (C04) ----
   [wt_*] return the static type of a well-typed node and [None] for an
   ill-typed one.  Logical expressions have type Bool or Array(Bool). *)

Definition kind_ok (k : arg_kind) (a : arg) : bool :=
  match k, a with
  | KBoth, _ => true
  | KLiteral, ALit _ => true
  | KField, (AIndex _ | ALogical _) => true
  | _, _ => false
  end.

Definition lres_ty (t : ty) : bool :=
  match t with TBool | TArray TBool => true | _ => false end.

Fixpoint wt_lexpr (sch : scheme) (e : lexpr) {struct e} : option ty :=
  match e with
  | ECombining _ items =>
      match items with
      | LNil => None
      | LCons e0 rest =>
          match wt_lexpr sch e0 with
          | Some t => if wt_lexprs sch t rest then Some t else None
          | None => None
          end
      end
  | EComparison lhs op =>
      match wt_iexpr sch lhs with
      | None => None
      | Some t =>
          let n := map_each_count (iexpr_idx lhs) in
          match t with
          | TBool => match op with
                     | CIsTrue => Some (if Nat.eqb n 0 then TBool else TArray TBool)
                     | _ => None
                     end
          | TArray TBool | TMap TBool =>
              (* a bare container of booleans; with [*] it would be an array of arrays *)
              match op with
              | CIsTrue => if Nat.eqb n 0 then Some (TArray TBool) else None
              | _ => None
              end
          | _ =>
              if is_prim t && op_ok sch t op then Some (if Nat.eqb n 0 then TBool else TArray TBool) else None
          end
      end
  | EParen e' => wt_lexpr sch e'
  | ENot e' => wt_lexpr sch e'
  | EQuantIndex _ a =>
      (* the argument is a boolean-array value, without [*] *)
      match wt_iexpr sch a with
      | Some (TArray TBool) => if Nat.eqb (map_each_count (iexpr_idx a)) 0 then Some TBool else None
      | _ => None
      end
  | EQuantLogical _ a =>
      match wt_lexpr sch a with
      | Some (TArray TBool) => Some TBool
      | _ => None
      end
  end
(* both operands plain booleans, or both boolean arrays *)
with wt_lexprs (sch : scheme) (t : ty) (l : lexprs) {struct l} : bool :=
  match l with
  | LNil => true
  | LCons e r =>
      match wt_lexpr sch e with
      | Some t' => ty_eqb t t' && wt_lexprs sch t r
      | None => false
      end
  end
(* type of `ident[idx...]`: every index kind matches the container *)
with wt_iexpr (sch : scheme) (e : iexpr) {struct e} : option ty :=
  match e with
  | IField f idx =>
      match field_ty sch f with
      | Some t => ty_index_ok t idx
      | None => None
      end
  | ICall fn a idx =>
      match fn_of sch fn with
      | None => None
      | Some d =>
          let al := args_to_list a in
          let mapped := match al with a0 :: _ => Nat.ltb 0 (arg_map_each_count a0) | [] => false end in
          (* [*] only in the first argument *)
          if negb (forallb (fun x => Nat.eqb (arg_map_each_count x) 0) (tl al)) then None
          else
            match (if fn_variadic_same d
                   then (* at least two arguments, all of the type of the first: an array type or Bytes *)
                     match wt_args_same sch a with
                     | Some (Some t, n) =>
                         if Nat.leb 2 n && match t with TArray _ | TBytes => true | _ => false end
                         then Some t else None
                     | _ => None
                     end
                   else
                     (* arity, then kind and type of every argument *)
                     if Nat.leb (length (fn_params d)) (length al)
                        && Nat.leb (length al) (length (fn_params d) + length (fn_opt_params d))
                        && wt_args_sig sch (fn_params d ++ map (fun p => (fst p, type_of (snd p))) (fn_opt_params d)) a
                     then Some (fn_ret d) else None)
            with
            | None => None
            | Some ret => ty_index_ok (if mapped then TArray ret else ret) idx
            end
      end
  end
(* arguments against a signature prefix: kind and type of each *)
with wt_args_sig (sch : scheme) (sig : list (arg_kind * ty)) (a : args) {struct a} : bool :=
  match a with
  | ANil => true
  | ACons x r =>
      match sig with
      | [] => false
      | (k, t) :: sig' =>
          kind_ok k x && match wt_arg sch x with Some t' => ty_eqb t t' | None => false end && wt_args_sig sch sig' r
      end
  end
(* all arguments well-typed with one common type: (that type, their number) *)
with wt_args_same (sch : scheme) (a : args) {struct a} : option (option ty * nat) :=
  match a with
  | ANil => Some (None, O)
  | ACons x r =>
      match wt_arg sch x, wt_args_same sch r with
      | Some t, Some (None, n) => Some (Some t, S n)
      | Some t, Some (Some t', n) => if ty_eqb t t' then Some (Some t, S n) else None
      | _, _ => None
      end
  end
with wt_arg (sch : scheme) (a : arg) {struct a} : option ty :=
  match a with
  | AIndex e => wt_iexpr sch e
  | ALit r => Some (rhs_ty r)
  | ALogical e => wt_lexpr sch e
  end.

(* a filter: top level a plain boolean *)
Definition wt_filter (sch : scheme) (e : lexpr) : bool :=
  match wt_lexpr sch e with Some TBool => true | _ => false end.

(* a value expression: free of [*] *)
Definition wt_value (sch : scheme) (e : iexpr) : option ty :=
  match wt_iexpr sch e with
  | Some t => if Nat.eqb (map_each_count (iexpr_idx e)) 0 then Some t else None
  | None => None
  end.

