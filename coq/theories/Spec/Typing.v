(* The documented typing rules (C04's specification) and the well-formedness
   of contexts (C08's invariant), as boolean predicates. *)
From Coq Require Import List ZArith NArith Bool.
From WF Require Import Base.Bytes Sem.RangeSet Spec.C09 Lang.Types Lang.Ast Lang.Context.
Import ListNotations.

Definition is_prim (t : ty) : bool :=
  match t with TBool | TBytes | TInt | TIp => true | _ => false end.

Definition ip_item_wfb (it : ip_item) : bool :=
  match it with
  | IpRange4 _ _ | IpRange6 _ _ => true
  | IpCidr4 a n => ((0 <=? n) && (n <=? 32) && (0 <=? a) && (a <? 2 ^ 32) && (a mod 2 ^ (32 - n) =? 0))%Z
  | IpCidr6 a n => ((0 <=? n) && (n <=? 128) && (0 <=? a) && (a <? 2 ^ 128) && (a mod 2 ^ (128 - n) =? 0))%Z
  end.

Section WithScheme.
Variable sch : scheme.

(* operator / left type / literal compatibility (left type is a primitive) *)
Definition op_ok (t : ty) (op : cmpop) : bool :=
  match t, op with
  | TBool, CIsTrue => true
  | TInt, COrd _ (RInt _) | TInt, CBitAnd _ | TInt, COneOfInt _ => true
  | TBytes, COrd _ (RBytes _) | TBytes, CContains _ | TBytes, COneOfBytes _ => true
  | TIp, COrd _ (RIp _) => true
  | TIp, COneOfIp l => forallb ip_item_wfb l
  | TInt, CInList li _ | TBytes, CInList li _ | TIp, CInList li _ =>
      match list_index sch t with Some i => Nat.eqb i li | None => false end
  | _, _ => false
  end.

(* A context is well-formed for the scheme: one slot per field, every stored
   value has the declared full nested type, mandatory fields are set, one
   matcher per registered list. *)
Definition slot_ok (fd : field_def) (o : option value) : bool :=
  match o with
  | Some v => has_type v (fd_ty fd)
  | None => fd_optional fd
  end.

Fixpoint slots_ok (fds : list field_def) (vals : list (option value)) : bool :=
  match fds, vals with
  | [], [] => true
  | fd :: fds', o :: vals' => slot_ok fd o && slots_ok fds' vals'
  | _, _ => false
  end.

Definition ctx_ok (c : ctx) : bool :=
  slots_ok (sc_fields sch) (cx_vals c) && Nat.eqb (length (cx_lists c)) (length (sc_lists sch)).

(* scalar filters (C01): comparisons of primitive fields joined by
   not / and / xor / or / parentheses *)
Fixpoint scalar (e : lexpr) : bool :=
  match e with
  | ECombining _ items => match items with LNil => false | LCons _ _ => scalars items end
  | EComparison (IField f []) op =>
      match field_ty sch f with
      | Some t => is_prim t && op_ok t op
      | None => false
      end
  | EParen e' | ENot e' => scalar e'
  | _ => false
  end
with scalars (l : lexprs) : bool :=
  match l with
  | LNil => true
  | LCons e r => scalar e && scalars r
  end.

End WithScheme.
