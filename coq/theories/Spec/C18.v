(* C18 - specification, from the property text:

   "executing one filter, or many, concurrently from any number of threads
    against the same or different contexts returns for every call the same
    result as a sequential execution, and repeated executions or recompilations
    of the same filter on the same context always agree."

   A sequential execution of filter f on context c has ONE result,
   [seq_result f c].  A run of the machine of Sem/Shared.v under a schedule
   satisfies the property when every call that a thread has completed returned
   that result (whatever the other threads did in between, whether the call
   used the shared copy or a recompilation), and, once all threads are done,
   the lazily initialised globals hold what a sequential run leaves there. *)
From Coq Require Import List Bool.
From WF Require Import Base.Bytes Lang.Types Lang.Ast Lang.Context Sem.Compile Spec.Denote Sem.Shared.
Import ListNotations.

Section Spec.
  Context {F C K Sc R V : Type}.
  Variable E : engine F C K Sc R V.
  Variable seq_result : F -> C -> R.

  Definition seq_obs (o : op) : option R :=
    match getf E (op_fid o), getc E (op_cid o) with
    | Some f, Some c => Some (seq_result f c)
    | _, _ => None
    end.

  Definition seq_log (p : list op) : list (op * option R) := map (fun o => (o, seq_obs o)) p.

  (* at any moment: what thread t has logged is the sequential log of the
     operations it has completed *)
  Definition observes_sequential (progs : nat -> list op) (m : @machine K Sc R V) : Prop :=
    forall t, exists done, progs t = done ++ todo (threads m t) /\ log (threads m t) = seq_log done.

  (* a cell is needed when some operation of some thread runs a filter that reads it *)
  Definition needed (progs : nat -> list op) (c : nat) : Prop :=
    exists t o f, In o (progs t) /\ getf E (op_fid o) = Some f /\ In c (e_needs E f).

  (* the globals after a complete run: exactly the needed cells are set, each
     to the value [v0 c] a single-threaded process computes *)
  Definition cells_final (v0 : nat -> V) (progs : nat -> list op) (m : @machine K Sc R V) : Prop :=
    forall c, (needed progs c -> cells (glob m) c = Some (v0 c)) /\
              (~ needed progs c -> cells (glob m) c = None).

  (* every call of every thread, under every schedule *)
  Definition observations_independent : Prop :=
    forall (progs : nat -> list op) (ks : nat -> list K) (sched : list nat),
      let m := run_sched E sched (start progs ks) in
      observes_sequential progs m /\
      (finished m -> forall t, log (threads m t) = seq_log (progs t)).

  (* ... and the globals left behind *)
  Definition schedule_independent (v0 : nat -> V) : Prop :=
    forall (progs : nat -> list op) (ks : nat -> list K) (sched : list nat),
      let m := run_sched E sched (start progs ks) in
      observes_sequential progs m /\
      (finished m -> (forall t, log (threads m t) = seq_log (progs t)) /\ cells_final v0 progs m).
End Spec.

(* What has to be known about an engine's hidden state for the property to
   follow from the logic of sharing alone. *)
Record engine_ok {F C K Sc R V : Type} (E : engine F C K Sc R V)
       (seq_result : F -> C -> R) (v0 : nat -> V) (Inv : nat -> Sc -> Prop) : Prop := {
  (* every thread computes the same value for a lazily initialised global *)
  ok_init : forall t c, e_init E t c = v0 c;
  (* a new scratch value is valid for every pool *)
  ok_fresh : forall p, Inv p (e_fresh E);
  (* with the needed globals initialised and a valid scratch, whatever knob was
     drawn, a run returns the sequential result and leaves the scratch valid *)
  ok_run : forall view k s i f c,
      getf E i = Some f ->
      (forall x, In x (e_needs E f) -> view x = Some (v0 x)) ->
      Inv (e_pool E i) s ->
      fst (e_run E view k s f c) = seq_result f c /\ Inv (e_pool E i) (snd (e_run E view k s f c));
}.

(* The full property would need no such knowledge: it would say that an
   engine that is right when run alone (the main thread, fresh state - what
   C01..C17 check) is right under every schedule.  That is not a theorem
   (Props/C18.v refutes it for two engines); what is proved is the statement
   under [engine_ok], which is established in Coq for the modelled engines and
   only explored by the harness for the hidden state of the real crates. *)
Definition sequentially_correct {F C K Sc R V : Type} (E : engine F C K Sc R V)
           (seq_result : F -> C -> R) : Prop :=
  forall fid cid f c (ks : list K),
    getf E fid = Some f -> getc E cid = Some c ->
    let m := run_sched E (repeat 0 (op_cost E (Exec fid cid)))
                       (start (fun u => if Nat.eqb u 0 then [Exec fid cid] else []) (fun _ => ks)) in
    log (threads m 0) = [(Exec fid cid, Some (seq_result f c))].

Definition C18_full : Prop :=
  forall (F C K Sc R V : Type) (E : engine F C K Sc R V) (seq_result : F -> C -> R),
    sequentially_correct E seq_result -> observations_independent E seq_result.

(* ---- the executable specification used by the correspondence runs ----
   the sequential results, by the denotation of the language (Spec/Denote.v) *)
Definition spec_results (sch : scheme) (es : list lexpr) (cs : list ctx) : list (list (option bool)) :=
  map (fun e => map (fun c => denote_filter sch e c) cs) es.
