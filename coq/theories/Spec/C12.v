(* C12 — specification of uses() / uses_list(), from the property text only.

   "uses(field) is true exactly when the field's name occurs as an identifier
    anywhere in the source (left-hand sides, index bases, function arguments at
    any depth, quantifier arguments); uses_list(field) is true exactly when it
    occurs inside the left-hand side of some `in $list` comparison; a name that
    is not a field of the scheme gives an error."

   The specification speaks about *constituents*: [child c p] says that c is an
   immediate constituent of the expression p, [sub] is its reflexive-transitive
   closure, and an identifier occurrence of field f is a constituent of the
   form `f` or `f[...]`.  Nothing here says in which order, or whether at all,
   anything is traversed.  The executable variants (used by the specification
   run of the correspondence check) enumerate all constituents of an expression
   and are proved equivalent to the relational definitions in
   Proofs/VisitorProofs.v. *)
From Coq Require Import List Bool Arith.
From WF Require Import Base.Bytes Lang.Types Lang.Ast Parse.Lex Parse.Parser.
Import ListNotations.

(* an expression of any syntactic category *)
Inductive node :=
| NL (e : lexpr)      (* logical expression (incl. comparisons) *)
| NI (e : iexpr)      (* value expression: field or call, with indexes *)
| NA (a : arg).       (* function-call argument *)

(* immediate constituents *)
Inductive child : node -> node -> Prop :=
| ch_operand : forall op items e, In e (lexprs_to_list items) -> child (NL e) (NL (ECombining op items))
| ch_lhs : forall lhs op, child (NI lhs) (NL (EComparison lhs op))
| ch_paren : forall e, child (NL e) (NL (EParen e))
| ch_not : forall e, child (NL e) (NL (ENot e))
| ch_quant_value : forall q a, child (NI a) (NL (EQuantIndex q a))
| ch_quant_logical : forall q a, child (NL a) (NL (EQuantLogical q a))
| ch_argument : forall fn al idx a, In a (args_to_list al) -> child (NA a) (NI (ICall fn al idx))
| ch_arg_value : forall e, child (NI e) (NA (AIndex e))
| ch_arg_logical : forall e, child (NL e) (NA (ALogical e)).

(* [sub n p]: n is p itself or a constituent of p at any depth *)
Inductive sub : node -> node -> Prop :=
| sub_refl : forall n, sub n n
| sub_step : forall n c p, sub n c -> child c p -> sub n p.

(* the field with index f of the scheme occurs as an identifier in n *)
Definition occurs (f : nat) (n : node) : Prop :=
  exists idx, sub (NI (IField f idx)) n.

(* ... occurs inside the left-hand side of some `in $list` comparison of n *)
Definition occurs_in_list_lhs (f : nat) (n : node) : Prop :=
  exists lhs li name, sub (NL (EComparison lhs (CInList li name))) n /\ occurs f (NI lhs).

(* names: [names_field sch name i] — field number i of the scheme is called name *)
Definition names_field (sch : scheme) (name : bytes) (i : nat) : Prop :=
  exists fd, nth_error (sc_fields sch) i = Some fd /\ fd_name fd = name.
Definition is_field_name (sch : scheme) (name : bytes) : Prop := exists i, names_field sch name i.
(* a scheme never holds two fields of one name (SchemeBuilder::add_field rejects the second) *)
Definition names_unique (sch : scheme) : Prop := NoDup (map fd_name (sc_fields sch)).

(* the answer of a query by name: None = error (not a field of the scheme) *)
Definition answers (sch : scheme) (name : bytes) (P : nat -> Prop) (r : option bool) : Prop :=
  match r with
  | Some b => exists i, names_field sch name i /\ (b = true <-> P i)
  | None => ~ is_field_name sch name
  end.

(* ---------- executable form ---------- *)

(* all constituents of an expression, itself included *)
Fixpoint nodes_l (e : lexpr) : list node :=
  NL e :: match e with
          | ECombining _ items => nodes_ls items
          | EComparison lhs _ => nodes_i lhs
          | EParen a => nodes_l a
          | ENot a => nodes_l a
          | EQuantIndex _ a => nodes_i a
          | EQuantLogical _ a => nodes_l a
          end
with nodes_ls (l : lexprs) : list node :=
  match l with LNil => [] | LCons e r => nodes_l e ++ nodes_ls r end
with nodes_i (e : iexpr) : list node :=
  NI e :: match e with IField _ _ => [] | ICall _ a _ => nodes_as a end
with nodes_as (a : args) : list node :=
  match a with ANil => [] | ACons x r => nodes_a x ++ nodes_as r end
with nodes_a (a : arg) : list node :=
  NA a :: match a with AIndex e => nodes_i e | ALit _ => [] | ALogical e => nodes_l e end.

Definition nodes (n : node) : list node :=
  match n with NL e => nodes_l e | NI e => nodes_i e | NA a => nodes_a a end.

Definition is_field_node (f : nat) (n : node) : bool :=
  match n with NI (IField g _) => Nat.eqb f g | _ => false end.
Definition occursb (f : nat) (n : node) : bool := existsb (is_field_node f) (nodes n).

Definition is_list_cmp_with (f : nat) (n : node) : bool :=
  match n with NL (EComparison lhs (CInList _ _)) => occursb f (NI lhs) | _ => false end.
Definition occurs_in_list_lhsb (f : nat) (n : node) : bool := existsb (is_list_cmp_with f) (nodes n).

(* position of the field called name *)
Definition field_index (sch : scheme) (name : bytes) : option nat :=
  option_map fst
    (find (fun p => bytes_eqb (fd_name (snd p)) name)
          (List.combine (seq 0 (List.length (sc_fields sch))) (sc_fields sch))).

Definition spec_uses (sch : scheme) (n : node) (name : bytes) : option bool :=
  option_map (fun i => occursb i n) (field_index sch name).
Definition spec_uses_list (sch : scheme) (n : node) (name : bytes) : option bool :=
  option_map (fun i => occurs_in_list_lhsb i n) (field_index sch name).

(* ---------- the source text ----------
   "The field's name occurs as an identifier in the source" is made precise without a second
   grammar: the parse depends on the field being called that.  Renaming field i of the scheme to any
   name that is not written anywhere in the text changes the result of parsing the text.  (The parser
   of Parse/Parser.v enters here only as the function from texts to results; nothing of how it works.) *)
Definition rename_field (sch : scheme) (i : nat) (fresh : bytes) : scheme :=
  {| sc_fields := firstn i (sc_fields sch) ++
                  match skipn i (sc_fields sch) with
                  | fd :: r => {| fd_name := fresh; fd_ty := fd_ty fd; fd_optional := fd_optional fd |} :: r
                  | [] => []
                  end;
     sc_functions := sc_functions sch; sc_lists := sc_lists sch; sc_nil_ne := sc_nil_ne sch |}.
Definition written_in (p text : bytes) : Prop := exists a b, text = a ++ p ++ b.
Definition source_mentions (sch : scheme) (st : settings) (text : bytes) (i : nat) : Prop :=
  forall fresh, ~ written_in fresh text ->
    parse_filter (rename_field sch i fresh) st text <> parse_filter sch st text.
