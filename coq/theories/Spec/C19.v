(* Specification of C19, written from the property text:

   "With the panic catcher's hook installed and catching enabled on a thread,
    catch_panic(f) returns f's value when f returns and otherwise an error text
    containing f's panic message, at any nesting depth of catch_panic and for
    any sequence of enable, disable, catch and panic steps; when catching is
    disabled it runs f transparently.  After any such sequence a panic outside
    catch_panic still reaches the previously installed hook and unwinds
    normally, and panics or catcher settings on one thread never alter what
    another thread's catch_panic returns."

   The abstract state is what the property names: the enabled flag, the last
   message and the fallback mode; the nesting level is not a mutable counter
   here but the number [d] of enclosing catch_panic calls that are catching,
   so "the level is restored" holds by construction.  The result of a catching
   catch_panic is computed from how its body ends (the message of the panic
   that escapes it), not from any recorded text.  There is no hook chain and no
   u64 counter in this file; only the syntax of programs and the type of
   observations are shared with the model. *)
From Coq Require Import List NArith Bool.
From WF Require Import Sem.Panic.
Import ListNotations.
Open Scope N_scope.

Record astate := mk_astate {
  a_enabled : bool;
  a_last : option msg;
  a_fb : fallback
}.

Definition init_astate : astate := mk_astate false None Continue.

Inductive soutcome := SReturned | SUnwound (m : msg) | SAborted.

Definition sresult := (list event * soutcome * astate)%type.

(* A panic: inside a catching catch_panic (d > 0) its message becomes the last
   message and nothing else sees it; outside, the previously installed hook is
   called (fallback Continue) or the process aborts (fallback Abort).  In every
   non-aborting case the panic then unwinds. *)
Definition spec_panic (d : N) (a : astate) (m : msg) : sresult :=
  if 0 <? d then ([EPanic m], SUnwound m, mk_astate (a_enabled a) (Some m) (a_fb a))
  else match a_fb a with
       | Continue => ([EPanic m; EPrev m], SUnwound m, a)
       | Abort => ([EPanic m], SAborted, a)
       end.

(* catch_panic(f) around a body that produced [r]. *)
Definition spec_catch (catching : bool) (r : sresult) : sresult :=
  let '(ev, o, a) := r in
  match o with
  | SReturned => (EEnter :: ev ++ [EExit ROk], SReturned, a)
  | SUnwound m =>
      if catching then (EEnter :: ev ++ [EExit (RErr (Some m))], SReturned, a)
      else (EEnter :: ev, SUnwound m, a)
  | SAborted => (EEnter :: ev, SAborted, a)
  end.

Fixpoint spec_step (d : N) (a : astate) (s : step) {struct s} : sresult :=
  match s with
  | Enable => ([EUnit], SReturned, mk_astate true (a_last a) (a_fb a))
  | Disable => ([EUnit], SReturned, mk_astate false (a_last a) (a_fb a))
  | InstallHook => ([EUnit], SReturned, a)       (* installing again changes nothing *)
  | SetFallback f => ([EFallback (a_fb a)], SReturned, mk_astate (a_enabled a) (a_last a) f)
  | QueryBacktrace => ([EBacktrace (a_last a)], SReturned, a)
  | QueryLevel => ([ELevel d], SReturned, a)
  | Panic m => spec_panic d a m
  | Catch p =>
      if a_enabled a then spec_catch true (spec_prog (d + 1) a p)
      else spec_catch false (spec_prog d a p)
  end
with spec_prog (d : N) (a : astate) (p : prog) {struct p} : sresult :=
  match p with
  | PNil => ([], SReturned, a)
  | PCons s p' =>
      let '(ev, o, a1) := spec_step d a s in
      match o with
      | SReturned => let '(ev2, o2, a2) := spec_prog d a1 p' in (ev ++ ev2, o2, a2)
      | _ => (ev, o, a1)
      end
  end.

(* ---- how the model's state is read as an abstract state ---- *)

Definition abs (ts : tstate) : astate := mk_astate (enabled ts) (last ts) (fb ts).
Definition conc (d : N) (a : astate) : tstate := mk_tstate (a_enabled a) d (a_last a) (a_fb a).

Definition conc_outcome (o : soutcome) : outcome :=
  match o with
  | SReturned => Returned
  | SUnwound m => Unwound m
  | SAborted => Aborted AFallback
  end.

(* "The hook is installed and the previous hook is still behind it". *)
Fixpoint reaches_prev (h : hook) : Prop :=
  match h with
  | HPrev => True
  | HDefault => False
  | HOurs next => reaches_prev next
  end.

Definition installed (g : gstate) : Prop :=
  match cur g with HOurs next => reaches_prev next | _ => False end.

(* The deepest nesting of catch_panic in a program: the only bound of the
   model (the u64 level counter) is stated with it. *)
Fixpoint step_depth (s : step) : N :=
  match s with Catch p => 1 + prog_depth p | _ => 0 end
with prog_depth (p : prog) : N :=
  match p with PNil => 0 | PCons s p' => N.max (step_depth s) (prog_depth p') end.

(* Two threads: whatever the schedule, each thread observes what it observes
   alone. *)
Definition spec_two_threads (pa pb : prog) : sresult * sresult :=
  (spec_prog 0 init_astate pa, spec_prog 0 init_astate pb).
