(* Specification of C14, written from the property text:
   "For every execution context (all value types, empty and nested containers,
    non-UTF-8 bytes and map keys, i64 extremes, IPv4/IPv6 addresses,
    list-matcher state), serializing it and deserializing the result into a
    fresh context of the same scheme gives an equal context on which every
    filter evaluates identically, regardless of whether the JSON is supplied
    as a string, a byte slice, a reader or a value tree.  JSON that is
    malformed, names an unknown field or carries a value of the wrong type for
    its field is rejected with an error - never a panic - and never stores a
    value whose type differs from the field's declared type."
   Only data types, the names of the JSON keys, the scheme lookups and the
   per-value readers ([value_of_json], [matcher_of_json], [type_of_json]: what
   a single JSON value means at a given type; Proofs/CtxSerdeProofs.v shows
   that they invert the writers and yield only values of the requested type)
   come from the model files; how a *document* is consumed is specified here
   without the visitor's sequential state. *)
From Coq Require Import List NArith ZArith Bool.
From WF Require Import Base.Bytes Sem.RangeSet Lang.Types Lang.Context Sem.TypeCodec Sem.CtxSerde
     Spec.C15 Spec.Typing.
Import ListNotations.

(* ---- which model values are Rust values ----
   i64, u8, u32 / u128 address ranges: the data types of the model are wider. *)
Definition ip_rust (a : ip) : bool :=
  match a with
  | V4 x => (0 <=? x)%Z && (x <? 2 ^ 32)%Z
  | V6 x => (0 <=? x)%Z && (x <? 2 ^ 128)%Z
  end.

Fixpoint value_rust (v : value) : bool :=
  match v with
  | VBool _ => true
  | VBytes b => are_bytes b
  | VInt z => (I64_LO <=? z)%Z && (z <=? I64_HI)%Z
  | VIp a => ip_rust a
  | VArray _ l => forallb value_rust l
  | VMap _ l => forallb (fun kv : bytes * value => are_bytes (fst kv) && value_rust (snd kv)) l
  end.

(* ---- schemes the statement speaks about ----
   field names are pairwise different (SchemeBuilder refuses a redefinition) and
   none is the reserved key "$lists"; one list per type (add_list refuses a
   second one); a list type is a `Type` value (at most 33 layers). *)
Definition names_ok (fds : list field_def) : bool :=
  distinctb (map fd_name fds) && negb (existsb (bytes_eqb n_lists) (map fd_name fds)).

Fixpoint types_distinct (ts : list ty) : bool :=
  match ts with
  | [] => true
  | t :: r => negb (existsb (ty_eqb t) r) && types_distinct r
  end.

Definition lists_ok (ls : list (ty * list_kind)) : bool :=
  types_distinct (map fst ls) && forallb (fun l => Nat.leb (depth (fst l)) 33) ls.

Definition scheme_ok (sch : scheme) : bool := names_ok (sc_fields sch) && lists_ok (sc_lists sch).

(* ---- matcher states ----
   a matcher is the state of the list definition registered at its position; a
   SetMatcher is a BTreeMap (names strictly ascending) of Int / Bytes / Ip values *)
Fixpoint names_ascending {A} (l : list (bytes * A)) : bool :=
  match l with
  | [] => true
  | (k1, _) :: rest =>
      match rest with
      | [] => true
      | (k2, _) :: _ => match bytes_compare k1 k2 with Lt => names_ascending rest | _ => false end
      end
  end.

Definition setval_rust (v : value) : bool :=
  match v with
  | VInt _ | VBytes _ | VIp _ => value_rust v
  | _ => false
  end.

Definition matcher_rust (k : list_kind) (m : matcher) : bool :=
  match k, m with
  | LkAlways, MAlways => true
  | LkNever, MNever => true
  | LkSet, MSet sets => names_ascending sets && forallb (fun s : bytes * list value => forallb setval_rust (snd s)) sets
  | _, _ => false
  end.

Fixpoint matchers_rust (ls : list (ty * list_kind)) (ms : list matcher) : bool :=
  match ls, ms with
  | [], [] => true
  | l :: ls', m :: ms' => matcher_rust (snd l) m && matchers_rust ls' ms'
  | _, _ => false
  end.

Definition ctx_rust (sch : scheme) (c : ctx) : bool :=
  forallb (fun o : option value => match o with Some v => value_rust v | None => true end) (cx_vals c)
  && matchers_rust (sc_lists sch) (cx_lists c).

(* ---- what a decoded context may hold ----
   the slots part of [ctx_ok] without the mandatory-set clause *)
Definition slot_typed (fd : field_def) (o : option value) : bool :=
  match o with
  | Some v => has_type v (fd_ty fd)
  | None => true
  end.

Fixpoint slots_typed (fds : list field_def) (vals : list (option value)) : bool :=
  match fds, vals with
  | [], [] => true
  | fd :: fds', o :: vals' => slot_typed fd o && slots_typed fds' vals'
  | _, _ => false
  end.

Definition ctx_typed (sch : scheme) (c : ctx) : bool :=
  slots_typed (sc_fields sch) (cx_vals c) && Nat.eqb (length (cx_lists c)) (length (sc_lists sch)).

(* ---- documents ---- *)

(* no object of the document repeats a key *)
Fixpoint no_dup_keys (j : json) : bool :=
  match j with
  | JArr l => forallb no_dup_keys l
  | JObj es =>
      distinctb (map fst es)
      && forallb (fun kv : bytes * json => let (_, v) := kv in no_dup_keys v) es
  | _ => true
  end.

(* the document has no entry in a list section *)
Definition no_list_entries (j : json) : bool :=
  match j with
  | JObj es => forallb (fun kv : bytes * json =>
                          negb (bytes_eqb (fst kv) n_lists) || match snd kv with JArr [] => true | _ => false end) es
  | _ => true
  end.

(* ---- a document read without sequential state ----
   Every member must be acceptable on its own: the key "$lists" with an array
   of entries {"type": T, "data": D} (exactly these two members, in this
   order), T the type of a registered list and D a state of its definition; or
   the name of a field of the scheme ([lookup_field] is Scheme::get_field) with
   a value of the field's type.  Anything else - an unknown name, a value of
   another type, a malformed entry - makes the whole document an error.  The
   context then holds, for every field, the value of the LAST member carrying
   its name (none: unset) and, for every list, the state of the LAST entry
   carrying its type (none: a new matcher). *)
Definition result_opt {A} (r : result A) : option A := match r with Ok a => Some a | Err => None end.

Fixpoint last_some {A} (l : list (option A)) : option A :=
  match l with
  | [] => None
  | x :: r => match last_some r with Some y => Some y | None => x end
  end.

(* (index of the list, new state) of one entry of a list section *)
Definition spec_list_entry (sch : scheme) (j : json) : option (nat * matcher) :=
  match j with
  | JObj [(k1, tj); (k2, dj)] =>
      if bytes_eqb k1 n_type && bytes_eqb k2 n_data then
        match type_of_json tj with
        | Ok t =>
            match list_index sch t with
            | Some i =>
                match nth_error (sc_lists sch) i with
                | Some (_, kind) => option_map (pair i) (result_opt (matcher_of_json kind dj))
                | None => None
                end
            | None => None
            end
        | Err => None
        end
      else None
  | _ => None
  end.

Definition spec_section (sch : scheme) (x : json) : option (list (nat * matcher)) :=
  match x with
  | JArr l => option_map_all (spec_list_entry sch) l
  | _ => None
  end.

(* what one member of the document asks for: a value for the field registered
   under its key ([lookup_field] is Scheme::get_field: the field and its index),
   or new states for some lists *)
Definition spec_field_member (sch : scheme) (kv : bytes * json) : option (nat * value) :=
  if bytes_eqb (fst kv) n_lists then None
  else match lookup_field sch (fst kv) with
       | Some (i, fd) => option_map (pair i) (result_opt (value_of_json (fd_ty fd) (snd kv)))
       | None => None
       end.

Definition spec_member_ok (sch : scheme) (kv : bytes * json) : bool :=
  if bytes_eqb (fst kv) n_lists then match spec_section sch (snd kv) with Some _ => true | None => false end
  else match spec_field_member sch kv with Some _ => true | None => false end.

Definition pick {A} (n : nat) (e : nat * A) : option A := if Nat.eqb (fst e) n then Some (snd e) else None.

(* the last member that gives field [n] a value *)
Definition spec_field_at (sch : scheme) (es : list (bytes * json)) (n : nat) : option value :=
  last_some (map (fun kv => match spec_field_member sch kv with Some e => pick n e | None => None end) es).

Definition spec_all_entries (sch : scheme) (es : list (bytes * json)) : list (nat * matcher) :=
  flat_map (fun kv : bytes * json =>
              if bytes_eqb (fst kv) n_lists then match spec_section sch (snd kv) with Some l => l | None => [] end
              else []) es.

Definition spec_matcher_at (entries : list (nat * matcher)) (n : nat) (kind : list_kind) : matcher :=
  match last_some (map (pick n) entries) with
  | Some m => m
  | None => new_matcher kind
  end.

Fixpoint spec_matchers (entries : list (nat * matcher)) (ls : list (ty * list_kind)) (n : nat) : list matcher :=
  match ls with
  | [] => []
  | l :: r => spec_matcher_at entries n (snd l) :: spec_matchers entries r (S n)
  end.

Definition spec_ctx_of_json (sch : scheme) (j : json) : result ctx :=
  match j with
  | JObj es =>
      if forallb (spec_member_ok sch) es then
        Ok {| cx_vals := map (spec_field_at sch es) (seq 0 (length (sc_fields sch)));
              cx_lists := spec_matchers (spec_all_entries sch es) (sc_lists sch) 0 |}
      else Err
  | _ => Err
  end.

(* ---- the round trip, as the property states it ---- *)
Definition spec_ctx_roundtrip (sch : scheme) (c : ctx) : result ctx := Ok c.
Definition spec_value_roundtrip (v : value) : result value := Ok v.
