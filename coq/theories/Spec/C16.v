(* Specification of C16, written from the property text:
   "A scheme builder is a registry keyed by exact name: adding a field,
    optional field or function succeeds exactly when no field or function of
    that name exists, a failure reports which kind already holds the name and
    changes nothing, and at most one list can be registered per type.  The
    built scheme reports each field with the type, optionality and
    insertion-order index it was registered with, resolves identifiers in
    filters only by their complete dotted name (no prefix, suffix or
    case-insensitive match; fields and functions are not interchangeable), and
    two schemes are interchangeable only if one is a clone of the other."

   The abstract registry is the list of the registrations that succeeded,
   oldest first.  Everything else is read off that list: the partial map from
   exact names to Field(index, type, optional) | Function(index), where the
   index of a registration is the number of earlier registrations of its
   kind.  No hash map, no vector of slots, no stored index.
   (Only the case types reg_op / add_result / probe_res / lex_err are shared
   with the model.) *)
From Coq Require Import List NArith Bool Arith.
From WF Require Import Base.Bytes Lang.Types Sem.Registry.
Import ListNotations.
Open Scope N_scope.

Inductive registration :=
| RegField (name : bytes) (t : ty) (optional : bool)
| RegFunction (name : bytes)
| RegList (t : ty) (k : list_kind).

Definition registry := list registration.

Inductive entry := EField (index : nat) (t : ty) (optional : bool) | EFunction (index : nat).

(* The partial map.  [nf], [nfn]: fields / functions registered before [l]. *)
Fixpoint lookup_from (nf nfn : nat) (l : registry) (n : bytes) : option entry :=
  match l with
  | [] => None
  | RegField m t o :: l' => if bytes_eqb n m then Some (EField nf t o) else lookup_from (S nf) nfn l' n
  | RegFunction m :: l' => if bytes_eqb n m then Some (EFunction nfn) else lookup_from nf (S nfn) l' n
  | RegList _ _ :: l' => lookup_from nf nfn l' n
  end.
Definition holder (l : registry) (n : bytes) : option entry := lookup_from 0 0 l n.

Fixpoint reg_fields (l : registry) : list field_def :=
  match l with
  | [] => []
  | RegField n t o :: l' => {| fd_name := n; fd_ty := t; fd_optional := o |} :: reg_fields l'
  | _ :: l' => reg_fields l'
  end.
Fixpoint reg_functions (l : registry) : list bytes :=
  match l with
  | [] => []
  | RegFunction n :: l' => n :: reg_functions l'
  | _ :: l' => reg_functions l'
  end.
Fixpoint reg_lists (l : registry) : list (ty * list_kind) :=
  match l with
  | [] => []
  | RegList t k :: l' => (t, k) :: reg_lists l'
  | _ :: l' => reg_lists l'
  end.

(* ---- registering ---- *)

(* a name is taken by whichever kind holds it; a failure leaves the registry as it is *)
Definition spec_add_named (l : registry) (n : bytes) (r : registration) : add_result * registry :=
  match holder l n with
  | Some (EField _ _ _) => (AddErr RedefField, l)
  | Some (EFunction _) => (AddErr RedefFunction, l)
  | None => (AddOk, l ++ [r])
  end.

Definition has_list (l : registry) (t : ty) : bool :=
  existsb (fun p => ty_eqb t (fst p)) (reg_lists l).

Definition spec_apply (l : registry) (o : reg_op) : add_result * registry :=
  match o with
  | OpField n t => spec_add_named l n (RegField n t false)
  | OpOField n t => spec_add_named l n (RegField n t true)
  | OpFn n => spec_add_named l n (RegFunction n)
  | OpList t k => if has_list l t then (AddErr RedefList, l) else (AddOk, l ++ [RegList t k])
  end.

Definition spec_step (st : list add_result * registry) (o : reg_op) : list add_result * registry :=
  (fst st ++ [fst (spec_apply (snd st) o)], snd (spec_apply (snd st) o)).

Definition spec_run_ops (ops : list reg_op) : list add_result * registry :=
  fold_left spec_step ops ([], []).

(* ---- the same, without any state: what a history means ----
   The name (or list type) an operation claims, and who wins: the first
   operation of a history that claims a key. *)
Inductive key := KName (n : bytes) | KList (t : ty).
Definition key_eqb (a b : key) : bool :=
  match a, b with
  | KName x, KName y => bytes_eqb x y
  | KList x, KList y => ty_eqb x y
  | _, _ => false
  end.
Definition op_key (o : reg_op) : key :=
  match o with
  | OpField n _ | OpOField n _ | OpFn n => KName n
  | OpList t _ => KList t
  end.
Definition op_redef (o : reg_op) : redef :=
  match o with
  | OpField _ _ | OpOField _ _ => RedefField
  | OpFn _ => RedefFunction
  | OpList _ _ => RedefList
  end.
Definition reg_of_op (o : reg_op) : registration :=
  match o with
  | OpField n t => RegField n t false
  | OpOField n t => RegField n t true
  | OpFn n => RegFunction n
  | OpList t k => RegList t k
  end.

(* the response to [o] after the history [before]: an earlier claim of the
   same key wins and its kind is what the error reports *)
Definition expected_response (before : list reg_op) (o : reg_op) : add_result :=
  match find (fun p => key_eqb (op_key o) (op_key p)) before with
  | Some p => AddErr (op_redef p)
  | None => AddOk
  end.

(* the operations of a history that are the first to claim their key, in order *)
Fixpoint first_claims (seen : list reg_op) (ops : list reg_op) : list reg_op :=
  match ops with
  | [] => []
  | o :: r =>
      if existsb (fun p => key_eqb (op_key o) (op_key p)) seen
      then first_claims seen r
      else o :: first_claims (seen ++ [o]) r
  end.

(* ---- queries on the built scheme ---- *)

Definition spec_get_field (l : registry) (n : bytes) : option (nat * field_def) :=
  match holder l n with
  | Some (EField i t o) => Some (i, {| fd_name := n; fd_ty := t; fd_optional := o |})
  | _ => None
  end.

Definition spec_get_function (l : registry) (n : bytes) : option (nat * bytes) :=
  match holder l n with
  | Some (EFunction i) => Some (i, n)
  | _ => None
  end.

Definition numbered {A} (l : list A) : list (nat * A) := combine (seq 0 (length l)) l.

(* fields, functions and lists are numbered 0, 1, 2, ... in registration order *)
Definition spec_fields (l : registry) : list (nat * field_def) := numbered (reg_fields l).
Definition spec_functions (l : registry) : list (nat * bytes) := numbered (reg_functions l).
Definition spec_lists (l : registry) : list (nat * (ty * list_kind)) := numbered (reg_lists l).

Definition spec_get_list (l : registry) (t : ty) : option (nat * (ty * list_kind)) :=
  find (fun p => ty_eqb t (fst (snd p))) (spec_lists l).

Definition spec_counts (l : registry) : nat * nat * nat :=
  (length (reg_fields l), length (reg_functions l), length (reg_lists l)).

(* ---- identifiers in filters ----
   An identifier is the maximal run of [A-Za-z0-9_] segments joined by single
   dots: take every leading byte that is an identifier character or a dot; the
   run must be made of non-empty segments (so it is not empty and has no
   leading, trailing or doubled dot).  It is looked up as a whole. *)
Definition is_name_byte (c : N) : bool := is_ident_char c || (c =? 46).

Fixpoint name_run (l : bytes) : bytes * bytes :=
  match l with
  | [] => ([], [])
  | c :: l' => if is_name_byte c then (c :: fst (name_run l'), snd (name_run l')) else ([], l)
  end.

(* every dot-separated segment of [l] is non-empty; [cur]: the segment being read is non-empty *)
Fixpoint segments_ok (cur : bool) (l : bytes) : bool :=
  match l with
  | [] => cur
  | c :: l' => if c =? 46 then cur && segments_ok false l' else segments_ok true l'
  end.

Definition spec_lex_ident (input : bytes) : option (bytes * bytes) :=
  let (run, rest) := name_run input in
  if segments_ok false run then Some (run, rest) else None.

Inductive resolution :=
| Malformed                         (* no well-formed identifier at the start of the text *)
| Unknown                           (* well-formed, but nothing is registered under exactly this name *)
| ToField (i : nat) (t : ty)
| ToFunction (i : nat).

Definition resolve (l : registry) (input : bytes) : resolution * bytes :=
  match spec_lex_ident input with
  | None => (Malformed, [])
  | Some (name, rest) =>
      match holder l name with
      | None => (Unknown, rest)
      | Some (EField i t _) => (ToField i t, rest)
      | Some (EFunction i) => (ToFunction i, rest)
      end
  end.

(* What parsing the text as a value expression reports, for a text that is an
   identifier optionally followed by "()" (anything else is outside the
   specified fragment): a field is used bare, a function is used called; the
   other combination is an error (fields and functions are not
   interchangeable). *)
Definition is_call_suffix (rest : bytes) : option bool :=
  if bytes_eqb rest [] then Some false
  else if bytes_eqb rest [40; 41] then Some true
  else None.

Definition spec_probe_value (l : registry) (text : bytes) : probe_res :=
  match resolve l text with
  | (Malformed, _) => PErr ExpectedName
  | (Unknown, _) => PErr UnknownIdentifier
  | (ToField i _, rest) =>
      match is_call_suffix rest with
      | Some false => PField i
      | Some true => PErr EOF
      | None => PErr Unmodelled
      end
  | (ToFunction i, rest) =>
      match is_call_suffix rest with
      | Some false => PErr ExpectedLiteral
      | Some true => PCall i
      | None => PErr Unmodelled
      end
  end.

(* As a filter the expression must also be of type Bool: a bare field of
   another type lacks a comparison (ExpectedName), except that an array or
   map of Bool is a complete expression of the wrong type (TypeMismatch).
   The fixture function returns Bool. *)
Definition bool_container (t : ty) : bool :=
  match t with TArray TBool | TMap TBool => true | _ => false end.

Definition spec_probe_filter (l : registry) (text : bytes) : probe_res :=
  if begins [40] text || begins [33] text || begins [110; 111; 116] text
     || begins [97; 110; 121] text || begins [97; 108; 108] text
  then PErr Unmodelled
  else
  match resolve l text with
  | (Malformed, _) => PErr ExpectedName
  | (Unknown, _) => PErr UnknownIdentifier
  | (ToField i t, rest) =>
      match is_call_suffix rest with
      | None => PErr Unmodelled
      | Some called =>
          if bool_container t then PErr TypeMismatch
          else if negb (ty_eqb t TBool) then PErr ExpectedName
          else if called then PErr EOF else PField i
      end
  | (ToFunction i, rest) =>
      match is_call_suffix rest with
      | Some false => PErr ExpectedLiteral
      | Some true => PCall i
      | None => PErr Unmodelled
      end
  end.

(* ---- scheme identity ----
   Every build makes a new scheme; a clone is the scheme it was cloned from.
   [scheme_origins ops]: for each scheme of the world, in order, the position
   of the build operation it comes from. *)
Definition origin_step (st : list nat * nat) (o : scheme_op) : list nat * nat :=
  match o with
  | SBuild _ => (fst st ++ [snd st], S (snd st))
  | SClone k =>
      match nth_error (fst st) k with
      | Some x => (fst st ++ [x], S (snd st))
      | None => (fst st, S (snd st))
      end
  end.
Definition scheme_origins (ops : list scheme_op) : list nat := fst (fold_left origin_step ops ([], O)).
