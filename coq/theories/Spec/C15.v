(* Specification of C15, written from the property text:
   "The three encodings of a type - the recursive form, the flattened
    bit-packed form (also used by the C API) and the JSON form - are mutually
    inverse for every type all three can represent (up to 32 container layers),
    and JSON describing a type too deep to be represented is rejected with an
    error rather than causing a panic or yielding a different type.  A scheme's
    JSON form round-trips field names, order, types and optionality
    independently of how the JSON is supplied (string, bytes, reader, value
    tree), and JSON with duplicate field names is rejected."
   Only data types and the names of the JSON keys come from the model file. *)
From Coq Require Import List NArith ZArith Bool.
From WF Require Import Base.Bytes Lang.Types Sem.TypeCodec.
Import ListNotations.
Open Scope N_scope.

(* ---- the recursive form, read from the outside in ---- *)

Fixpoint layers_of (t : ty) : list layer :=
  match t with
  | TArray x => LArray :: layers_of x
  | TMap x => LMap :: layers_of x
  | _ => []
  end.

Fixpoint prim_of (t : ty) : prim :=
  match t with
  | TBool => PBool | TBytes => PBytes | TInt => PInt | TIp => PIp
  | TArray x | TMap x => prim_of x
  end.

Fixpoint build (p : prim) (ls : list layer) : ty :=
  match ls with
  | [] => prim_ty p
  | l :: r => wrap_layer l (build p r)
  end.

Definition depth (t : ty) : nat := length (layers_of t).

(* ---- the packed form ----
   bit i (from the least significant end) of [layers] says whether the i-th
   layer counted from the outside is a map; [len] is the number of layers. *)
Fixpoint bits_value (ls : list layer) : N :=
  match ls with
  | [] => 0
  | l :: r => layer_bit l + 2 * bits_value r
  end.

Definition spec_pack (t : ty) : option ctype :=
  if (depth t <=? 32)%nat
  then Some (mk_ctype (bits_value (layers_of t)) (N.of_nat (depth t)) (prim_of t))
  else None.

(* a packed value that describes a type: at most 32 layers, no bit beyond them *)
Definition ct_wf (c : ctype) : Prop := ct_len c <= 32 /\ ct_layers c < 2 ^ ct_len c.

(* the type a packed value (engine or C API) with [len <= 32] stands for *)
Definition layer_at (layers : N) (i : nat) : layer :=
  if N.testbit layers (N.of_nat i) then LMap else LArray.
Definition spec_unpack (layers : N) (len : nat) (p : prim) : ty :=
  build p (map (layer_at layers) (seq 0 len)).

(* the C API triple: same two numbers, the primitive as its C enum value *)
Definition cty_of_compound (c : ctype) : cty :=
  mk_cty (ct_layers c) (ct_len c) (prim_code (ct_prim c)).
Definition cy_wf (c : cty) : Prop :=
  cy_len c <= 32 /\ cy_layers c < 2 ^ cy_len c /\ 1 <= cy_prim c <= 4.

(* ---- the JSON form ----
   "Bool" | "Bytes" | "Int" | "Ip" | {"Array": T} | {"Map": T}; serde also
   accepts a primitive written {"Int": null}. *)
Definition prim_named (s : bytes) : option prim :=
  if bytes_eqb s n_Bool then Some PBool
  else if bytes_eqb s n_Bytes then Some PBytes
  else if bytes_eqb s n_Int then Some PInt
  else if bytes_eqb s n_Ip then Some PIp
  else None.

Fixpoint json_type (j : json) : option ty :=
  match j with
  | JStr s => option_map prim_ty (prim_named s)
  | JObj [(k, v)] =>
      if bytes_eqb k n_Array then option_map TArray (json_type v)
      else if bytes_eqb k n_Map then option_map TMap (json_type v)
      else match prim_named k, v with
           | Some p, JNull => Some (prim_ty p)
           | _, _ => None
           end
  | _ => None
  end.

(* A `Type` value has at most 33 layers: one outer layer around a packed
   element of at most 32.  Anything deeper is an error. *)
Definition spec_type_of_json (j : json) : result ty :=
  match json_type j with
  | Some t => if (depth t <=? 33)%nat then Ok t else Err
  | None => Err
  end.

(* ---- schemes ---- *)

Fixpoint distinctb (l : list bytes) : bool :=
  match l with
  | [] => true
  | x :: r => negb (existsb (bytes_eqb x) r) && distinctb r
  end.

Definition values_of (k : bytes) (es : list (bytes * json)) : list json :=
  map snd (filter (fun kv => bytes_eqb (fst kv) k) es).

(* one field: an object with exactly one "type" member and exactly one boolean
   "optional" member (other members are ignored), or the pair [type, optional] *)
Definition spec_field_of_json (j : json) : result (ty * bool) :=
  match j with
  | JObj es =>
      match values_of n_type es, values_of n_optional es with
      | [tv], [JBool b] => match spec_type_of_json tv with Ok t => Ok (t, b) | Err => Err end
      | _, _ => Err
      end
  | JArr [tv; JBool b] => match spec_type_of_json tv with Ok t => Ok (t, b) | Err => Err end
  | _ => Err
  end.

Fixpoint spec_fields (es : list (bytes * json)) : result (list field_def) :=
  match es with
  | [] => Ok []
  | (k, v) :: r =>
      match spec_field_of_json v, spec_fields r with
      | Ok (t, o), Ok fs => Ok ({| fd_name := k; fd_ty := t; fd_optional := o |} :: fs)
      | _, _ => Err
      end
  end.

(* the scheme a JSON document describes: an object whose keys are all
   different; the fields in document order *)
Definition spec_scheme_of_json (j : json) : result (list field_def) :=
  match j with
  | JObj es => if distinctb (map fst es) then spec_fields es else Err
  | _ => Err
  end.

(* A value tree holds an object as a map sorted by key: that is the order in
   which a scheme comes back from one. *)
Fixpoint fd_insert (f : field_def) (m : list field_def) : list field_def :=
  match m with
  | [] => [f]
  | g :: r =>
      match bytes_compare (fd_name f) (fd_name g) with
      | Lt => f :: m
      | Eq => f :: r
      | Gt => g :: fd_insert f r
      end
  end.
Definition fields_by_name (fs : list field_def) : list field_def :=
  fold_left (fun m f => fd_insert f m) fs [].

Definition supplied_order (e : entry) (fs : list field_def) : list field_def :=
  match e with EValue => fields_by_name fs | _ => fs end.

(* building a scheme from a list of fields and sending it through JSON *)
Definition spec_scheme_roundtrip (e : entry) (fs : list field_def) : result (list field_def) :=
  if distinctb (map fd_name fs) then Ok (supplied_order e fs) else Err.
