(* C13: nesting depth of an AST: enclosing parentheses, not operators, any/all
   quantifiers and function-call argument lists. *)
From Coq Require Import List ZArith NArith Bool.
From WF Require Import Base.Bytes Lang.Types Lang.Ast.
Import ListNotations.

Fixpoint depth_lexpr (e : lexpr) : nat :=
  match e with
  | ECombining _ items => depth_lexprs items
  | EComparison lhs _ => depth_iexpr lhs
  | EParen e' => S (depth_lexpr e')
  | ENot e' => S (depth_lexpr e')
  | EQuantIndex _ a => S (depth_iexpr a)
  | EQuantLogical _ a => S (depth_lexpr a)
  end
with depth_lexprs (l : lexprs) : nat :=
  match l with LNil => 0 | LCons e r => Nat.max (depth_lexpr e) (depth_lexprs r) end
with depth_iexpr (e : iexpr) : nat :=
  match e with IField _ _ => 0 | ICall _ a _ => S (depth_args a) end
with depth_args (a : args) : nat :=
  match a with ANil => 0 | ACons x r => Nat.max (depth_arg x) (depth_args r) end
with depth_arg (a : arg) : nat :=
  match a with AIndex e => depth_iexpr e | ALit _ => 0 | ALogical e => depth_lexpr e end.
