(* Specification of C09, written from the property text:
   "`x in {...}` is true exactly when some listed item equals or contains x
    (an IPv4 address never belongs to an IPv6 item and vice versa), and false
    for an empty list or an absent x."
   No algorithm of the code appears here. *)
From Coq Require Import List ZArith NArith Bool.
From WF Require Import Base.Bytes Sem.RangeSet.
Import ListNotations.
Open Scope Z_scope.

Definition in_range (x : Z) (r : range) : bool := (fst r <=? x) && (x <=? snd r).

(* A CIDR block of prefix length [len] contains the addresses that share its
   first [len] bits. *)
Definition in_cidr (bits : Z) (addr len x : Z) : bool :=
  x / 2 ^ (bits - len) =? addr / 2 ^ (bits - len).

Definition ip_item_contains (x : ip) (it : ip_item) : bool :=
  match x, it with
  | V4 v, IpRange4 a b => in_range v (a, b)
  | V4 v, IpCidr4 a n => in_cidr 32 a n v
  | V6 v, IpRange6 a b => in_range v (a, b)
  | V6 v, IpCidr6 a n => in_cidr 128 a n v
  | _, _ => false
  end.

Definition spec_in_int (items : list range) (x : option Z) : bool :=
  match x with None => false | Some v => existsb (in_range v) items end.

Definition spec_in_ip (items : list ip_item) (x : option ip) : bool :=
  match x with None => false | Some v => existsb (ip_item_contains v) items end.

Definition spec_in_bytes (items : list bytes) (x : option bytes) : bool :=
  match x with None => false | Some v => existsb (fun i => bytes_eqb i v) items end.

(* Well-formedness of what the parser can produce: a CIDR literal has a prefix
   length within the family's width and no host bit set (`IpCidr::from_str` rejects anything else; C06). *)
Definition ip_item_wf (it : ip_item) : Prop :=
  match it with
  | IpRange4 _ _ | IpRange6 _ _ => True
  | IpCidr4 a n => 0 <= n <= 32 /\ a mod 2 ^ (32 - n) = 0
  | IpCidr6 a n => 0 <= n <= 128 /\ a mod 2 ^ (128 - n) = 0
  end.

Definition ip_wf (x : ip) : Prop :=
  match x with V4 a => 0 <= a < 2 ^ 32 | V6 a => 0 <= a < 2 ^ 128 end.
