(* Specification of C11, written from the property text:
   <q>`matches` is an unanchored search of the pattern over the raw bytes of the
    value with byte-oriented, non-Unicode semantics, where a quoted pattern
    reaches the regex engine unchanged except that \<q> outside a character
    class denotes a plain quote, and a raw-string pattern is passed verbatim.
    `wildcard` matches the whole value case-insensitively (ASCII) and `strict
    wildcard` case-sensitively, with * matching any byte sequence, \* and \\
    literal, and ? an ordinary character.  Patterns over the configured limits
    (compiled regex size, number of * ), containing ** or an invalid escape, or
    an invalid regex are rejected at parse time.<q>
   Relations only; no algorithm of the code or of the model appears here.
   The syntax trees (wtok, regex_ast) are those of Sem/Matchers.v. *)
From Coq Require Import List NArith Bool.
From WF Require Import Base.Bytes Lang.Ast Sem.Matchers.
Import ListNotations.
Open Scope N_scope.

(* ------------------------------------------------------------------ *)
(* 1. the quoted-literal scanner                                        *)

(* [scan_spec ic text pat rest]: reading [text] (what follows the opening
   quote; ic = <q>inside a character class<q>) delivers the pattern [pat] to the
   regex engine and leaves [rest] after the closing quote.  A character class
   is what the scanner takes for one: from a `[` to the next `]`, neither of
   them preceded by a backslash. *)
Inductive scan_spec : bool -> bytes -> bytes -> bytes -> Prop :=
| ScEnd rest :                                   (* the closing quote: outside a class only *)
    scan_spec false (34 :: rest) [] rest
| ScQuoteOutside s p rest :                      (* \<q> outside a class denotes a plain quote *)
    scan_spec false s p rest -> scan_spec false (92 :: 34 :: s) (34 :: p) rest
| ScEscape ic c s p rest :                       (* every other backslash pair is kept *)
    ic = true \/ c <> 34 ->
    scan_spec ic s p rest -> scan_spec ic (92 :: c :: s) (92 :: c :: p) rest
| ScOpen s p rest :
    scan_spec true s p rest -> scan_spec false (91 :: s) (91 :: p) rest
| ScClose s p rest :
    scan_spec false s p rest -> scan_spec true (93 :: s) (93 :: p) rest
| ScQuoteInside s p rest :                       (* a quote inside a class is an ordinary member *)
    scan_spec true s p rest -> scan_spec true (34 :: s) (34 :: p) rest
| ScPlain ic c s p rest :
    c <> 92 -> c <> 34 -> (c = 91 -> ic = true) -> (c = 93 -> ic = false) ->
    scan_spec ic s p rest -> scan_spec ic (c :: s) (c :: p) rest.

(* [scan_clean ic body]: the body of a quoted literal that contains no \<q>
   outside a class, no bare quote outside a class, no backslash without a
   partner, and that ends outside a class. *)
Inductive scan_clean : bool -> bytes -> Prop :=
| CleanNil : scan_clean false []
| CleanEscape ic c s : ic = true \/ c <> 34 -> scan_clean ic s -> scan_clean ic (92 :: c :: s)
| CleanOpen s : scan_clean true s -> scan_clean false (91 :: s)
| CleanClose s : scan_clean false s -> scan_clean true (93 :: s)
| CleanQuoteInside s : scan_clean true s -> scan_clean true (34 :: s)
| CleanPlain ic c s :
    c <> 92 -> c <> 34 -> (c = 91 -> ic = true) -> (c = 93 -> ic = false) ->
    scan_clean ic s -> scan_clean ic (c :: s).

(* a raw string r#..#<q>body<q>#..# with n hashes: every quote inside the body is
   followed by fewer than n hashes (so that it does not close the string) *)
Fixpoint hashes_at (s : bytes) : nat :=
  match s with 35 :: r => S (hashes_at r) | _ => O end.
Definition raw_body_ok (n : nat) (body : bytes) : Prop :=
  forall a b, body = a ++ 34 :: b -> (hashes_at b < n)%nat.

(* ------------------------------------------------------------------ *)
(* 2. wildcards                                                         *)

(* pattern text -> tokens: `*` is the metacharacter, \* and \\ are literals,
   everything else (including ?) stands for itself; any other use of the
   backslash has no reading *)
Inductive wtokens : bytes -> list wtok -> Prop :=
| WtNil : wtokens [] []
| WtEscStar p t : wtokens p t -> wtokens (92 :: 42 :: p) (WLit 42 :: t)
| WtEscBackslash p t : wtokens p t -> wtokens (92 :: 92 :: p) (WLit 92 :: t)
| WtStar p t : wtokens p t -> wtokens (42 :: p) (WStar :: t)
| WtChar c p t : c <> 92 -> c <> 42 -> wtokens p t -> wtokens (c :: p) (WLit c :: t).

(* ASCII case-insensitive equality of two bytes *)
Definition ascii_case_eq (a b : N) : Prop :=
  a = b \/ (65 <= a <= 90 /\ b = a + 32) \/ (65 <= b <= 90 /\ a = b + 32).

Definition sym_spec (strict : bool) (p x : N) : Prop :=
  if strict then p = x else ascii_case_eq p x.

(* the WHOLE value is matched: a literal consumes exactly one byte, a star
   any (possibly empty) byte sequence *)
Inductive wmatch_spec (strict : bool) : list wtok -> bytes -> Prop :=
| WsNil : wmatch_spec strict [] []
| WsLit c x t v : sym_spec strict c x -> wmatch_spec strict t v -> wmatch_spec strict (WLit c :: t) (x :: v)
| WsStar t u v : wmatch_spec strict t v -> wmatch_spec strict (WStar :: t) (u ++ v).

Definition double_star (t : list wtok) : Prop := exists a b, t = a ++ WStar :: WStar :: b.

Fixpoint stars (t : list wtok) : nat :=
  match t with
  | [] => O
  | WStar :: r => S (stars r)
  | WLit _ :: r => stars r
  end.

(* a pattern is accepted (with tokens t) under a star limit *)
Definition wildcard_accept_spec (limit : option N) (p : bytes) (t : list wtok) : Prop :=
  wtokens p t /\ ~ double_star t /\ (forall l, limit = Some l -> N.of_nat (stars t) <= l).

(* ------------------------------------------------------------------ *)
(* 3. regular expressions of the subset                                 *)

Definition byte_in_set (neg : bool) (rs : list (N * N)) (c : N) : Prop :=
  let inside := exists lo hi, In (lo, hi) rs /\ lo <= c <= hi in
  if neg then ~ inside else inside.

(* [rmatch r pre w post]: r matches the piece w of the haystack pre ++ w ++ post.
   `^` holds only at the start of the haystack, `$` only at its end (no
   multi-line mode); a set matches one byte; bytes are compared as bytes. *)
Inductive rmatch : regex_ast -> bytes -> bytes -> bytes -> Prop :=
| RmSet neg rs pre c post : byte_in_set neg rs c -> rmatch (RSet neg rs) pre [c] post
| RmEps pre post : rmatch REps pre [] post
| RmStart post : rmatch RStart [] [] post
| RmEnd pre : rmatch REnd pre [] []
| RmSeq a b pre w1 w2 post :
    rmatch a pre w1 (w2 ++ post) -> rmatch b (pre ++ w1) w2 post ->
    rmatch (RSeq a b) pre (w1 ++ w2) post
| RmAltL a b pre w post : rmatch a pre w post -> rmatch (RAlt a b) pre w post
| RmAltR a b pre w post : rmatch b pre w post -> rmatch (RAlt a b) pre w post
| RmStarNil a pre post : rmatch (RStar a) pre [] post
| RmStarCons a pre w1 w2 post :
    rmatch a pre w1 (w2 ++ post) -> rmatch (RStar a) (pre ++ w1) w2 post ->
    rmatch (RStar a) pre (w1 ++ w2) post.

(* unanchored search: some substring of the haystack matches *)
Definition regex_search_spec (r : regex_ast) (h : bytes) : Prop :=
  exists pre w post, h = pre ++ w ++ post /\ rmatch r pre w post.

(* ------------------------------------------------------------------ *)
(* 4. the two operators agree: a wildcard is the anchored regular
   expression ^ t1 t2 ... $ in which a star is (any byte)* and a literal is
   the byte itself or, when not strict, the byte in either ASCII case *)
Definition case_set (strict : bool) (c : N) : list (N * N) :=
  if strict then [(c, c)]
  else if (65 <=? c) && (c <=? 90) then [(c, c); (c + 32, c + 32)]
  else if (97 <=? c) && (c <=? 122) then [(c, c); (c - 32, c - 32)]
  else [(c, c)].

Definition tok_regex (strict : bool) (x : wtok) : regex_ast :=
  match x with
  | WLit c => RSet false (case_set strict c)
  | WStar => RStar (RSet true [])
  end.

Fixpoint wild_body (strict : bool) (t : list wtok) : regex_ast :=
  match t with
  | [] => REps
  | x :: r => RSeq (tok_regex strict x) (wild_body strict r)
  end.

Definition wild_regex (strict : bool) (t : list wtok) : regex_ast :=
  RSeq RStart (RSeq (wild_body strict t) REnd).
