(* Hand-written glue around the extracted model: bytes <-> Coq N conversion
   and a line loop.  Everything else (s-expression reading/printing, case
   decoding, the model, the specifications) is extracted Gallina. *)
module C = Wfmodel_core

let rec pos_of_int (n : int) : C.positive =
  if n = 1 then C.XH
  else if n land 1 = 0 then C.XO (pos_of_int (n lsr 1))
  else C.XI (pos_of_int (n lsr 1))

let n_of_int (n : int) : C.n = if n = 0 then C.N0 else C.Npos (pos_of_int n)

let rec int_of_pos (p : C.positive) : int =
  match p with C.XH -> 1 | C.XO q -> 2 * int_of_pos q | C.XI q -> 2 * int_of_pos q + 1

let int_of_n (x : C.n) : int = match x with C.N0 -> 0 | C.Npos p -> int_of_pos p

let table = Array.init 256 n_of_int

let bytes_of_line (s : string) : C.n list =
  let r = ref [] in
  for i = String.length s - 1 downto 0 do
    r := table.(Char.code s.[i]) :: !r
  done;
  !r

let line_of_bytes (l : C.n list) : string =
  let b = Buffer.create 256 in
  List.iter (fun x -> Buffer.add_char b (Char.chr ((int_of_n x) land 255))) l;
  Buffer.contents b

let () =
  let spec = Array.length Sys.argv > 1 && Sys.argv.(1) = "spec" in
  try
    while true do
      let line = input_line stdin in
      let out = C.run_line spec (bytes_of_line line) in
      print_string (line_of_bytes out);
      print_char '\n'
    done
  with End_of_file -> ()
