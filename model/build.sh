#!/bin/sh
# Builds /verif/model/wfmodel from the extracted OCaml (produced by the Coq build).
set -e
cd "$(dirname "$0")"
mkdir -p _build
cp extracted/wfmodel_core.ml extracted/wfmodel_core.mli driver.ml _build/
cd _build
ocamlfind ocamlopt -w -a -o ../wfmodel wfmodel_core.mli wfmodel_core.ml driver.ml
