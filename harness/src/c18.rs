//! C18: compiled filters shared between threads.
//!
//! (threads scheme (filters (#text ast)...) (ctxs ctx...) T R mode)
//!    mode = shared   : one set of ExecutionContexts, borrowed by all threads
//!         | clone    : every thread builds its own copy of every context
//!         | distinct : thread t builds and uses only the contexts j with j = t (mod min(T, #ctxs))
//! answer: (ok (results (r...)...) all-agree) | (ok (results ...) (differs phase thread filter ctx rep got))
//!         r = true | false | scheme-mismatch | panic;   (ast-mismatch i <ast>) when the parser's
//!         tree is not the one of the case (the model executes that tree).
//!
//! What runs:
//!   1. sequential reference: every filter parsed and compiled, every context built, every pair
//!      executed once, on the calling thread, before any other thread exists; that compile is dropped.
//!   2. every filter is compiled ONCE more; the Vec<Filter> goes behind an Arc; T threads are
//!      released by a std::sync::Barrier and each, R times, executes every filter on its contexts
//!      (thread t starts with filter t, so that different filters run at the same time); barrier;
//!      `hammer`: all threads execute filter 0 R times, then filter 1, ... (one filter used by all
//!      threads at once); barrier; `recompile`: every thread parses and compiles every filter itself,
//!      max(1, R/8) times, and executes it on its contexts.
//!      Every single result is compared with the reference; the first difference of each thread is
//!      kept and the smallest (phase, thread) is reported.
//!
//! `wfh --c18-fresh T` (case line on stdin): the process has not used the engine before; T threads are
//! released together and each parses, compiles and executes everything itself (first use of USE_AVX2,
//! of memchr's function pointers, of std_detect, of every regex pool and of the thread-local RNG all
//! race); the single-threaded reference is computed afterwards.  Same answer format.
use crate::lang::{SchemeInfo, dec_ctx, dec_scheme, enc_lexpr};
use crate::sexp::Sexp;
use std::panic::{AssertUnwindSafe, catch_unwind};
use std::sync::atomic::{AtomicUsize, Ordering};
use std::sync::{Arc, Barrier};
use wirefilter::{ExecutionContext, Filter};

#[derive(Clone, Copy, PartialEq)]
enum Mode {
    Shared,
    Clone,
    Distinct,
}

struct Case {
    info: SchemeInfo,
    texts: Vec<String>,
    asts: Vec<Sexp>,
    ctxs: Vec<Sexp>,
    t: usize,
    r: usize,
    mode: Mode,
}

const FALSE: u8 = 0;
const TRUE: u8 = 1;
const MISMATCH: u8 = 2;
const PANIC: u8 = 3;
const NOPARSE: u8 = 4;
const NOCTX: u8 = 5;

fn code_sexp(c: u8) -> Sexp {
    Sexp::sym(match c {
        FALSE => "false",
        TRUE => "true",
        MISMATCH => "scheme-mismatch",
        PANIC => "panic",
        NOPARSE => "no-parse",
        _ => "bad-ctx",
    })
}

fn dec_case(args: &[Sexp]) -> Option<Case> {
    let [sch, fs, cs, t, r, mode] = args else { return None };
    let info = dec_scheme(sch)?;
    let fl = fs.as_list()?;
    if !fl.first()?.is_sym("filters") {
        return None;
    }
    let mut texts = Vec::new();
    let mut asts = Vec::new();
    for f in &fl[1..] {
        let [text, ast] = f.as_list()? else { return None };
        texts.push(String::from_utf8(text.as_bytes()?.to_vec()).ok()?);
        asts.push(ast.clone());
    }
    let cl = cs.as_list()?;
    if !cl.first()?.is_sym("ctxs") {
        return None;
    }
    let ctxs = cl[1..].to_vec();
    let mode = match mode.as_sym()? {
        "shared" => Mode::Shared,
        "clone" => Mode::Clone,
        "distinct" => Mode::Distinct,
        _ => return None,
    };
    let t = t.as_usize()?;
    let r = r.as_usize()?;
    if t == 0 || t > 256 || texts.is_empty() || ctxs.is_empty() {
        return None;
    }
    Some(Case { info, texts, asts, ctxs, t, r, mode })
}

fn exec_code(f: &Filter, ctx: &ExecutionContext<'static>) -> u8 {
    match catch_unwind(AssertUnwindSafe(|| f.execute(ctx))) {
        Ok(Ok(true)) => TRUE,
        Ok(Ok(false)) => FALSE,
        Ok(Err(_)) => MISMATCH,
        Err(_) => PANIC,
    }
}

fn compile(info: &SchemeInfo, text: &str) -> Option<Filter> {
    catch_unwind(AssertUnwindSafe(|| info.scheme.parse(text).ok().map(|a| a.compile()))).ok().flatten()
}

/// The contexts thread `t` works on: (index in the case, context).
fn my_indices(case: &Case, t: usize) -> Vec<usize> {
    let n = case.ctxs.len();
    match case.mode {
        Mode::Shared | Mode::Clone => (0..n).collect(),
        Mode::Distinct => {
            let k = case.t.min(n);
            (0..n).filter(|j| j % k == t % k).collect()
        }
    }
}

#[derive(Clone, Debug, PartialEq, Eq, PartialOrd, Ord)]
struct Diff {
    phase: u8,
    thread: usize,
    filter: usize,
    ctx: usize,
    rep: usize,
    got: u8,
}

fn phase_name(p: u8) -> &'static str {
    match p {
        0 => "sweep",
        1 => "hammer",
        2 => "recompile",
        4 => "buffer-reuse",
        5 => "worker-pool",
        _ => "fresh",
    }
}

fn answer(seq: &[Vec<u8>], diff: Option<Diff>) -> Sexp {
    let rows: Vec<Sexp> = seq.iter().map(|row| Sexp::list(row.iter().map(|c| code_sexp(*c)).collect())).collect();
    let verdict = match diff {
        None => Sexp::sym("all-agree"),
        Some(d) => Sexp::tagged(
            "differs",
            vec![
                Sexp::sym(phase_name(d.phase)),
                Sexp::uint(d.thread as u128),
                Sexp::uint(d.filter as u128),
                Sexp::uint(d.ctx as u128),
                Sexp::uint(d.rep as u128),
                code_sexp(d.got),
            ],
        ),
    };
    Sexp::tagged("ok", vec![Sexp::tagged("results", rows), verdict])
}

/// Single-threaded reference (a compile of its own); Err = the parser's tree differs from the case's.
fn reference(case: &Case) -> Result<Vec<Vec<u8>>, Sexp> {
    let mut filters = Vec::new();
    for (i, text) in case.texts.iter().enumerate() {
        match case.info.scheme.parse(text) {
            Ok(ast) => {
                let got = enc_lexpr(&case.info, ast.expression());
                if got != case.asts[i] {
                    return Err(Sexp::tagged("ast-mismatch", vec![Sexp::uint(i as u128), got]));
                }
                filters.push(Some(ast.compile()));
            }
            Err(_) => filters.push(None),
        }
    }
    let ctxs: Vec<Option<ExecutionContext<'static>>> = case.ctxs.iter().map(|c| dec_ctx(&case.info, c)).collect();
    Ok(filters
        .iter()
        .map(|f| {
            ctxs.iter()
                .map(|c| match (f, c) {
                    (None, _) => NOPARSE,
                    (_, None) => NOCTX,
                    (Some(f), Some(c)) => exec_code(f, c),
                })
                .collect()
        })
        .collect())
}

fn buffer_reuse(case: &Case, filters: &[Filter], seq: &[Vec<u8>]) -> Option<Diff> {
    use wirefilter::{GetType, LhsValue, Type};
    let ctxs: Vec<ExecutionContext<'static>> = case.ctxs.iter().filter_map(|c| dec_ctx(&case.info, c)).collect();
    if ctxs.len() != case.ctxs.len() {
        return None;
    }
    for field in case.info.scheme.fields() {
        if field.get_type() != Type::Bytes {
            continue;
        }
        // the contexts that have a value for the field, grouped by the value's length
        let mut by_len: std::collections::BTreeMap<usize, Vec<(usize, Vec<u8>)>> = Default::default();
        for (j, c) in ctxs.iter().enumerate() {
            if let Some(LhsValue::Bytes(b)) = c.get_field_value(field) {
                by_len.entry(b.len()).or_default().push((j, b.to_vec()));
            }
        }
        for (len, group) in by_len {
            if group.len() < 2 || len == 0 {
                continue;
            }
            let mut buf: Vec<u8> = vec![0; len];
            for round in 0..2 {
                for (j, bytes) in &group {
                    buf.copy_from_slice(bytes);
                    {
                        let mut c2: ExecutionContext<'_> = ctxs[*j].clone_with(());
                        if c2.set_field_value(field, &buf[..]).is_err() {
                            return None;
                        }
                        for (i, f) in filters.iter().enumerate() {
                            let got = match catch_unwind(AssertUnwindSafe(|| f.execute(&c2))) {
                                Ok(Ok(true)) => TRUE,
                                Ok(Ok(false)) => FALSE,
                                Ok(Err(_)) => MISMATCH,
                                Err(_) => PANIC,
                            };
                            if got != seq[i][*j] {
                                return Some(Diff { phase: 4, thread: 0, filter: i, ctx: *j, rep: round, got });
                            }
                        }
                    }
                }
            }
        }
    }
    None
}

// ---------------------------------------------------------------- long-lived workers
//
// Four worker threads that live as long as the process: every case hands them its compiled filters and contexts
// once more.  Whatever a thread keeps between executions (thread-locals, scratch space, memos) outlives the
// filters of the earlier cases, which are compiled and dropped on the calling thread.
type PoolJob = (Arc<Vec<Filter>>, Arc<Vec<ExecutionContext<'static>>>, std::sync::mpsc::Sender<Vec<Vec<u8>>>);

fn pool() -> &'static Vec<std::sync::Mutex<std::sync::mpsc::Sender<PoolJob>>> {
    static POOL: std::sync::OnceLock<Vec<std::sync::Mutex<std::sync::mpsc::Sender<PoolJob>>>> =
        std::sync::OnceLock::new();
    POOL.get_or_init(|| {
        (0..4)
            .map(|_| {
                let (tx, rx) = std::sync::mpsc::channel::<PoolJob>();
                std::thread::spawn(move || {
                    for (filters, ctxs, reply) in rx {
                        let res: Vec<Vec<u8>> =
                            filters.iter().map(|f| ctxs.iter().map(|c| exec_code(f, c)).collect()).collect();
                        // the worker lets go of the filters before it answers: the caller frees them
                        drop(filters);
                        drop(ctxs);
                        let _ = reply.send(res);
                    }
                });
                std::sync::Mutex::new(tx)
            })
            .collect()
    })
}

fn worker_pool(case: &Case, filters: &Arc<Vec<Filter>>, seq: &[Vec<u8>]) -> Option<Diff> {
    let ctxs: Arc<Vec<ExecutionContext<'static>>> =
        Arc::new(case.ctxs.iter().map(|c| dec_ctx(&case.info, c)).collect::<Option<Vec<_>>>()?);
    let mut replies = Vec::new();
    for w in pool().iter() {
        let (tx, rx) = std::sync::mpsc::channel();
        w.lock().ok()?.send((filters.clone(), ctxs.clone(), tx)).ok()?;
        replies.push(rx);
    }
    let mut first = None;
    for (t, rx) in replies.into_iter().enumerate() {
        let res = rx.recv_timeout(std::time::Duration::from_secs(600)).ok()?;
        for (i, row) in res.iter().enumerate() {
            for (j, got) in row.iter().enumerate() {
                if first.is_none() && *got != seq[i][j] {
                    first = Some(Diff { phase: 5, thread: t, filter: i, ctx: j, rep: 0, got: *got });
                }
            }
        }
    }
    first
}

fn run_threads(case: Case) -> Sexp {
    let seq = match reference(&case) {
        Ok(s) => s,
        Err(e) => return e,
    };
    if seq.iter().flatten().any(|c| *c == NOPARSE || *c == NOCTX) {
        return answer(&seq, None);
    }
    // compiled once, shared
    let filters: Arc<Vec<Filter>> =
        match case.texts.iter().map(|t| compile(&case.info, t)).collect::<Option<Vec<_>>>() {
            Some(f) => Arc::new(f),
            None => return Sexp::tagged("recompile-failed", vec![]),
        };
    let shared_ctxs: Arc<Vec<ExecutionContext<'static>>> = Arc::new(if case.mode == Mode::Shared {
        match case.ctxs.iter().map(|c| dec_ctx(&case.info, c)).collect::<Option<Vec<_>>>() {
            Some(c) => c,
            None => return Sexp::tagged("bad-ctx", vec![]),
        }
    } else {
        Vec::new()
    });
    // `buffer-reuse` (sequential): the long-lived compiled filters are executed on contexts whose byte-string
    // fields borrow ONE buffer that is overwritten in place between executions, so consecutive inputs have the
    // same address and length but different bytes - repeated executions must still agree with the reference
    // (a memo keyed by the identity of the input instead of its content would not).
    if let Some(d) = buffer_reuse(&case, &filters, &seq) {
        return answer(&seq, Some(d));
    }
    if let Some(d) = worker_pool(&case, &filters, &seq) {
        return answer(&seq, Some(d));
    }
    let t_n = case.t;
    let barrier = Barrier::new(t_n);
    let case = &case;
    let seq_ref = &seq;
    let barrier = &barrier;
    let diffs: Vec<Option<Diff>> = std::thread::scope(|s| {
        let hs: Vec<_> = (0..t_n)
            .map(|t| {
                // every thread owns a handle; the last one to finish frees the filters
                let filters = Arc::clone(&filters);
                let shared_ctxs = Arc::clone(&shared_ctxs);
                s.spawn(move || {
                    let idx = my_indices(case, t);
                    let own: Vec<ExecutionContext<'static>> = if case.mode == Mode::Shared {
                        Vec::new()
                    } else {
                        idx.iter().filter_map(|j| dec_ctx(&case.info, &case.ctxs[*j])).collect()
                    };
                    let ok = case.mode == Mode::Shared || own.len() == idx.len();
                    let ctx_at = |k: usize| -> &ExecutionContext<'static> {
                        if case.mode == Mode::Shared { &shared_ctxs[idx[k]] } else { &own[k] }
                    };
                    let nf = filters.len();
                    let mut first: Option<Diff> = None;
                    let mut note = |phase: u8, i: usize, j: usize, rep: usize, got: u8| {
                        if first.is_none() {
                            first = Some(Diff { phase, thread: t, filter: i, ctx: j, rep, got });
                        }
                    };
                    if !ok {
                        note(0, 0, 0, 0, NOCTX);
                    }
                    barrier.wait();
                    if ok {
                        for rep in 0..case.r {
                            for ii in 0..nf {
                                let i = (ii + t) % nf;
                                for kk in 0..idx.len() {
                                    let k = (kk + t + rep) % idx.len();
                                    let got = exec_code(&filters[i], ctx_at(k));
                                    if got != seq_ref[i][idx[k]] {
                                        note(0, i, idx[k], rep, got);
                                    }
                                }
                            }
                        }
                    }
                    barrier.wait();
                    if ok {
                        for i in 0..nf {
                            for rep in 0..case.r {
                                // neighbouring threads are on different contexts of the same filter
                                for kk in 0..idx.len() {
                                    let k = (kk + t) % idx.len();
                                    let got = exec_code(&filters[i], ctx_at(k));
                                    if got != seq_ref[i][idx[k]] {
                                        note(1, i, idx[k], rep, got);
                                    }
                                }
                            }
                        }
                    }
                    barrier.wait();
                    if ok {
                        for rep in 0..(case.r / 8).max(1) {
                            for ii in 0..nf {
                                let i = (ii + t) % nf;
                                match compile(&case.info, &case.texts[i]) {
                                    None => note(2, i, 0, rep, NOPARSE),
                                    Some(f) => {
                                        for k in 0..idx.len() {
                                            let got = exec_code(&f, ctx_at(k));
                                            if got != seq_ref[i][idx[k]] {
                                                note(2, i, idx[k], rep, got);
                                            }
                                        }
                                    }
                                }
                            }
                        }
                    }
                    first
                })
            })
            .collect();
        drop(filters);
        drop(shared_ctxs);
        hs.into_iter()
            .enumerate()
            .map(|(t, h)| {
                h.join().unwrap_or(Some(Diff { phase: 0, thread: t, filter: 0, ctx: 0, rep: 0, got: PANIC }))
            })
            .collect()
    });
    answer(&seq, diffs.into_iter().flatten().min())
}

/// A barrier that releases its waiters within a few hundred nanoseconds of each other (they spin),
/// so that the step that follows is really taken at the same time.
struct SpinBarrier {
    n: usize,
    arrived: AtomicUsize,
    generation: AtomicUsize,
}

impl SpinBarrier {
    fn new(n: usize) -> Self {
        SpinBarrier { n, arrived: AtomicUsize::new(0), generation: AtomicUsize::new(0) }
    }
    fn wait(&self) {
        let g = self.generation.load(Ordering::Acquire);
        if self.arrived.fetch_add(1, Ordering::AcqRel) + 1 == self.n {
            self.arrived.store(0, Ordering::Release);
            self.generation.fetch_add(1, Ordering::AcqRel);
            return;
        }
        let mut spins = 0u32;
        while self.generation.load(Ordering::Acquire) == g {
            spins += 1;
            if spins % 200 == 0 {
                std::thread::yield_now(); // more threads than cores
            } else {
                std::hint::spin_loop();
            }
        }
    }
}

/// Fresh-process race: nothing of the engine has run before the threads are released.
fn run_fresh(case: Case, t_n: usize) -> Sexp {
    let barrier = Barrier::new(t_n);
    let spin = SpinBarrier::new(t_n);
    let case_ref = &case;
    let barrier = &barrier;
    let spin = &spin;
    let reps = case.r.clamp(1, 6);
    let per_thread: Vec<Option<Vec<Vec<Vec<u8>>>>> = std::thread::scope(|s| {
        let hs: Vec<_> = (0..t_n)
            .map(|t| {
                s.spawn(move || {
                    let case = case_ref;
                    let nf = case.texts.len();
                    barrier.wait();
                    let mut all = Vec::new();
                    for rep in 0..reps {
                        let mut rows: Vec<Vec<u8>> = vec![Vec::new(); nf];
                        // first use of everything happens here, on T threads at once
                        if rep == 0 {
                            spin.wait();
                        }
                        let ctxs: Vec<Option<ExecutionContext<'static>>> =
                            case.ctxs.iter().map(|c| dec_ctx(&case.info, c)).collect();
                        for ii in 0..nf {
                            // first round: every thread does the same thing at the same time (each first
                            // use is contended); later rounds: staggered
                            let i = if rep == 0 { ii } else { (ii + t * rep) % nf };
                            if rep == 0 {
                                spin.wait();
                            }
                            let f = compile(&case.info, &case.texts[i]);
                            if rep == 0 {
                                spin.wait();
                            }
                            rows[i] = ctxs
                                .iter()
                                .map(|c| match (&f, c) {
                                    (None, _) => NOPARSE,
                                    (_, None) => NOCTX,
                                    (Some(f), Some(c)) => exec_code(f, c),
                                })
                                .collect();
                        }
                        all.push(rows);
                    }
                    all
                })
            })
            .collect();
        hs.into_iter().map(|h| h.join().ok()).collect()
    });
    let seq = match reference(&case) {
        Ok(s) => s,
        Err(e) => return e,
    };
    let mut diff: Option<Diff> = None;
    'outer: for (t, res) in per_thread.iter().enumerate() {
        match res {
            None => {
                diff = Some(Diff { phase: 3, thread: t, filter: 0, ctx: 0, rep: 0, got: PANIC });
                break;
            }
            Some(all) => {
                for (rep, rows) in all.iter().enumerate() {
                    for (i, row) in rows.iter().enumerate() {
                        for (j, got) in row.iter().enumerate() {
                            if *got != seq[i][j] {
                                diff = Some(Diff { phase: 3, thread: t, filter: i, ctx: j, rep, got: *got });
                                break 'outer;
                            }
                        }
                    }
                }
            }
        }
    }
    answer(&seq, diff)
}

/// `wfh --c18-fresh T`: one case line on stdin.
pub fn fresh_main(t_n: usize) -> ! {
    std::panic::set_hook(Box::new(|_| {}));
    let mut line = String::new();
    let _ = std::io::stdin().read_line(&mut line);
    let out = (|| {
        let case = crate::sexp::parse(line.trim_end())?;
        let l = case.as_list()?;
        if !l.first()?.is_sym("threads") {
            return None;
        }
        let c = dec_case(&l[1..])?;
        Some(run_fresh(c, t_n.clamp(1, 256)))
    })();
    println!("{}", out.unwrap_or_else(|| Sexp::list(vec![Sexp::sym("bad-case")])).to_line());
    std::process::exit(0);
}

pub fn run(head: &str, args: &[Sexp]) -> Option<Sexp> {
    match head {
        "threads" => Some(run_threads(dec_case(args)?)),
        _ => None,
    }
}
