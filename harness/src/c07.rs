//! C07 — the AST and its JSON are a canonical image of filter structure.
//!
//!   (c07 scheme #text)                      -> (ok <ast> #json hash) | (err)
//!   (c07-same scheme <ast> #text ...)       -> (ok <ast> #json hash)            every layout gives the same answer
//!                                            | (differ i <ast> #json hash ...)  layout i differs from layout 0
//!   (c07-distinct scheme <a1> #t1 <a2> #t2) -> (ok #json1 hash1 #json2 hash2 differ|same)
//!
//! <ast> is the s-expression form of harness/src/lang.rs, #json the exact text of
//! serde_json::to_string(&ast), hash the value of the C API wirefilter_get_filter_hash.
//! Everything the C API returns is cross-checked against the Rust API on the spot; any
//! discrepancy replaces the answer by a tagged report, so it shows up as a disagreement.
use crate::lang::{SchemeInfo, dec_scheme, enc_lexpr};
use crate::sexp::Sexp;
use std::collections::hash_map::DefaultHasher;
use std::hash::{Hash, Hasher};
use wirefilter::FilterAst;
use wirefilter_ffi as ffi;

struct One {
    ast: FilterAst,
    sexp: Sexp,
    json: Vec<u8>,
    hash: u64,
}

fn std_hash(a: &FilterAst) -> u64 {
    let mut h = DefaultHasher::new();
    a.hash(&mut h);
    h.finish()
}

/// Parses and serializes one text; `Err` carries the answer to give instead.
fn one(info: &SchemeInfo, text: &[u8]) -> Result<One, Sexp> {
    let text = String::from_utf8(text.to_vec()).map_err(|_| Sexp::tagged("bad-utf8", vec![]))?;
    // The AST depends on the text alone, not on what this thread parsed before: before the real parse, every other
    // text is preceded by parses of its own prefixes cut inside tokens (unterminated literals, open brackets,
    // operators without operand ...); whatever they answer, they must leave nothing behind.
    static TURN: std::sync::atomic::AtomicUsize = std::sync::atomic::AtomicUsize::new(0);
    if TURN.fetch_add(1, std::sync::atomic::Ordering::Relaxed) % 2 == 0 {
        let n = text.len();
        for k in [n / 3, n / 2, 2 * n / 3, n.saturating_sub(1), n.saturating_sub(2)] {
            let mut k = k;
            while k > 0 && !text.is_char_boundary(k) {
                k -= 1;
            }
            let _ = info.scheme.parse(&text[..k]);
        }
        for (i, c) in text.char_indices() {
            // a prefix that ends right after the first character of a quoted literal: an unterminated literal
            if c == '"' && i + 2 <= n && text.is_char_boundary(i + 2) {
                let _ = info.scheme.parse(&text[..i + 2]);
            }
        }
    }
    let ast = info.scheme.parse(&text).map_err(|_| Sexp::tagged("err", vec![]))?;
    let sexp = enc_lexpr(info, ast.expression());
    let json = serde_json::to_string(&ast).map_err(|_| Sexp::tagged("serialize-failed", vec![]))?;
    // re-serializing is deterministic; the expression alone is the whole document (transparent wrapper)
    let again = serde_json::to_string(&ast).unwrap_or_default();
    let inner = serde_json::to_string(ast.expression()).unwrap_or_default();
    if again != json || inner != json {
        return Err(Sexp::tagged(
            "reserialize-differs",
            vec![Sexp::Bytes(json.into_bytes()), Sexp::Bytes(again.into_bytes()), Sexp::Bytes(inner.into_bytes())],
        ));
    }
    // the C API on the same AST
    let c_ast = ffi::FilterAst::from(ast.clone());
    let ffi::SerializingResult { status, json: cj } = ffi::wirefilter_serialize_filter_to_json(&c_ast);
    let c_json = if cj.ptr.is_null() {
        None
    } else {
        Some(unsafe { std::slice::from_raw_parts(cj.ptr as *const u8, cj.len) }.to_vec())
    };
    ffi::wirefilter_free_string(cj);
    if status != ffi::Status::Success || c_json.as_deref() != Some(json.as_bytes()) {
        return Err(Sexp::tagged(
            "capi-json-differs",
            vec![Sexp::Bytes(json.into_bytes()), Sexp::Bytes(c_json.unwrap_or_default())],
        ));
    }
    let h1 = ffi::wirefilter_get_filter_hash(&c_ast);
    let h2 = ffi::wirefilter_get_filter_hash(&c_ast);
    if h1.status != ffi::Status::Success || h1 != h2 {
        return Err(Sexp::tagged("capi-hash-unstable", vec![Sexp::uint(h1.hash as u128), Sexp::uint(h2.hash as u128)]));
    }
    Ok(One { ast, sexp, json: json.into_bytes(), hash: h1.hash })
}

fn triple(o: &One) -> Vec<Sexp> {
    vec![o.sexp.clone(), Sexp::Bytes(o.json.clone()), Sexp::uint(o.hash as u128)]
}

pub fn run(head: &str, args: &[Sexp]) -> Option<Sexp> {
    match head {
        "c07" => {
            let [sch, text] = args else { return None };
            let info = dec_scheme(sch)?;
            Some(match one(&info, text.as_bytes()?) {
                Ok(o) => Sexp::tagged("ok", triple(&o)),
                Err(e) => e,
            })
        }
        "c07-same" => {
            let [sch, _ast, texts @ ..] = args else { return None };
            let info = dec_scheme(sch)?;
            let mut first: Option<One> = None;
            for (i, t) in texts.iter().enumerate() {
                let o = match one(&info, t.as_bytes()?) {
                    Ok(o) => o,
                    Err(e) => return Some(Sexp::tagged("layout", vec![Sexp::int(i as i64), e])),
                };
                match &first {
                    None => first = Some(o),
                    Some(f) => {
                        // the rendered answers, Rust `==` and the derived `Hash` must all agree
                        let same = f.sexp.to_line() == o.sexp.to_line()
                            && f.json == o.json
                            && f.hash == o.hash
                            && f.ast == o.ast
                            && std_hash(&f.ast) == std_hash(&o.ast);
                        if !same {
                            let mut v = vec![Sexp::int(i as i64)];
                            v.extend(triple(f));
                            v.extend(triple(&o));
                            v.push(Sexp::boolean(f.ast == o.ast));
                            v.push(Sexp::boolean(std_hash(&f.ast) == std_hash(&o.ast)));
                            return Some(Sexp::tagged("differ", v));
                        }
                    }
                }
            }
            Some(Sexp::tagged("ok", triple(&first?)))
        }
        "c07-distinct" => {
            let [sch, _a1, t1, _a2, t2] = args else { return None };
            let info = dec_scheme(sch)?;
            let o1 = match one(&info, t1.as_bytes()?) {
                Ok(o) => o,
                Err(e) => return Some(Sexp::tagged("layout", vec![Sexp::int(0), e])),
            };
            let o2 = match one(&info, t2.as_bytes()?) {
                Ok(o) => o,
                Err(e) => return Some(Sexp::tagged("layout", vec![Sexp::int(1), e])),
            };
            // Eq / Hash / document consistency: ASTs the implementation itself calls equal must have the same
            // std hash, the same JSON and the same C-API hash
            if o1.ast == o2.ast && (std_hash(&o1.ast) != std_hash(&o2.ast) || o1.json != o2.json || o1.hash != o2.hash) {
                return Some(Sexp::tagged(
                    "equal-asts-inconsistent",
                    vec![
                        Sexp::boolean(std_hash(&o1.ast) == std_hash(&o2.ast)),
                        Sexp::boolean(o1.json == o2.json),
                        Sexp::boolean(o1.hash == o2.hash),
                    ],
                ));
            }
            let differ = o1.json != o2.json;
            // equal documents <=> equal hashes is only required left to right; report a collision separately
            let tag = if differ { "differ" } else { "same" };
            Some(Sexp::tagged(
                "ok",
                vec![
                    Sexp::Bytes(o1.json.clone()),
                    Sexp::uint(o1.hash as u128),
                    Sexp::Bytes(o2.json.clone()),
                    Sexp::uint(o2.hash as u128),
                    Sexp::sym(tag),
                ],
            ))
        }
        _ => None,
    }
}
