//! C19: the panic catcher (engine/src/panic.rs) driven through its public API.
//!
//! (panic-prog (step...) [probe])                 one program on a fresh thread
//! (panic-2threads (step...) (step...) (0|1 ...)) two fresh threads in lock-step (0 = A moves)
//! step ::= enable | disable | install | (fallback continue|abort) | backtrace | level
//!        | (panic k) | (catch step...)
//! answer: see coq/theories/Run/C19.v.
//!
//! Once per process, before the first case: a silent *sentinel* hook is installed with
//! std::panic::set_hook, then wirefilter::panic_catcher_set_hook(), so the sentinel is the
//! "previous hook".  The sentinel appends `(prev k)` to the observations of the thread it runs on.
//! Panic k carries the text "C19-MSG-<k>-END"; a returned text is reduced to the list of k whose
//! text occurs in it.
//!
//! process::abort() cannot be observed in-process: a `(panic k)` step issued at observed level 0
//! (verif hook) while the thread's fallback mode is Abort (known from the API calls made) is NOT
//! executed here: the program stops there and is answered `(abort ...)`.  When the case carries the
//! marker `probe`, it is also re-run unguarded in a child process (`wfh --c19-abort-probe`, about
//! half a second: the abort path resolves a backtrace in a fresh process) and answered
//! `(abort ...)` only if the child died with SIGABRT.
use crate::sexp::Sexp;
use std::cell::RefCell;
use std::panic::{AssertUnwindSafe, catch_unwind};
use std::sync::mpsc::{Receiver, Sender, channel};
use std::sync::{Arc, Mutex, Once};
use std::time::Duration;
use wirefilter::{
    PanicCatcherFallbackMode, catch_panic, panic_catcher_disable, panic_catcher_enable,
    panic_catcher_get_backtrace, panic_catcher_set_fallback_mode, panic_catcher_set_hook,
};

#[derive(Clone, Debug)]
enum Step {
    Enable,
    Disable,
    Install,
    Fallback(bool), // true = Abort
    Backtrace,
    Level,
    Panic(u64),
    Catch(Vec<Step>),
}

fn dec_step(s: &Sexp) -> Option<Step> {
    if let Some(sym) = s.as_sym() {
        return match sym {
            "enable" => Some(Step::Enable),
            "disable" => Some(Step::Disable),
            "install" => Some(Step::Install),
            "backtrace" => Some(Step::Backtrace),
            "level" => Some(Step::Level),
            _ => None,
        };
    }
    let l = s.as_list()?;
    let (h, rest) = l.split_first()?;
    match h.as_sym()? {
        "catch" => Some(Step::Catch(rest.iter().map(dec_step).collect::<Option<Vec<_>>>()?)),
        "panic" => match rest {
            [m] => Some(Step::Panic(u64::try_from(m.as_u128()?).ok()?)),
            _ => None,
        },
        "fallback" => match rest {
            [f] => match f.as_sym()? {
                "continue" => Some(Step::Fallback(false)),
                "abort" => Some(Step::Fallback(true)),
                _ => None,
            },
            _ => None,
        },
        _ => None,
    }
}

fn dec_prog(s: &Sexp) -> Option<Vec<Step>> {
    s.as_list()?.iter().map(dec_step).collect()
}

const PRE: &str = "C19-MSG-";
/// The tail of every message holds what a formatter could mangle: quotes, a backslash, a tab, a line
/// break, braces and a non-ASCII letter.  A message counts as present only when it occurs verbatim.
const POST: &str = "-\"q\" 'a' back\\slash\ttab\nsecond line {0} {{}} \u{e9}-END";

fn message(k: u64) -> String {
    format!("{PRE}{k}{POST}")
}

/// The k (ascending, distinct) whose message text occurs in `text`.
fn ids(text: &str) -> Vec<Sexp> {
    let mut out: Vec<u64> = Vec::new();
    let mut rest = text;
    while let Some(i) = rest.find(PRE) {
        rest = &rest[i + PRE.len()..];
        let digits: String = rest.chars().take_while(|c| c.is_ascii_digit()).collect();
        if !digits.is_empty() && rest[digits.len()..].starts_with(POST) {
            if let Ok(k) = digits.parse::<u64>() {
                out.push(k);
            }
        }
    }
    out.sort();
    out.dedup();
    out.into_iter().map(|k| Sexp::uint(k as u128)).collect()
}

fn payload_text(p: &(dyn std::any::Any + Send)) -> String {
    if let Some(s) = p.downcast_ref::<&str>() {
        s.to_string()
    } else if let Some(s) = p.downcast_ref::<String>() {
        s.clone()
    } else {
        String::new()
    }
}

type Rec = Arc<Mutex<Vec<Sexp>>>;

thread_local! {
    /// Observations of the program running on this thread (None on every other thread).
    static REC: RefCell<Option<Rec>> = const { RefCell::new(None) };
}

static INIT: Once = Once::new();

/// Sentinel first, then the catcher's hook: the sentinel is the previous hook.
pub fn install_hooks() {
    INIT.call_once(|| {
        std::panic::set_hook(Box::new(|info| {
            let text = payload_text(info.payload());
            // never panics: silent when the thread runs no C19 program or is shutting down
            let _ = REC.try_with(|r| {
                if let Ok(r) = r.try_borrow() {
                    if let Some(rec) = r.as_ref() {
                        if let Ok(mut v) = rec.lock() {
                            v.push(Sexp::tagged("prev", ids(&text)));
                        }
                    }
                }
            });
        }));
        panic_catcher_set_hook();
    });
}

enum Reply {
    Ready,
    Finished,
}

/// Lock-step with the coordinator (two-thread cases only).
struct Turn {
    go: Receiver<()>,
    reply: Sender<Reply>,
}

struct Cx {
    rec: Rec,
    fallback_abort: bool,
    guard_abort: bool,
    turn: Option<Turn>,
}

impl Cx {
    fn push(&self, e: Sexp) {
        self.rec.lock().unwrap().push(e);
    }
    /// Start of an atomic step.
    fn tick(&self) {
        if let Some(t) = &self.turn {
            let _ = t.reply.send(Reply::Ready);
            let _ = t.go.recv();
        }
    }
}

fn opt_ids(tag: &str, text: Option<String>) -> Sexp {
    Sexp::tagged(tag, text.map(|t| ids(&t)).unwrap_or_default())
}

fn fallback_sym(m: PanicCatcherFallbackMode) -> Sexp {
    Sexp::sym(match m {
        PanicCatcherFallbackMode::Continue => "continue",
        PanicCatcherFallbackMode::Abort => "abort",
    })
}

/// false = stopped in front of a panic that would abort the process.
fn run_prog(p: &[Step], cx: &mut Cx) -> bool {
    for s in p {
        cx.tick();
        match s {
            Step::Enable => {
                panic_catcher_enable();
                cx.push(Sexp::sym("unit"));
            }
            Step::Disable => {
                panic_catcher_disable();
                cx.push(Sexp::sym("unit"));
            }
            Step::Install => {
                panic_catcher_set_hook();
                cx.push(Sexp::sym("unit"));
            }
            Step::Fallback(abort) => {
                let prev = panic_catcher_set_fallback_mode(if *abort {
                    PanicCatcherFallbackMode::Abort
                } else {
                    PanicCatcherFallbackMode::Continue
                });
                cx.fallback_abort = *abort;
                cx.push(Sexp::tagged("fallback", vec![fallback_sym(prev)]));
            }
            Step::Backtrace => cx.push(opt_ids("bt", panic_catcher_get_backtrace())),
            Step::Level => cx.push(Sexp::tagged(
                "level",
                vec![Sexp::uint(wirefilter::verif::panic_catcher_level() as u128)],
            )),
            Step::Panic(k) => {
                cx.push(Sexp::tagged("panic", vec![Sexp::uint(*k as u128)]));
                if cx.guard_abort
                    && cx.fallback_abort
                    && wirefilter::verif::panic_catcher_level() == 0
                {
                    return false;
                }
                panic!("{}", message(*k));
            }
            Step::Catch(body) => {
                let r = catch_panic(AssertUnwindSafe(|| {
                    cx.push(Sexp::sym("enter"));
                    let cont = run_prog(body, cx);
                    if cont {
                        cx.tick(); // the closure returns: its own atomic step
                    }
                    cont
                }));
                match r {
                    Ok(true) => cx.push(Sexp::sym("ok")),
                    Ok(false) => return false,
                    Err(text) => cx.push(Sexp::tagged("err", ids(&text))),
                }
            }
        }
    }
    true
}

/// Runs on the fresh thread; returns the answer.
fn thread_main(prog: &[Step], guard_abort: bool, turn: Option<Turn>) -> Sexp {
    let rec: Rec = Arc::new(Mutex::new(Vec::new()));
    REC.with(|r| *r.borrow_mut() = Some(rec.clone()));
    let mut cx = Cx { rec: rec.clone(), fallback_abort: false, guard_abort, turn };
    let out = catch_unwind(AssertUnwindSafe(|| run_prog(prog, &mut cx)));
    let fin = Sexp::tagged(
        "final",
        vec![
            Sexp::uint(wirefilter::verif::panic_catcher_level() as u128),
            opt_ids("bt", panic_catcher_get_backtrace()),
        ],
    );
    REC.with(|r| *r.borrow_mut() = None);
    let events = Sexp::list(rec.lock().unwrap().clone());
    let ans = match out {
        Ok(true) => Sexp::tagged("returned", vec![events, fin]),
        Ok(false) => Sexp::tagged("abort", vec![events]),
        Err(p) => {
            let mut v = ids(&payload_text(&*p));
            v.push(events);
            v.push(fin);
            Sexp::tagged("unwound", v)
        }
    };
    if let Some(t) = &cx.turn {
        let _ = t.reply.send(Reply::Finished);
    }
    ans
}

/// A fresh, unnamed thread (its thread-locals are in their initial state).
fn fresh_thread<F: FnOnce() -> Sexp + Send + 'static>(f: F) -> std::thread::JoinHandle<Sexp> {
    std::thread::Builder::new().stack_size(STACK).spawn(f).expect("spawn")
}

const STACK: usize = 1 << 20;

fn is_abort(a: &Sexp) -> bool {
    matches!(a.as_list().and_then(|l| l.first()).and_then(|h| h.as_sym()), Some("abort"))
}

/// Re-runs the case without the guard in a child process; true iff it died with SIGABRT.
fn confirm_abort(case_line: &str) -> bool {
    let Ok(exe) = std::env::current_exe() else { return false };
    // a child that could not be started at all (the executable being replaced, fork limits) says nothing
    // about the program: try again a few times before giving up
    for attempt in 0..5 {
        let st = std::process::Command::new(&exe)
            .arg("--c19-abort-probe")
            .arg(case_line)
            .stdin(std::process::Stdio::null())
            .stdout(std::process::Stdio::null())
            .stderr(std::process::Stdio::null())
            .status();
        match st {
            Ok(st) => {
                use std::os::unix::process::ExitStatusExt;
                return st.signal() == Some(libc::SIGABRT);
            }
            Err(_) => std::thread::sleep(Duration::from_millis(200 << attempt)),
        }
    }
    false
}

/// `wfh --c19-abort-probe '<case>'`: the program for real, Abort mode included.
pub fn abort_probe(case_line: &str) -> ! {
    unsafe {
        let lim = libc::rlimit { rlim_cur: 0, rlim_max: 0 };
        libc::setrlimit(libc::RLIMIT_CORE, &lim);
    }
    let code = (|| {
        let case = crate::sexp::parse(case_line)?;
        let l = case.as_list()?;
        let prog = dec_prog(l.get(1)?)?;
        install_hooks();
        let _ = fresh_thread(move || thread_main(&prog, false, None)).join();
        Some(0)
    })();
    std::process::exit(code.unwrap_or(3));
}

/// `wfh --c19-install-race <n>`: in this fresh process, a sentinel hook, then n threads released
/// together each call panic_catcher_set_hook() (the non-atomic check / take_hook / set_hook);
/// afterwards a panic outside catch_panic (level 0, fallback Continue) on a fresh thread must reach
/// the sentinel.  Prints `(kept)` or `(lost)`.  Exploration of C19_install_race_refuted_previous_hook_lost
/// on the real code; not part of the pass/fail verdict (the outcome depends on the scheduler).
pub fn install_race(n: usize) -> ! {
    static SEEN: Mutex<Vec<String>> = Mutex::new(Vec::new());
    std::panic::set_hook(Box::new(|info| {
        let text = payload_text(info.payload());
        if let Ok(mut v) = SEEN.lock() {
            v.push(text);
        }
    }));
    let barrier = Arc::new(std::sync::Barrier::new(n));
    let hs: Vec<_> = (0..n)
        .map(|_| {
            let b = barrier.clone();
            std::thread::spawn(move || {
                b.wait();
                panic_catcher_set_hook();
            })
        })
        .collect();
    for h in hs {
        let _ = h.join();
    }
    let _ = std::thread::spawn(|| panic!("{}", message(1))).join();
    let kept = SEEN.lock().map(|v| v.iter().any(|t| t.contains(&message(1)))).unwrap_or(false);
    println!("{}", if kept { "(kept)" } else { "(lost)" });
    std::process::exit(0);
}

fn run_single(prog: Vec<Step>, probe: bool, case_line: &str) -> Option<Sexp> {
    install_hooks();
    let ans = fresh_thread(move || thread_main(&prog, true, None)).join().ok()?;
    if probe && is_abort(&ans) && !confirm_abort(case_line) {
        return Some(Sexp::tagged("abort-not-confirmed", vec![ans]));
    }
    Some(ans)
}

fn run_two(pa: Vec<Step>, pb: Vec<Step>, sched: Vec<usize>) -> Option<Sexp> {
    install_hooks();
    let mut go_tx = Vec::new();
    let mut reply_rx = Vec::new();
    let mut handles = Vec::new();
    for prog in [pa, pb] {
        let (gtx, grx) = channel::<()>();
        let (rtx, rrx) = channel::<Reply>();
        go_tx.push(gtx);
        reply_rx.push(rrx);
        handles.push(fresh_thread(move || {
            thread_main(&prog, true, Some(Turn { go: grx, reply: rtx }))
        }));
    }
    let wait = |t: usize| -> Option<bool> {
        match reply_rx[t].recv_timeout(Duration::from_secs(300)) {
            Ok(Reply::Ready) => Some(false),
            Ok(Reply::Finished) => Some(true),
            Err(_) => None,
        }
    };
    let mut finished = [false, false];
    let mut timeout = false;
    for t in 0..2 {
        match wait(t) {
            Some(f) => finished[t] = f,
            None => timeout = true,
        }
    }
    let mut order: Vec<usize> = sched;
    if !timeout {
        let mut i = 0;
        // the schedule, then A to its end, then B to its end
        loop {
            let t = if i < order.len() {
                order[i]
            } else if !finished[0] {
                0
            } else if !finished[1] {
                1
            } else {
                break;
            };
            i += 1;
            if finished[t] {
                continue;
            }
            if go_tx[t].send(()).is_err() {
                finished[t] = true;
                continue;
            }
            match wait(t) {
                Some(f) => finished[t] = f,
                None => {
                    timeout = true;
                    break;
                }
            }
        }
    }
    order.clear();
    if timeout {
        drop(go_tx); // releases the threads
        return Some(Sexp::tagged("timeout", vec![]));
    }
    let mut answers = Vec::new();
    for h in handles {
        answers.push(h.join().ok()?);
    }
    if answers.iter().any(is_abort) {
        return Some(Sexp::tagged("two-abort", vec![]));
    }
    Some(Sexp::tagged("two", answers))
}

/// Every program on its own fresh thread, all released together and left to run freely: the steps of
/// different threads (the panic hook and its backtrace capture included) overlap in time for real.
fn run_free(progs: Vec<Vec<Step>>) -> Option<Sexp> {
    install_hooks();
    let barrier = Arc::new(std::sync::Barrier::new(progs.len()));
    let handles: Vec<_> = progs
        .into_iter()
        .map(|prog| {
            let b = barrier.clone();
            fresh_thread(move || {
                b.wait();
                thread_main(&prog, true, None)
            })
        })
        .collect();
    let mut answers = Vec::new();
    for h in handles {
        answers.push(h.join().ok()?);
    }
    Some(Sexp::tagged("free", answers))
}

pub fn run(head: &str, args: &[Sexp], case: &Sexp) -> Option<Sexp> {
    if head == "panic-free" {
        return run_free(args.iter().map(dec_prog).collect::<Option<Vec<_>>>()?);
    }
    match (head, args) {
        ("panic-prog", [p]) => run_single(dec_prog(p)?, false, &case.to_line()),
        ("panic-prog", [p, m]) if m.is_sym("probe") => run_single(dec_prog(p)?, true, &case.to_line()),
        ("panic-2threads", [pa, pb, s]) => {
            let sched = s
                .as_list()?
                .iter()
                .map(|x| x.as_usize().filter(|v| *v < 2))
                .collect::<Option<Vec<_>>>()?;
            run_two(dec_prog(pa)?, dec_prog(pb)?, sched)
        }
        _ => None,
    }
}
