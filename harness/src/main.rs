//! wfh: runs correspondence cases against the real wirefilter implementation.
//! One s-expression case per input line, one canonical result per output line.
mod c06;
mod c07;
mod c08;
mod c09;
mod c10;
mod c11;
mod c12;
mod c14;
mod c15;
mod c16;
mod c17;
mod c18;
mod c19;
mod c20;
mod lang;
mod sexp;

use sexp::Sexp;
use std::io::{BufRead, Write};
use std::panic::{AssertUnwindSafe, catch_unwind};

fn dispatch(case: &Sexp) -> Option<Sexp> {
    let l = case.as_list()?;
    let head = l.first()?.as_sym()?;
    let args = &l[1..];
    match head {
        "in-int" | "in-ip" | "in-bytes" => c09::run(head, args),
        "ctx-history" | "build-array" | "build-map" => c08::run(head, args),
        "registry-history" => c16::run(head, args),
        "contains" | "simd-active" => c10::run(head, args),
        "wildcard" | "regex" => c11::run(head, args),
        "lit" | "lit-span" => c06::run(head, args),
        "c07" | "c07-same" | "c07-distinct" => c07::run(head, args),
        "uses" | "uses-value" => c12::run(head, args),
        "ctx-roundtrip" | "ctx-roundtrip-exec" | "ctx-json" | "value-roundtrip" | "value-json" => c14::run(head, args),
        "type-codec" | "type-json" | "scheme-json" | "scheme-roundtrip" | "ctype-build" | "ctype-decode" => {
            c15::run(head, args)
        }
        "threads" => c18::run(head, args),
        "list-exec" | "list-ffi" | "list-name" | "list-history" => c17::run(head, args),
        "panic-prog" | "panic-2threads" | "panic-free" => c19::run(head, args, case),
        "ffi-history" | "ffi-history-nohook" | "ffi-2threads" | "cstring-history" => c20::run(head, args, case),
        "exec" => lang::run_exec(args),
        "exec-value" => lang::run_exec_value(args),
        "parse" => lang::run_parse(args, false),
        "parse-value" => lang::run_parse(args, true),
        "typecheck" => lang::run_typecheck(args, false),
        "typecheck-value" => lang::run_typecheck(args, true),
        _ => None,
    }
}

fn panic_message(p: Box<dyn std::any::Any + Send>) -> String {
    if let Some(s) = p.downcast_ref::<&str>() {
        s.to_string()
    } else if let Some(s) = p.downcast_ref::<String>() {
        s.clone()
    } else {
        "<non-string panic>".to_string()
    }
}

fn main() {
    // C19: `wfh --c19-abort-probe '<case>'` runs one panic-catcher program unguarded (may abort).
    let argv: Vec<String> = std::env::args().collect();
    if argv.len() == 3 && argv[1] == "--c19-abort-probe" {
        c19::abort_probe(&argv[2]);
    }
    if argv.len() == 3 && argv[1] == "--c19-install-race" {
        c19::install_race(argv[2].parse().unwrap_or(2));
    }
    // C18: `wfh --c18-fresh T` runs one case (stdin) whose first use of the engine is raced by T threads.
    if argv.len() == 3 && argv[1] == "--c18-fresh" {
        c18::fresh_main(argv[2].parse().unwrap_or(2));
    }
    // C20: `wfh --c20-nohook` runs one C API history (stdin) without installing the panic catcher's hook first.
    if argv.len() == 2 && argv[1] == "--c20-nohook" {
        c20::nohook_main();
    }
    // Silent hook; the first C19 case replaces it by an equally silent sentinel hook followed by
    // wirefilter's panic catcher hook (c19::install_hooks), for the rest of the process.
    std::panic::set_hook(Box::new(|_| {}));
    let stdin = std::io::stdin();
    let stdout = std::io::stdout();
    let mut out = std::io::BufWriter::new(stdout.lock());
    for line in stdin.lock().lines() {
        let line = line.expect("read");
        let res = match sexp::parse(&line) {
            None => Sexp::list(vec![Sexp::sym("bad-case")]),
            Some(case) => match catch_unwind(AssertUnwindSafe(|| dispatch(&case))) {
                Ok(Some(r)) => r,
                Ok(None) => Sexp::list(vec![Sexp::sym("bad-case")]),
                Err(p) => Sexp::tagged("panic", vec![Sexp::Bytes(panic_message(p).into_bytes())]),
            },
        };
        writeln!(out, "{}", res.to_line()).unwrap();
        // one answer per case as soon as it exists: the driver watches for a case that never answers
        out.flush().unwrap();
    }
    out.flush().unwrap();
}
