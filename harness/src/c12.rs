//! C12: FilterAst::uses / uses_list and FilterValueAst::uses / uses_list on the real parser's AST.
//!   (uses       scheme #text (names #name ...) oracle)
//!   (uses-value scheme #text (names #name ...) oracle)
//! -> (ok (u l) ...) with u, l in true | false | err, one pair per name; (parse-err) if the text is rejected.
//! `oracle` is the generator's own expectation and is ignored here (tools/props/c12.py compares it).
use crate::lang::dec_scheme;
use crate::sexp::Sexp;

fn enc(r: Result<bool, wirefilter::UnknownFieldError>) -> Sexp {
    match r {
        Ok(b) => Sexp::boolean(b),
        Err(_) => Sexp::sym("err"),
    }
}

pub fn run(head: &str, args: &[Sexp]) -> Option<Sexp> {
    let [sch, text, names, _oracle] = args else { return None };
    let info = dec_scheme(sch)?;
    let text = String::from_utf8(text.as_bytes()?.to_vec()).ok()?;
    let nl = names.as_list()?;
    if !nl.first()?.is_sym("names") {
        return None;
    }
    let mut ns = Vec::new();
    for n in &nl[1..] {
        ns.push(String::from_utf8(n.as_bytes()?.to_vec()).ok()?);
    }
    let mut out = Vec::new();
    match head {
        "uses" => {
            let Ok(ast) = info.scheme.parse(&text) else {
                return Some(Sexp::tagged("parse-err", vec![]));
            };
            for n in &ns {
                out.push(Sexp::list(vec![enc(ast.uses(n)), enc(ast.uses_list(n))]));
            }
        }
        "uses-value" => {
            let Ok(ast) = info.scheme.parse_value(&text) else {
                return Some(Sexp::tagged("parse-err", vec![]));
            };
            for n in &ns {
                out.push(Sexp::list(vec![enc(ast.uses(n)), enc(ast.uses_list(n))]));
            }
        }
        _ => return None,
    }
    Some(Sexp::tagged("ok", out))
}
