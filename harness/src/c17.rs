//! C17: `in $list` delegates exactly to the context's list matcher.
//!
//! (list-exec <scheme> #text <ast> <ctx>...) -> (ok <ast> (r <res> (q #name <value>)...)...)
//!     per context: execute() and the (name, value) queries the harness set matcher received.
//! (list-ffi ...) is list-exec with the scheme (its built-in lists in particular) built through the C API.
//! (list-name <scheme> #lhs <ty> #name) -> (ok li #name) | (err InvalidListName|UnsupportedOp|other)
//!     parses the text `<lhs> in $<name>` with the real parser.
//! (list-history <scheme> <op>...) -> (obs <o>...), one observation per operation on ONE real
//!     ExecutionContext:
//!   (add ty #name v) / (del ty #name v)  get_list + get_list_matcher_mut + downcast to SetMatcher
//!   (setv f v)                            set_field_value
//!   (clear)                               ExecutionContext::clear
//!   (roundtrip k)                         serde_json::to_string; "$lists" rotated by k (k = 0: the text as
//!                                         written); deserialized into a NEW context that replaces the old one
//!   (load (ty empty|(set ..))...)         {"$lists":[{"type":..,"data":..}..]} into a NEW context
//!   (dump ty) / (probe ty #name v)        get_list_matcher: whole state / one direct match_value
//!   (exec #text <ast>)                    parse, compile, execute against the context
use crate::lang::{
    QUERY_LOG, SchemeInfo, SetList, SetMatcher, SetVal, add_lib_fn, dec_ctx, dec_scheme, dec_ty, dec_value, enc_lexpr,
    enc_value,
};
use crate::sexp::Sexp;
use serde::de::DeserializeSeed;
use std::panic::{AssertUnwindSafe, catch_unwind};
use wirefilter_ffi as ffi;
use wirefilter::{
    AlwaysListMatcher, ComparisonOpExpr, ExecutionContext, GetType, LhsValue, ListMatcher, LogicalExpr,
    NeverListMatcher, SetFieldValueError, Type,
};

type Ctx = ExecutionContext<'static, ()>;

fn sym(s: &str) -> Sexp {
    Sexp::sym(s)
}

fn utf8(s: &Sexp) -> Option<String> {
    String::from_utf8(s.as_bytes()?.to_vec()).ok()
}

fn enc_setval(v: &SetVal) -> Sexp {
    match v {
        SetVal::I(i) => enc_value(&LhsValue::Int(*i)),
        SetVal::B(b) => enc_value(&LhsValue::Bytes(b.clone().into())),
        SetVal::Ip(ip) => enc_value(&LhsValue::Ip(*ip)),
    }
}

// ---------------------------------------------------------------- list-exec

/// The scheme of a case built through the C API where the C API can do it: mandatory fields with
/// wirefilter_add_type_field_to_scheme, the built-in lists with wirefilter_add_{always,never}_list_to_scheme,
/// wirefilter_build_scheme; optional fields, functions and the harness set list through the wrapped builder.
fn dec_scheme_ffi(s: &Sexp) -> Option<SchemeInfo> {
    use std::ops::DerefMut;
    let [h, fields, fns, lists, ne] = s.as_list()? else { return None };
    if !h.is_sym("scheme") {
        return None;
    }
    let mut b = ffi::wirefilter_create_scheme_builder();
    let fl = fields.as_list()?;
    if !fl.first()?.is_sym("fields") {
        return None;
    }
    for f in &fl[1..] {
        let [n, t, o] = f.as_list()? else { return None };
        let name = utf8(n)?;
        let ty = dec_ty(t)?;
        if o.as_bool()? {
            b.deref_mut().deref_mut().add_optional_field(name, ty).ok()?;
        } else if !ffi::wirefilter_add_type_field_to_scheme(&mut b, name.as_ptr().cast(), name.len(), ty.into()) {
            return None;
        }
    }
    let nl = fns.as_list()?;
    if !nl.first()?.is_sym("fns") {
        return None;
    }
    for f in &nl[1..] {
        let [n, lib] = f.as_list()? else { return None };
        add_lib_fn(b.deref_mut().deref_mut(), &utf8(n)?, lib.as_sym()?)?;
    }
    let ll = lists.as_list()?;
    if !ll.first()?.is_sym("lists") {
        return None;
    }
    let mut linfo = Vec::new();
    for x in &ll[1..] {
        let [t, k] = x.as_list()? else { return None };
        let ty = dec_ty(t)?;
        let kind = k.as_sym()?;
        let ok = match kind {
            "always" => ffi::wirefilter_add_always_list_to_scheme(&mut b, ty.into()),
            "never" => ffi::wirefilter_add_never_list_to_scheme(&mut b, ty.into()),
            "set" => b.deref_mut().deref_mut().add_list(ty, SetList).is_ok(),
            _ => return None,
        };
        if !ok {
            return None;
        }
        linfo.push((ty, kind.to_string()));
    }
    b.deref_mut().deref_mut().set_nil_not_equal_behavior(ne.as_bool()?);
    let scheme: wirefilter::Scheme = (*ffi::wirefilter_build_scheme(b)).into();
    Some(SchemeInfo { scheme, lists: linfo })
}

fn run_list_exec(args: &[Sexp], through_ffi: bool) -> Option<Sexp> {
    let [sch, text, _ast, ctxs @ ..] = args else { return None };
    let info = if through_ffi { dec_scheme_ffi(sch)? } else { dec_scheme(sch)? };
    let text = utf8(text)?;
    let ast = match info.scheme.parse(&text) {
        Ok(a) => a,
        Err(e) => return Some(Sexp::tagged("err", vec![Sexp::Bytes(format!("{:?}", e).into_bytes())])),
    };
    let mut out = vec![enc_lexpr(&info, ast.expression())];
    let filter = ast.compile();
    for c in ctxs {
        let ctx = dec_ctx(&info, c)?;
        QUERY_LOG.with(|l| *l.borrow_mut() = Some(Vec::new()));
        let r = catch_unwind(AssertUnwindSafe(|| filter.execute(&ctx)));
        let log = QUERY_LOG.with(|l| l.borrow_mut().take()).unwrap_or_default();
        let mut item = vec![match r {
            Ok(Ok(b)) => Sexp::boolean(b),
            Ok(Err(_)) => sym("scheme-mismatch"),
            Err(_) => sym("panic"),
        }];
        for (name, v) in &log {
            item.push(Sexp::tagged("q", vec![Sexp::Bytes(name.as_bytes().to_vec()), enc_setval(v)]));
        }
        out.push(Sexp::tagged("r", item));
    }
    Some(Sexp::tagged("ok", out))
}

// ---------------------------------------------------------------- list-name

fn error_kind(e: &wirefilter::ParseError<'_>) -> String {
    let d = format!("{:?}", e);
    d.strip_prefix("ParseError { kind: ").unwrap_or("?").chars().take_while(|c| c.is_ascii_alphanumeric()).collect()
}

fn list_position(info: &SchemeInfo, ty: Type) -> i64 {
    info.lists.iter().position(|(t, _)| *t == ty).map(|x| x as i64).unwrap_or(-1)
}

fn run_list_name(args: &[Sexp]) -> Option<Sexp> {
    let [sch, lhs, _ty, name] = args else { return None };
    let info = dec_scheme(sch)?;
    let text = format!("{} in ${}", utf8(lhs)?, utf8(name)?);
    Some(match info.scheme.parse(&text) {
        Ok(ast) => match ast.expression() {
            LogicalExpr::Comparison(c) => match &c.op {
                ComparisonOpExpr::InList { list, name } => Sexp::tagged(
                    "ok",
                    vec![Sexp::int(list_position(&info, list.get_type())), Sexp::Bytes(name.as_str().as_bytes().to_vec())],
                ),
                _ => Sexp::list(vec![sym("other-ast")]),
            },
            _ => Sexp::list(vec![sym("other-ast")]),
        },
        Err(e) => {
            let k = error_kind(&e);
            let k = match k.as_str() {
                "InvalidListName" | "UnsupportedOp" => k.as_str(),
                _ => "other",
            };
            Sexp::tagged("err", vec![sym(k)])
        }
    })
}

// ---------------------------------------------------------------- list-history

fn set_add(sm: &mut SetMatcher, name: &str, v: SetVal) {
    let e = sm.sets.entry(name.to_string()).or_default();
    if !e.contains(&v) {
        e.push(v);
    }
}

fn set_del(sm: &mut SetMatcher, name: &str, v: &SetVal) {
    if let Some(vs) = sm.sets.get_mut(name) {
        vs.retain(|x| x != v);
        if vs.is_empty() {
            sm.sets.remove(name);
        }
    }
}

fn enc_matcher(m: &dyn ListMatcher) -> Sexp {
    let any = m.as_any();
    if let Some(sm) = any.downcast_ref::<SetMatcher>() {
        let mut l = Vec::new();
        for (name, vs) in &sm.sets {
            let mut e = vec![Sexp::Bytes(name.as_bytes().to_vec())];
            e.extend(vs.iter().map(enc_setval));
            l.push(Sexp::list(e));
        }
        Sexp::tagged("set", l)
    } else if any.downcast_ref::<AlwaysListMatcher>().is_some() {
        sym("always")
    } else if any.downcast_ref::<NeverListMatcher>().is_some() {
        sym("never")
    } else {
        sym("unknown-matcher")
    }
}

fn enc_state(info: &SchemeInfo, ctx: &Ctx) -> Sexp {
    let mut vals = Vec::new();
    for f in info.scheme.fields() {
        vals.push(match ctx.get_field_value(f) {
            Some(v) => enc_value(v),
            None => sym("none"),
        });
    }
    let mut lists = Vec::new();
    for l in info.scheme.lists() {
        lists.push(enc_matcher(ctx.get_list_matcher(l)));
    }
    Sexp::tagged("state", vec![Sexp::tagged("vals", vals), Sexp::tagged("lists", lists)])
}

fn classify(e: &serde_json::Error) -> Sexp {
    let m = e.to_string();
    let k = if m.contains("no list defined for type") {
        "no-list"
    } else if m.contains("unknown field") {
        "no-field"
    } else if m.contains("invalid type") && !m.contains("sets") {
        "bad-value"
    } else {
        "bad-data"
    };
    Sexp::tagged("err", vec![sym(k)])
}

/// Deserializes `text` into a new context of the scheme.
fn read_ctx(info: &SchemeInfo, text: String) -> Result<Ctx, serde_json::Error> {
    let text: &'static str = Box::leak(text.into_boxed_str());
    let mut fresh = ExecutionContext::<()>::new(&info.scheme);
    let mut de = serde_json::Deserializer::from_str(text);
    (&mut fresh).deserialize(&mut de)?;
    de.end()?;
    Ok(fresh)
}

/// The serialized context with its "$lists" array rotated by k (entries re-emitted with "type" first).
fn rotated(text: &str, k: usize) -> Option<String> {
    let v: serde_json::Value = serde_json::from_str(text).ok()?;
    let obj = v.as_object()?;
    let mut parts = Vec::new();
    for (key, val) in obj {
        if key != "$lists" {
            parts.push(format!("{}:{}", serde_json::to_string(key).ok()?, serde_json::to_string(val).ok()?));
        }
    }
    if let Some(ls) = obj.get("$lists") {
        let arr = ls.as_array()?;
        let n = arr.len();
        let mut es = Vec::new();
        for i in 0..n {
            let e = arr[(i + if n == 0 { 0 } else { k % n }) % n].as_object()?;
            es.push(format!(
                "{{\"type\":{},\"data\":{}}}",
                serde_json::to_string(e.get("type")?).ok()?,
                serde_json::to_string(e.get("data")?).ok()?
            ));
        }
        parts.push(format!("\"$lists\":[{}]", es.join(",")));
    }
    Some(format!("{{{}}}", parts.join(",")))
}

fn dec_setval(s: &Sexp) -> Option<SetVal> {
    SetVal::of(&dec_value(s)?)
}

fn entry_text(e: &Sexp) -> Option<String> {
    let [t, d] = e.as_list()? else { return None };
    let ty = dec_ty(t)?;
    let data = if d.is_sym("empty") {
        "{}".to_string()
    } else {
        let l = d.as_list()?;
        if !l.first()?.is_sym("set") {
            return None;
        }
        let mut sm = SetMatcher::default();
        let mut last: Option<String> = None;
        for s in &l[1..] {
            let sl = s.as_list()?;
            let name = utf8(sl.first()?)?;
            if let Some(p) = &last {
                if p.as_bytes() >= name.as_bytes() {
                    return None; // names must be strictly ascending
                }
            }
            let mut vs = Vec::new();
            for v in &sl[1..] {
                vs.push(dec_setval(v)?);
            }
            last = Some(name.clone());
            sm.sets.insert(name, vs);
        }
        serde_json::to_string(&sm).ok()?
    };
    Some(format!("{{\"type\":{},\"data\":{}}}", serde_json::to_string(&ty).ok()?, data))
}

fn step(info: &SchemeInfo, ctx: &mut Ctx, op: &Sexp) -> Option<Sexp> {
    let l = op.as_list()?;
    let h = l.first()?.as_sym()?;
    Some(match (h, &l[1..]) {
        ("add", [t, n, v]) | ("del", [t, n, v]) => {
            let ty = dec_ty(t)?;
            let name = utf8(n)?;
            let v = dec_setval(v)?;
            let Some(list) = info.scheme.get_list(&ty) else { return Some(sym("no-list")) };
            let m = ctx.get_list_matcher_mut(list);
            match m.as_any_mut().downcast_mut::<SetMatcher>() {
                None => sym("not-set"),
                Some(sm) => {
                    if h == "add" {
                        set_add(sm, &name, v);
                    } else {
                        set_del(sm, &name, &v);
                    }
                    sym("ok")
                }
            }
        }
        ("setv", [f, v]) => {
            let value = dec_value(v)?;
            let Some(field) = info.scheme.fields().nth(f.as_usize()?) else { return Some(sym("bad-arg")) };
            match ctx.set_field_value(field, value) {
                Ok(_) => sym("ok"),
                Err(SetFieldValueError::TypeMismatch(_)) => Sexp::tagged("err", vec![sym("bad-value")]),
                Err(_) => sym("bad-arg"),
            }
        }
        ("clear", []) => {
            ctx.clear();
            sym("ok")
        }
        ("roundtrip", [k]) => {
            let k = k.as_usize()?;
            let text = match serde_json::to_string(&*ctx) {
                Ok(t) => t,
                Err(_) => return Some(sym("serialize-failed")),
            };
            let text = if k == 0 { text } else { rotated(&text, k)? };
            match read_ctx(info, text) {
                Ok(fresh) => {
                    *ctx = fresh;
                    enc_state(info, ctx)
                }
                Err(e) => classify(&e),
            }
        }
        ("load", entries) => {
            let mut es = Vec::new();
            for e in entries {
                es.push(entry_text(e)?);
            }
            match read_ctx(info, format!("{{\"$lists\":[{}]}}", es.join(","))) {
                Ok(fresh) => {
                    *ctx = fresh;
                    sym("ok")
                }
                Err(e) => classify(&e),
            }
        }
        ("dump", [t]) => {
            let ty = dec_ty(t)?;
            match info.scheme.get_list(&ty) {
                None => sym("no-list"),
                Some(list) => Sexp::tagged("dump", vec![enc_matcher(ctx.get_list_matcher(list))]),
            }
        }
        ("probe", [t, n, v]) => {
            let ty = dec_ty(t)?;
            let name = utf8(n)?;
            let value = dec_value(v)?;
            SetVal::of(&value)?;
            match info.scheme.get_list(&ty) {
                None => sym("no-list"),
                Some(list) => Sexp::boolean(ctx.get_list_matcher(list).match_value(&name, &value)),
            }
        }
        ("exec", [text, _ast]) => {
            let text = utf8(text)?;
            match info.scheme.parse(&text) {
                Err(_) => sym("bad-filter"),
                Ok(ast) => {
                    let enc = enc_lexpr(info, ast.expression());
                    let filter = ast.compile();
                    let r = catch_unwind(AssertUnwindSafe(|| filter.execute(&*ctx)));
                    Sexp::tagged(
                        "r",
                        vec![
                            enc,
                            match r {
                                Ok(Ok(b)) => Sexp::boolean(b),
                                Ok(Err(_)) => sym("scheme-mismatch"),
                                Err(_) => sym("panic"),
                            },
                        ],
                    )
                }
            }
        }
        _ => return None,
    })
}

fn run_list_history(args: &[Sexp]) -> Option<Sexp> {
    let [sch, ops @ ..] = args else { return None };
    let info = dec_scheme(sch)?;
    if info.scheme.fields().any(|f| !f.optional()) {
        return None; // the property's histories use optional fields only
    }
    let mut ctx = ExecutionContext::<()>::new(&info.scheme);
    let mut out = Vec::new();
    // Some stretches of the history (up to three consecutive operations that do not replace the context) are
    // performed through a borrow guard (`borrow_with`), which is dropped at the end of the stretch: values and
    // matcher state written through the guard must be the original context's afterwards.  The model has no
    // notion of guards - they are transparent.
    let eligible = |op: &Sexp| {
        matches!(
            op.as_list().and_then(|l| l.first()).and_then(|h| h.as_sym()),
            Some("add" | "del" | "setv" | "clear" | "dump" | "probe" | "exec")
        )
    };
    let mut i = 0;
    while i < ops.len() {
        let line = ops[i].to_line();
        let pick = line.bytes().fold(i as u64 + 7, |h, b| (h ^ b as u64).wrapping_mul(0x100000001b3)) >> 9;
        if eligible(&ops[i]) && pick % 3 == 0 {
            let mut guard = ctx.borrow_with(());
            let mut n = 0;
            while i < ops.len() && n < 1 + (pick / 3) % 3 && eligible(&ops[i]) {
                out.push(step(&info, &mut guard, &ops[i])?);
                i += 1;
                n += 1;
            }
        } else {
            out.push(step(&info, &mut ctx, &ops[i])?);
            i += 1;
        }
    }
    Some(Sexp::tagged("obs", out))
}

pub fn run(head: &str, args: &[Sexp]) -> Option<Sexp> {
    match head {
        "list-exec" => run_list_exec(args, false),
        "list-ffi" => run_list_exec(args, true),
        "list-name" => run_list_name(args),
        "list-history" => run_list_history(args),
        _ => None,
    }
}
