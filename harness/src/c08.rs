//! C08: execution contexts are typed field maps bound to one scheme.
//!
//! (ctx-history <scheme> <op>...) -> (obs <o>...), one observation per operation, executed against
//! real `ExecutionContext`s.  Scheme handles: 0 = scheme A, 1 = a clone of A, 2 = scheme B built
//! independently from the same description.  Four slots; initially slot 0 = new(A), slot 1 = new(B).
//!   op ::= (new dst h) | (set c h f <value>) | (setn c #name <value>) | (get c h f) | (clear c)
//!        | (clone src dst) | (take src dst) | (borrow c) | (end) | (exec c h)
//! `(borrow c)` .. `(end)` is one Rust scope holding the `ExecutionContextGuard`; in between, slot c
//! denotes `*guard`.
//! (build-array <ty> <value>...) / (build-map <ty> (#key <value>)...) -> (ok <value>) | (err)
use crate::lang::{dec_scheme, dec_ty, dec_value, dec_value_any, enc_value};
use crate::sexp::Sexp;
use std::panic::{AssertUnwindSafe, catch_unwind};
use wirefilter::{
    Array, ExecutionContext, Filter, FilterValue, GetType, LhsValue, Map, Scheme, SetFieldValueError, Type,
    TypeMismatchError, TypedArray, TypedMap,
};

type Ctx = ExecutionContext<'static, ()>;

const SLOTS: usize = 4;

enum Op {
    New(usize, usize),
    Set(usize, usize, usize, LhsValue<'static>),
    SetN(usize, String, LhsValue<'static>),
    Get(usize, usize, usize),
    Clear(usize),
    Clone(usize, usize),
    Take(usize, usize),
    Borrow(usize),
    End,
    Exec(usize, usize),
}

fn dec_op(s: &Sexp) -> Option<Op> {
    let l = s.as_list()?;
    let h = l.first()?.as_sym()?;
    Some(match (h, &l[1..]) {
        ("new", [a, b]) => Op::New(a.as_usize()?, b.as_usize()?),
        ("set", [c, h, f, v]) => Op::Set(c.as_usize()?, h.as_usize()?, f.as_usize()?, dec_value_any(v, 1)?),
        ("setn", [c, n, v]) => Op::SetN(c.as_usize()?, String::from_utf8(n.as_bytes()?.to_vec()).ok()?, dec_value_any(v, 2)?),
        ("get", [c, h, f]) => Op::Get(c.as_usize()?, h.as_usize()?, f.as_usize()?),
        ("clear", [c]) => Op::Clear(c.as_usize()?),
        ("clone", [a, b]) => Op::Clone(a.as_usize()?, b.as_usize()?),
        ("take", [a, b]) => Op::Take(a.as_usize()?, b.as_usize()?),
        ("borrow", [c]) => Op::Borrow(c.as_usize()?),
        ("end", []) => Op::End,
        ("exec", [c, h]) => Op::Exec(c.as_usize()?, h.as_usize()?),
        _ => return None,
    })
}

struct Env<'s> {
    schemes: [&'s Scheme; 3],
    filters: Vec<Filter>,
    values: Vec<FilterValue>,
}

fn enc_ovalue(v: Option<&LhsValue<'_>>) -> Sexp {
    match v {
        Some(v) => enc_value(v),
        None => Sexp::sym("none"),
    }
}

fn enc_set(r: Result<Option<LhsValue<'_>>, SetFieldValueError>) -> Sexp {
    match r {
        Ok(prev) => Sexp::tagged("prev", vec![enc_ovalue(prev.as_ref())]),
        Err(SetFieldValueError::TypeMismatch(_)) => Sexp::tagged("err", vec![Sexp::sym("type")]),
        Err(SetFieldValueError::SchemeMismatch(_)) => Sexp::tagged("err", vec![Sexp::sym("scheme")]),
        Err(SetFieldValueError::UnknownField(_)) => Sexp::tagged("err", vec![Sexp::sym("unknown")]),
    }
}

/// A filter that reads (and unwraps by type) every optional field it can name with a simple
/// comparison; its truth value is irrelevant here.
fn probe_texts(scheme: &Scheme) -> Option<(String, String)> {
    fn cmp(t: Type) -> Option<&'static str> {
        match t {
            Type::Bool => Some(""),
            Type::Int => Some(" >= 0"),
            Type::Bytes => Some(" contains \"a\""),
            Type::Ip => Some(" == 1.2.3.4"),
            _ => None,
        }
    }
    let mut parts = Vec::new();
    let mut first = None;
    for f in scheme.fields() {
        if !f.optional() {
            continue;
        }
        if first.is_none() {
            first = Some(f.name().to_string());
        }
        match f.get_type() {
            Type::Array(e) => {
                if let Some(c) = cmp(e.into()) {
                    parts.push(format!("{}[0]{}", f.name(), c));
                }
            }
            Type::Map(e) => {
                if let Some(c) = cmp(e.into()) {
                    parts.push(format!("{}[\"k\"]{}", f.name(), c));
                }
            }
            t => {
                if let Some(c) = cmp(t) {
                    parts.push(format!("{}{}", f.name(), c));
                }
            }
        }
    }
    if parts.is_empty() {
        return None;
    }
    Some((parts.join(" xor "), first?))
}

struct Run<'s, 'o> {
    env: &'s Env<'s>,
    ops: &'o [Op],
    pos: usize,
    out: Vec<Sexp>,
}

fn sym(s: &str) -> Sexp {
    Sexp::sym(s)
}

impl<'s, 'o> Run<'s, 'o> {
    /// Runs operations until the history ends or the innermost guard is to be dropped.
    /// Returns true when stopped by `(end)` (the caller drops the guard and reports it).
    fn scope<'g>(&mut self, table: &mut Vec<Option<Ctx>>, guards: &mut Vec<(usize, &'g mut Ctx)>, depth: usize) -> bool {
        while self.pos < self.ops.len() {
            let op = &self.ops[self.pos];
            self.pos += 1;
            match op {
                Op::End => {
                    if depth == 0 {
                        self.out.push(sym("no-guard"));
                    } else {
                        return true;
                    }
                }
                Op::Borrow(c) => {
                    let c = *c;
                    if let Some(p) = guards.iter().position(|(i, _)| *i == c) {
                        // nested: borrow_with on the guard (DerefMut)
                        let (id, r) = guards.swap_remove(p);
                        let ended;
                        {
                            let mut guard = r.borrow_with(());
                            self.out.push(sym("ok"));
                            let mut inner: Vec<(usize, &mut Ctx)> = guards.iter_mut().map(|(i, x)| (*i, &mut **x)).collect();
                            inner.push((c, &mut *guard));
                            ended = self.scope(table, &mut inner, depth + 1);
                            drop(inner);
                            drop_guard(guard, self.out.len() % 2 == 1);
                        }
                        guards.push((id, r));
                        if ended {
                            self.out.push(sym("ok"));
                        }
                    } else if c < table.len() && table[c].is_some() {
                        let mut orig = table[c].take().unwrap();
                        let ended;
                        {
                            let mut guard = orig.borrow_with(());
                            self.out.push(sym("ok"));
                            let mut inner: Vec<(usize, &mut Ctx)> = guards.iter_mut().map(|(i, x)| (*i, &mut **x)).collect();
                            inner.push((c, &mut *guard));
                            ended = self.scope(table, &mut inner, depth + 1);
                            drop(inner);
                            drop_guard(guard, self.out.len() % 2 == 1);
                        }
                        table[c] = Some(orig);
                        if ended {
                            self.out.push(sym("ok"));
                        }
                    } else {
                        self.out.push(sym("no-ctx"));
                    }
                }
                Op::New(dst, h) => {
                    let o = if *h >= 3 || *dst >= table.len() {
                        sym("bad-arg")
                    } else if borrowed(guards, *dst) {
                        sym("busy")
                    } else {
                        table[*dst] = Some(ExecutionContext::new(self.env.schemes[*h]));
                        sym("ok")
                    };
                    self.out.push(o);
                }
                Op::Clone(src, dst) => {
                    let o = if cur(table, guards, *src).is_none() {
                        sym("no-ctx")
                    } else if *dst >= table.len() {
                        sym("bad-arg")
                    } else if borrowed(guards, *dst) {
                        sym("busy")
                    } else {
                        let c: Ctx = cur(table, guards, *src).unwrap().clone_with(());
                        table[*dst] = Some(c);
                        sym("ok")
                    };
                    self.out.push(o);
                }
                Op::Take(src, dst) => {
                    let o = if borrowed(guards, *src) {
                        sym("busy")
                    } else if *src >= table.len() || table[*src].is_none() {
                        sym("no-ctx")
                    } else if *dst >= table.len() {
                        sym("bad-arg")
                    } else if borrowed(guards, *dst) {
                        sym("busy")
                    } else {
                        let taken = table[*src].take().unwrap();
                        let moved: Ctx = taken.take_with(|u| u);
                        table[*dst] = Some(moved);
                        sym("ok")
                    };
                    self.out.push(o);
                }
                Op::Set(c, h, f, v) => {
                    let field = if *h < 3 { self.env.schemes[*h].fields().nth(*f) } else { None };
                    let o = match field {
                        None => sym("bad-arg"),
                        Some(field) => match cur(table, guards, *c) {
                            None => sym("no-ctx"),
                            Some(ctx) => enc_set(ctx.set_field_value(field, v.clone())),
                        },
                    };
                    self.out.push(o);
                }
                Op::SetN(c, name, v) => {
                    let o = match cur(table, guards, *c) {
                        None => sym("no-ctx"),
                        Some(ctx) => enc_set(ctx.set_field_value_from_name(name, v.clone())),
                    };
                    self.out.push(o);
                }
                Op::Get(c, h, f) => {
                    let field = if *h < 3 { self.env.schemes[*h].fields().nth(*f) } else { None };
                    let o = match field {
                        None => sym("bad-arg"),
                        Some(field) => match cur(table, guards, *c) {
                            None => sym("no-ctx"),
                            Some(ctx) => {
                                let ctx: &Ctx = ctx;
                                // get_field_value asserts that the field belongs to the context's scheme
                                match catch_unwind(AssertUnwindSafe(|| {
                                    Sexp::tagged("val", vec![enc_ovalue(ctx.get_field_value(field))])
                                })) {
                                    Ok(s) => s,
                                    Err(p) => {
                                        let msg = p
                                            .downcast_ref::<&str>()
                                            .map(|s| s.to_string())
                                            .or_else(|| p.downcast_ref::<String>().cloned())
                                            .unwrap_or_default();
                                        if msg.contains("self.scheme() == field.scheme()") {
                                            sym("refused")
                                        } else {
                                            sym("panic")
                                        }
                                    }
                                }
                            }
                        },
                    };
                    self.out.push(o);
                }
                Op::Clear(c) => {
                    let o = match cur(table, guards, *c) {
                        None => sym("no-ctx"),
                        Some(ctx) => {
                            ctx.clear();
                            sym("ok")
                        }
                    };
                    self.out.push(o);
                }
                Op::Exec(c, h) => {
                    let o = if *h >= 3 {
                        sym("bad-arg")
                    } else {
                        match cur(table, guards, *c) {
                            None => sym("no-ctx"),
                            Some(ctx) => {
                                let ctx: &Ctx = ctx;
                                let filter = &self.env.filters[*h];
                                let value = &self.env.values[*h];
                                match catch_unwind(AssertUnwindSafe(|| {
                                    (filter.execute(ctx).is_ok(), value.execute(ctx).is_ok())
                                })) {
                                    Ok((true, true)) => sym("executed"),
                                    Ok((false, false)) => sym("scheme-mismatch"),
                                    Ok(_) => sym("inconsistent"),
                                    Err(_) => sym("panic"),
                                }
                            }
                        }
                    };
                    self.out.push(o);
                }
            }
        }
        false
    }
}

/// Ends a guard's scope either normally or by unwinding: a panic raised while the guard is alive and
/// recovered by the caller (as the C API does around every call) must restore the borrowed context too.
fn drop_guard<G>(guard: G, unwind: bool) {
    if unwind {
        let _ = std::panic::catch_unwind(std::panic::AssertUnwindSafe(move || {
            let _alive = guard;
            panic!("c08: guard scope left by unwinding");
        }));
    } else {
        drop(guard);
    }
}

fn borrowed(guards: &[(usize, &mut Ctx)], c: usize) -> bool {
    guards.iter().any(|(i, _)| *i == c)
}

/// What the name "slot c" denotes: the innermost guard borrowing c, else the table entry.
fn cur<'x, 'g>(table: &'x mut Vec<Option<Ctx>>, guards: &'x mut Vec<(usize, &'g mut Ctx)>, c: usize) -> Option<&'x mut Ctx> {
    if let Some(p) = guards.iter().position(|(i, _)| *i == c) {
        return Some(&mut *guards[p].1);
    }
    table.get_mut(c)?.as_mut()
}

fn run_history(args: &[Sexp]) -> Option<Sexp> {
    let [sch, ops @ ..] = args else { return None };
    let a = dec_scheme(sch)?;
    let a_clone = a.scheme.clone();
    let b = dec_scheme(sch)?;
    let schemes: [&Scheme; 3] = [&a.scheme, &a_clone, &b.scheme];
    let mut filters = Vec::new();
    let mut values = Vec::new();
    for s in schemes {
        let (ftext, vtext) = probe_texts(s)?;
        filters.push(s.parse(&ftext).ok()?.compile());
        values.push(s.parse_value(&vtext).ok()?.compile());
    }
    let env = Env { schemes, filters, values };
    let mut dec = Vec::new();
    for o in ops {
        dec.push(dec_op(o)?);
    }
    let mut table: Vec<Option<Ctx>> = vec![
        Some(ExecutionContext::new(&a.scheme)),
        Some(ExecutionContext::new(&b.scheme)),
        None,
        None,
    ];
    assert_eq!(table.len(), SLOTS);
    let mut run = Run { env: &env, ops: &dec, pos: 0, out: Vec::new() };
    let mut guards: Vec<(usize, &mut Ctx)> = Vec::new();
    run.scope(&mut table, &mut guards, 0);
    Some(Sexp::tagged("obs", run.out))
}

fn all_int(v: &[LhsValue<'static>]) -> Option<Vec<i64>> {
    v.iter().map(|x| if let LhsValue::Int(i) = x { Some(*i) } else { None }).collect()
}
fn all_bool(v: &[LhsValue<'static>]) -> Option<Vec<bool>> {
    v.iter().map(|x| if let LhsValue::Bool(i) = x { Some(*i) } else { None }).collect()
}

fn run_build_array(args: &[Sexp]) -> Option<Sexp> {
    let [t, elems @ ..] = args else { return None };
    let ty = dec_ty(t)?;
    let mut v = Vec::new();
    for e in elems {
        v.push(dec_value(e)?);
    }
    let r1 = Array::try_from_iter(ty, v.clone());
    let r2 = Array::try_from_vec(ty, v.clone());
    Some(match (r1, r2) {
        (Ok(a), Ok(b)) => {
            if a != b || a.get_type() != Type::Array(ty.into()) || a.value_type() != ty {
                return Some(Sexp::tagged("inconsistent", vec![sym("iter-vec")]));
            }
            // the statically typed wrapper builds the same value
            let typed: Option<LhsValue<'static>> = match ty {
                Type::Int => all_int(&v).map(|l| LhsValue::from(l.into_iter().collect::<TypedArray<'static, i64>>())),
                Type::Bool => all_bool(&v).map(|l| LhsValue::from(l.into_iter().collect::<TypedArray<'static, bool>>())),
                _ => None,
            };
            let val = LhsValue::Array(a);
            if let Some(tv) = typed {
                if tv != val || tv.get_type() != val.get_type() {
                    return Some(Sexp::tagged("inconsistent", vec![sym("typed")]));
                }
            }
            Sexp::tagged("ok", vec![enc_value(&val)])
        }
        (Err(_), Err(_)) => Sexp::tagged("err", vec![]),
        _ => Sexp::tagged("inconsistent", vec![sym("iter-vec")]),
    })
}

fn run_build_map(args: &[Sexp]) -> Option<Sexp> {
    let [t, pairs @ ..] = args else { return None };
    let ty = dec_ty(t)?;
    let mut v: Vec<(Box<[u8]>, LhsValue<'static>)> = Vec::new();
    for p in pairs {
        let [k, val] = p.as_list()? else { return None };
        v.push((k.as_bytes()?.to_vec().into_boxed_slice(), dec_value(val)?));
    }
    let r = Map::try_from_iter(ty, v.iter().cloned().map(Ok::<_, TypeMismatchError>));
    Some(match r {
        Ok(m) => {
            if m.get_type() != Type::Map(ty.into()) || m.value_type() != ty {
                return Some(Sexp::tagged("inconsistent", vec![sym("type")]));
            }
            let vals: Vec<LhsValue<'static>> = v.iter().map(|(_, x)| x.clone()).collect();
            let typed: Option<LhsValue<'static>> = match ty {
                Type::Int => all_int(&vals).map(|l| {
                    let mut tm = TypedMap::<'static, i64>::new();
                    for ((k, _), x) in v.iter().zip(l) {
                        tm.insert(k.clone(), x);
                    }
                    LhsValue::from(tm)
                }),
                Type::Bool => all_bool(&vals).map(|l| {
                    let mut tm = TypedMap::<'static, bool>::new();
                    for ((k, _), x) in v.iter().zip(l) {
                        tm.insert(k.clone(), x);
                    }
                    LhsValue::from(tm)
                }),
                _ => None,
            };
            let val = LhsValue::Map(m);
            if let Some(tv) = typed {
                if tv != val || tv.get_type() != val.get_type() {
                    return Some(Sexp::tagged("inconsistent", vec![sym("typed")]));
                }
            }
            Sexp::tagged("ok", vec![enc_value(&val)])
        }
        Err(_) => Sexp::tagged("err", vec![]),
    })
}

pub fn run(head: &str, args: &[Sexp]) -> Option<Sexp> {
    match head {
        "ctx-history" => run_history(args),
        "build-array" => run_build_array(args),
        "build-map" => run_build_map(args),
        _ => None,
    }
}
