//! C09: `x in {...}` through the real parser, compiler and executor.
//! case: (in-int|in-ip|in-bytes (items...) (probes...)) -> (ok b1 b2 ...)
use crate::sexp::Sexp;
use std::fmt::Write;
use std::net::{IpAddr, Ipv4Addr, Ipv6Addr};
use wirefilter::{ExecutionContext, LhsValue, SchemeBuilder, Type};

fn quoted_bytes(b: &[u8]) -> String {
    // every byte as \xHH: the form is irrelevant to C09 (C06 covers the forms)
    let mut s = String::from("\"");
    for x in b {
        write!(s, "\\x{:02x}", x).unwrap();
    }
    s.push('"');
    s
}

fn v4(s: &Sexp) -> Option<Ipv4Addr> {
    Some(Ipv4Addr::from(u32::try_from(s.as_u128()?).ok()?))
}
fn v6(s: &Sexp) -> Option<Ipv6Addr> {
    Some(Ipv6Addr::from(s.as_u128()?))
}

pub fn run(head: &str, args: &[Sexp]) -> Option<Sexp> {
    let [items, probes] = args else { return None };
    let items = items.as_list()?;
    let probes = probes.as_list()?;
    let mut lits = Vec::new();
    let mut values: Vec<Option<LhsValue<'static>>> = Vec::new();
    let ty = match head {
        "in-int" => {
            for it in items {
                let [a, b] = it.as_list()? else { return None };
                let (a, b) = (a.as_i64()?, b.as_i64()?);
                lits.push(if a == b { format!("{}", a) } else { format!("{}..{}", a, b) });
            }
            for p in probes {
                values.push(match p.as_opt()? {
                    None => None,
                    Some(p) => Some(LhsValue::Int(p.as_i64()?)),
                });
            }
            Type::Int
        }
        "in-ip" => {
            for it in items {
                let [k, a, b] = it.as_list()? else { return None };
                let lit = match k.as_sym()? {
                    "r4" => {
                        let (a, b) = (v4(a)?, v4(b)?);
                        if a == b { format!("{}", a) } else { format!("{}..{}", a, b) }
                    }
                    "r6" => {
                        let (a, b) = (v6(a)?, v6(b)?);
                        if a == b { format!("{}", a) } else { format!("{}..{}", a, b) }
                    }
                    "c4" => format!("{}/{}", v4(a)?, b.as_u128()?),
                    "c6" => format!("{}/{}", v6(a)?, b.as_u128()?),
                    _ => return None,
                };
                lits.push(lit);
            }
            for p in probes {
                values.push(match p.as_opt()? {
                    None => None,
                    Some(p) => {
                        let [k, a] = p.as_list()? else { return None };
                        Some(LhsValue::Ip(match k.as_sym()? {
                            "v4" => IpAddr::V4(v4(a)?),
                            "v6" => IpAddr::V6(v6(a)?),
                            _ => return None,
                        }))
                    }
                });
            }
            Type::Ip
        }
        "in-bytes" => {
            // the notation of an item must not matter to membership: items are written, by position, as a
            // quoted string of \xHH escapes, as hex pairs (two bytes or more), or as a raw string (printable
            // ASCII without quote) - one list mixes the notations
            for (i, it) in items.iter().enumerate() {
                let b = it.as_bytes()?;
                let raw_ok = !b.is_empty() && b.iter().all(|x| (0x20..0x7f).contains(x) && *x != b'"');
                lits.push(match i % 3 {
                    1 if b.len() >= 2 => b.iter().map(|x| format!("{:02x}", x)).collect::<Vec<_>>().join(":"),
                    2 if raw_ok => format!("r#\"{}\"#", String::from_utf8_lossy(b)),
                    _ => quoted_bytes(b),
                });
            }
            for p in probes {
                values.push(match p.as_opt()? {
                    None => None,
                    Some(p) => Some(LhsValue::Bytes(p.as_bytes()?.to_vec().into())),
                });
            }
            Type::Bytes
        }
        _ => return None,
    };
    let mut b = SchemeBuilder::new();
    b.add_optional_field("x", ty).ok()?;
    let scheme = b.build();
    let text = format!("x in {{{}}}", lits.join(" "));
    let ast = match scheme.parse(&text) {
        Ok(ast) => ast,
        Err(e) => {
            let msg = e.to_string();
            return Some(Sexp::tagged(
                "parse-error",
                vec![Sexp::Bytes(text.clone().into_bytes()), Sexp::Bytes(msg.into_bytes())],
            ));
        }
    };
    let filter = ast.compile();
    let mut out = Vec::new();
    for v in values {
        let mut ctx = ExecutionContext::<()>::new(&scheme);
        if let Some(v) = v {
            ctx.set_field_value(scheme.get_field("x").ok()?, v).ok()?;
        }
        match filter.execute(&ctx) {
            Ok(r) => out.push(Sexp::boolean(r)),
            Err(_) => return Some(Sexp::tagged("exec-error", vec![])),
        }
    }
    Some(Sexp::tagged("ok", out))
}
