//! C06: literal forms through the real parser.
//! case: (lit KIND PAREN #text #suffix) -> (ok <literal>) | (err Kind)
//!       (lit-span KIND PAREN #text #suffix) -> (ok <literal>) | (err Kind line start len)
//! KIND selects the filter the text is embedded in:
//!   int-eq   `i == TEXT`      int-in   `i in {TEXT}`    int-list `i in $TEXT`
//!   bytes-eq `s == TEXT`      bytes-in `s in {TEXT}`
//!   ip-eq    `p == TEXT`      ip-in    `p in {TEXT}`
//!   arr-idx  `a[TEXT] == 1`   map-idx  `m[TEXT] == 1`
//! PAREN 0: nothing, 1: "(" in front, 2: "( " in front; the suffix is appended verbatim.
//! The literal lexers are private: the decoded value is read back from the AST
//! (lang::enc_lexpr), the error kind from the Debug text of the opaque ParseError.
use crate::lang::{self, SchemeInfo, SetList};
use crate::sexp::Sexp;
use std::sync::OnceLock;
use wirefilter::{SchemeBuilder, Type};

fn scheme() -> &'static SchemeInfo {
    static S: OnceLock<SchemeInfo> = OnceLock::new();
    S.get_or_init(|| {
        let mut b = SchemeBuilder::new();
        b.add_field("i", Type::Int).unwrap();
        b.add_field("s", Type::Bytes).unwrap();
        b.add_field("p", Type::Ip).unwrap();
        b.add_field("a", Type::Array(Type::Int.into())).unwrap();
        b.add_field("m", Type::Map(Type::Int.into())).unwrap();
        b.add_field("t", Type::Bool).unwrap();
        b.add_list(Type::Int, SetList).unwrap();
        SchemeInfo { scheme: b.build(), lists: vec![(Type::Int, "set".to_string())] }
    })
}

pub fn filter_text(kind: &str, paren: i64, text: &str, suffix: &str) -> Option<String> {
    let body = match kind {
        "int-eq" => format!("i == {}", text),
        "int-in" => format!("i in {{{}}}", text),
        "int-list" => format!("i in ${}", text),
        "bytes-eq" => format!("s == {}", text),
        "bytes-in" => format!("s in {{{}}}", text),
        "ip-eq" => format!("p == {}", text),
        "ip-in" => format!("p in {{{}}}", text),
        "arr-idx" => format!("a[{}] == 1", text),
        "map-idx" => format!("m[{}] == 1", text),
        _ => return None,
    };
    let pre = match paren {
        0 => "",
        1 => "(",
        2 => "( ",
        _ => return None,
    };
    Some(format!("{}{}{}", pre, body, suffix))
}

/// first `(cmp lhs op)` node of an encoded logical expression, depth first
fn first_cmp(e: &Sexp) -> Option<&[Sexp]> {
    let l = e.as_list()?;
    if l.first()?.is_sym("cmp") {
        return Some(l);
    }
    for x in &l[1..] {
        if let Some(r) = first_cmp(x) {
            return Some(r);
        }
    }
    None
}

fn field_after(dbg: &str, name: &str) -> Option<i64> {
    let at = dbg.rfind(name)? + name.len();
    let digits: String = dbg[at..].chars().take_while(|c| c.is_ascii_digit()).collect();
    digits.parse().ok()
}

pub fn run(head: &str, args: &[Sexp]) -> Option<Sexp> {
    let [kind, paren, text, suffix] = args else { return None };
    let kind = kind.as_sym()?;
    let text = String::from_utf8(text.as_bytes()?.to_vec()).ok()?;
    let suffix = String::from_utf8(suffix.as_bytes()?.to_vec()).ok()?;
    let filter = filter_text(kind, paren.as_i64()?, &text, &suffix)?;
    let info = scheme();
    let ast = match info.scheme.parse(&filter) {
        Ok(a) => a,
        Err(e) => {
            let dbg = format!("{:?}", e);
            let k: String = dbg
                .split_once("kind: ")
                .map(|(_, r)| r.chars().take_while(|c| c.is_ascii_alphanumeric()).collect())
                .unwrap_or_default();
            let mut v = vec![Sexp::sym(&k)];
            if head == "lit-span" {
                v.push(Sexp::int(field_after(&dbg, "line_number: ")?));
                v.push(Sexp::int(field_after(&dbg, "span_start: ")?));
                v.push(Sexp::int(field_after(&dbg, "span_len: ")?));
            }
            return Some(Sexp::tagged("err", v));
        }
    };
    let enc = lang::enc_lexpr(info, ast.expression());
    let cmp = first_cmp(&enc)?;
    let [_, lhs, op] = cmp else { return None };
    let lit = match kind {
        "arr-idx" | "map-idx" => {
            // (field n idx...)
            let l = lhs.as_list()?;
            Sexp::list(l[2..].to_vec())
        }
        "int-list" => {
            let l = op.as_list()?;
            if l.first()?.is_sym("inlist") {
                Sexp::tagged("list", vec![l.get(2)?.clone()])
            } else {
                op.clone()
            }
        }
        "int-eq" | "bytes-eq" | "ip-eq" => {
            let l = op.as_list()?;
            if l.first()?.is_sym("ord") { l.get(2)?.clone() } else { op.clone() }
        }
        _ => op.clone(),
    };
    Some(Sexp::tagged("ok", vec![lit]))
}
