//! C20: the exported C API (`wirefilter_*`, called as Rust functions from the rlib) next to the
//! Rust API, and the real `CString` behind the thread-local last error.
//!
//! (ffi-history <call>...)                           one fresh thread
//! (ffi-2threads (<call>...) (<call>...) (0|1 ...))  two fresh threads in lock-step (0 = A moves)
//! (cstring-history <op>...)                         LAST_ERROR's CString driven directly
//! Formats and answers: coq/theories/Run/C20.v.
//!
//! Every call is `(<name> <expect> <arg>...)`.  The expectation is the generator's and is NOT
//! used to produce the answer, with one exception: a call announced as `panic` is not executed
//! when nothing would catch the panic (catcher disabled on the thread, or a wrapper without
//! catch_panic): the panic would abort the process at the `extern "C"` boundary.  The program
//! stops there and answers `abort`, like the model.
//!
//! For every call the same operation is also made through the Rust API ("shadow"): on the same
//! scheme object for parse / uses / compile / execute, on a separately built Rust
//! `ExecutionContext` (same scheme) for the context functions, on a separately built
//! `SchemeBuilder` for the builder functions.  `same` is printed when the C result equals the
//! Rust result (kind ok / error / panic and value: AST equality, JSON text, FNV-1a hash of the
//! Rust JSON, match result, uses answers, context JSON after every mutation).
//!
//! Last error: after every call the whole buffer is read through `Debug` of the `CString`
//! (the vector) and through `wirefilter_get_last_error()` (the pointer).  It must be empty / NULL,
//! or end with a NUL, contain no other NUL and be what the pointer shows.  Its content is then
//! looked up, most recent first, among the texts the Rust API produced for the failing calls of
//! this thread (`err.to_string()` with NUL -> 0x1a; for a panic: the payload must occur in it):
//! `(msg <call number> nul|plain)`, `nul` when the Rust text contained a NUL byte.
use crate::lang;
use crate::sexp::Sexp;
use serde::de::DeserializeSeed;
use std::io::Write;
use std::ops::{Deref, DerefMut};
use std::panic::{AssertUnwindSafe, catch_unwind};
use std::sync::mpsc::{Receiver, Sender, channel};
use std::time::Duration;
use wirefilter::{
    CompiledFunction, FunctionDefinition, FunctionDefinitionContext, FunctionParam, FunctionParamError,
    GetType, LhsValue, ParserSettings, Type,
};
use wirefilter_ffi as ffi;

// ---------------------------------------------------------------- functions that panic on demand

/// `boom_parse(x)`: panics while the filter is parsed; `boom_compile(x)`: while it is compiled.
#[derive(Debug)]
struct PanicFn {
    at_parse: bool,
}

impl FunctionDefinition for PanicFn {
    fn check_param(
        &self,
        _: &ParserSettings,
        _: &mut dyn ExactSizeIterator<Item = FunctionParam<'_>>,
        _: &FunctionParam<'_>,
        _: Option<&mut FunctionDefinitionContext>,
    ) -> Result<(), FunctionParamError> {
        if self.at_parse {
            panic!("boom at parse");
        }
        Ok(())
    }
    fn return_type(
        &self,
        _: &mut dyn ExactSizeIterator<Item = FunctionParam<'_>>,
        _: Option<&FunctionDefinitionContext>,
    ) -> Type {
        Type::Bytes
    }
    fn arg_count(&self) -> (usize, Option<usize>) {
        (1, Some(0))
    }
    fn compile(
        &self,
        _: &mut dyn ExactSizeIterator<Item = FunctionParam<'_>>,
        _: Option<FunctionDefinitionContext>,
    ) -> CompiledFunction {
        if !self.at_parse {
            panic!("boom at compile");
        }
        Box::new(|args| args.next()?.ok())
    }
}

fn add_fn(b: &mut wirefilter::SchemeBuilder, name: &str, lib: &str) -> Option<()> {
    match lib {
        "boom_parse" => b.add_function(name, PanicFn { at_parse: true }).ok(),
        "boom_compile" => b.add_function(name, PanicFn { at_parse: false }).ok(),
        _ => lang::add_lib_fn(b, name, lib),
    }
}

// ---------------------------------------------------------------- small helpers

fn ctype_of(t: Type) -> ffi::CType {
    match t {
        Type::Bool => ffi::wirefilter_create_primitive_type(ffi::CPrimitiveType::Bool),
        Type::Bytes => ffi::wirefilter_create_primitive_type(ffi::CPrimitiveType::Bytes),
        Type::Int => ffi::wirefilter_create_primitive_type(ffi::CPrimitiveType::Int),
        Type::Ip => ffi::wirefilter_create_primitive_type(ffi::CPrimitiveType::Ip),
        Type::Array(e) => ffi::wirefilter_create_array_type(ctype_of(e.into())),
        Type::Map(e) => ffi::wirefilter_create_map_type(ctype_of(e.into())),
    }
}

fn fnv1a64(data: &[u8]) -> u64 {
    let mut h: u64 = 0xcbf2_9ce4_8422_2325;
    for b in data {
        h ^= *b as u64;
        h = h.wrapping_mul(0x0000_0100_0000_01b3);
    }
    h
}

fn payload_text(p: &(dyn std::any::Any + Send)) -> String {
    if let Some(s) = p.downcast_ref::<&str>() {
        s.to_string()
    } else if let Some(s) = p.downcast_ref::<String>() {
        s.clone()
    } else {
        String::new()
    }
}

/// The payload out of catch_panic's text "thread '..' panicked at '<payload>' in file '..".
fn payload_of_catcher_text(t: &str) -> String {
    let a = "panicked at '";
    let Some(i) = t.find(a) else { return t.to_string() };
    let rest = &t[i + a.len()..];
    match rest.find("' in file '") {
        Some(j) => rest[..j].to_string(),
        None => rest.to_string(),
    }
}

/// What the Rust API did with the same operation.
enum Rk<T> {
    Ok(T),
    Fail(Vec<u8>),  // err.to_string()
    Panic(Vec<u8>), // the panic payload
}

/// Runs a Rust-API operation the way a Rust caller would protect it.
fn shadow<T, E: std::fmt::Display>(f: impl FnOnce() -> Result<T, E>) -> Rk<T> {
    match catch_unwind(AssertUnwindSafe(|| wirefilter::catch_panic(AssertUnwindSafe(f)))) {
        Ok(Ok(Ok(v))) => Rk::Ok(v),
        Ok(Ok(Err(e))) => Rk::Fail(e.to_string().into_bytes()),
        Ok(Err(text)) => Rk::Panic(payload_of_catcher_text(&text).into_bytes()),
        Err(p) => Rk::Panic(payload_text(&*p).into_bytes()),
    }
}

#[derive(Clone, Copy, PartialEq, Debug)]
enum Kind {
    Ok,
    Fail,
    Panic,
}

impl<T> Rk<T> {
    fn kind(&self) -> Kind {
        match self {
            Rk::Ok(_) => Kind::Ok,
            Rk::Fail(_) => Kind::Fail,
            Rk::Panic(_) => Kind::Panic,
        }
    }
    fn expect(&self) -> Option<Expect> {
        match self {
            Rk::Ok(_) => None,
            Rk::Fail(m) => Some(Expect::Exact(m.clone())),
            // no hook installed: catch_panic has no payload to report, only its fixed text (`(msg unknown)`)
            Rk::Panic(m) if m.as_slice() == b"<unknown>" => None,
            Rk::Panic(m) => Some(Expect::Contains(m.clone())),
        }
    }
}

enum Expect {
    Exact(Vec<u8>),
    Contains(Vec<u8>),
}

fn subst(m: &[u8]) -> Vec<u8> {
    m.iter().map(|b| if *b == 0 { 0x1a } else { *b }).collect()
}

fn contains(h: &[u8], n: &[u8]) -> bool {
    n.is_empty() || h.windows(n.len()).any(|w| w == n)
}

fn status_kind(s: &ffi::Status) -> Kind {
    match s {
        ffi::Status::Success => Kind::Ok,
        ffi::Status::Error => Kind::Fail,
        ffi::Status::Panic => Kind::Panic,
    }
}

fn status_sym(s: &ffi::Status) -> Sexp {
    Sexp::sym(match s {
        ffi::Status::Success => "success",
        ffi::Status::Error => "error",
        ffi::Status::Panic => "panic",
    })
}

fn bool_kind(b: bool) -> Kind {
    if b { Kind::Ok } else { Kind::Fail }
}

/// Takes the JSON out of a SerializingResult and frees it through the C API.
fn take_json(r: ffi::SerializingResult) -> (Sexp, Kind, Option<Vec<u8>>) {
    let ffi::SerializingResult { status, json } = r;
    let k = status_kind(&status);
    let text = if json.ptr.is_null() {
        None
    } else {
        Some(unsafe { std::slice::from_raw_parts(json.ptr as *const u8, json.len) }.to_vec())
    };
    ffi::wirefilter_free_string(json);
    (status_sym(&status), k, text)
}

/// The vector behind the thread's last error, through `#[derive(Debug)] struct CString(Vec<u8>)`.
fn le_buffer() -> Option<Vec<u8>> {
    let d = ffi::LAST_ERROR.with_borrow(|c| format!("{:?}", c));
    let inner = d.strip_prefix("CString([")?.strip_suffix("])")?;
    if inner.trim().is_empty() {
        return Some(Vec::new());
    }
    inner.split(',').map(|x| x.trim().parse::<u8>().ok()).collect()
}

// ---------------------------------------------------------------- session

struct BuilderSlot {
    c: Box<ffi::SchemeBuilder>,
    rust: wirefilter::SchemeBuilder,
    lists: Vec<(Type, String)>,
}

struct SchemeSlot {
    c: Box<ffi::Scheme>,
    rust: wirefilter::Scheme,
    lists: Vec<(Type, String)>,
}

struct AstSlot {
    c: Box<ffi::FilterAst>,
    rust: wirefilter::FilterAst,
}

struct FilterSlot {
    c: Box<ffi::Filter>,
    rust: wirefilter::Filter,
}

struct CtxSlot {
    c: Box<ffi::ExecutionContext<'static>>,
    rust: wirefilter::ExecutionContext<'static>,
    lists: Vec<(Type, String)>,
}

const SLOTS: usize = 6;

struct Sess {
    builder: Option<BuilderSlot>,
    schemes: Vec<Option<SchemeSlot>>,
    asts: Vec<Option<AstSlot>>,
    filters: Vec<Option<FilterSlot>>,
    ctxs: Vec<Option<CtxSlot>>,
    /// byte values lent to contexts through raw pointers
    keep: Vec<&'static [u8]>,
    enabled: bool,
    expects: Vec<Option<Expect>>,
    last_le: Option<Sexp>,
}

impl Sess {
    fn new() -> Sess {
        Sess {
            builder: None,
            schemes: (0..SLOTS).map(|_| None).collect(),
            asts: (0..SLOTS).map(|_| None).collect(),
            filters: (0..SLOTS).map(|_| None).collect(),
            ctxs: (0..SLOTS).map(|_| None).collect(),
            keep: Vec::new(),
            enabled: false,
            expects: Vec::new(),
            last_le: None,
        }
    }

    /// Everything still allocated goes back through the C API, contexts before the bytes
    /// they borrow.
    fn cleanup(&mut self) {
        for f in self.filters.iter_mut() {
            if let Some(s) = f.take() {
                ffi::wirefilter_free_compiled_filter(s.c);
            }
        }
        for a in self.asts.iter_mut() {
            if let Some(s) = a.take() {
                ffi::wirefilter_free_parsed_filter(s.c);
            }
        }
        for c in self.ctxs.iter_mut() {
            if let Some(s) = c.take() {
                ffi::wirefilter_free_execution_context(s.c);
                drop(s.rust);
            }
        }
        for s in self.schemes.iter_mut() {
            if let Some(s) = s.take() {
                ffi::wirefilter_free_scheme(s.c);
            }
        }
        if let Some(b) = self.builder.take() {
            ffi::wirefilter_free_scheme_builder(b.c);
        }
        for k in self.keep.drain(..) {
            drop(unsafe { Box::from_raw(k as *const [u8] as *mut [u8]) });
        }
    }

    fn lend(&mut self, b: &[u8]) -> &'static [u8] {
        let s: &'static [u8] = Box::leak(b.to_vec().into_boxed_slice());
        self.keep.push(s);
        s
    }

    /// The observation of the thread's last error, and whether it is what was observed after
    /// the previous call (nothing else on this thread may have changed it).
    fn observe_le(&self) -> Sexp {
        let Some(buf) = le_buffer() else { return Sexp::tagged("bad", vec![Sexp::sym("debug")]) };
        let p = ffi::wirefilter_get_last_error();
        if p.is_null() {
            return if buf.is_empty() { Sexp::sym("null") } else { Sexp::tagged("bad", vec![Sexp::sym("null-nonempty")]) };
        }
        if buf.is_empty() {
            return Sexp::tagged("bad", vec![Sexp::sym("pointer-empty")]);
        }
        let view = unsafe { std::slice::from_raw_parts(p as *const u8, buf.len()) };
        let n = buf.len() - 1;
        if view != buf.as_slice() || buf[n] != 0 || buf[..n].contains(&0) {
            return Sexp::tagged("bad", vec![Sexp::Bytes(buf)]);
        }
        let content = &buf[..n];
        for (i, e) in self.expects.iter().enumerate().rev() {
            match e {
                Some(Expect::Exact(raw)) if subst(raw) == content => {
                    let flag = if raw.contains(&0) { "nul" } else { "plain" };
                    return Sexp::tagged("msg", vec![Sexp::uint(i as u128), Sexp::sym(flag)]);
                }
                Some(Expect::Contains(needle)) if contains(content, &subst(needle)) => {
                    return Sexp::tagged("msg", vec![Sexp::uint(i as u128), Sexp::sym("plain")]);
                }
                _ => {}
            }
        }
        Sexp::tagged("msg", vec![Sexp::sym("unknown")])
    }
}

fn catches(name: &str) -> bool {
    matches!(name, "parse" | "compile" | "match" | "uses" | "uses-list")
}

struct Step {
    ret: Sexp,
    c_kind: Kind,
    r_kind: Kind,
    expect: Option<Expect>,
    /// None = the values agree
    differs: Option<&'static str>,
}

fn step(ret: Sexp, c_kind: Kind) -> Step {
    Step { ret, c_kind, r_kind: Kind::Ok, expect: None, differs: None }
}

fn with_shadow<T>(mut s: Step, r: &Rk<T>) -> Step {
    s.r_kind = r.kind();
    s.expect = r.expect();
    s
}

fn slot(x: &Sexp) -> Option<usize> {
    x.as_usize().filter(|v| *v < SLOTS)
}

fn utf8_shadow(name: &[u8]) -> Result<&str, Rk<()>> {
    std::str::from_utf8(name).map_err(|e| Rk::Fail(e.to_string().into_bytes()))
}

fn ctx_json(c: &wirefilter::ExecutionContext<'_>) -> Option<String> {
    serde_json::to_string(c).ok()
}

/// One call.  None = malformed case.
fn do_call(sess: &mut Sess, name: &str, args: &[Sexp]) -> Option<Step> {
    Some(match (name, args) {
        ("get-last-error", []) => {
            let _ = ffi::wirefilter_get_last_error();
            step(Sexp::sym("errptr"), Kind::Ok)
        }
        ("clear-last-error", []) => {
            ffi::wirefilter_clear_last_error();
            step(Sexp::sym("unit"), Kind::Ok)
        }
        ("enable", []) => {
            ffi::panic::wirefilter_enable_panic_catcher();
            sess.enabled = true;
            step(Sexp::sym("unit"), Kind::Ok)
        }
        ("disable", []) => {
            ffi::panic::wirefilter_disable_panic_catcher();
            sess.enabled = false;
            step(Sexp::sym("unit"), Kind::Ok)
        }
        ("set-hook", []) => {
            ffi::panic::wirefilter_set_panic_catcher_hook();
            step(Sexp::sym("unit"), Kind::Ok)
        }
        ("set-fallback", [n]) => {
            let n = u8::try_from(n.as_usize()?).ok()?;
            if n == 1 {
                return None; // Abort mode would end the process on any stray panic: not exercised
            }
            let b = ffi::panic::wirefilter_set_panic_catcher_fallback_mode(n);
            let r: Rk<()> = if n == 0 { Rk::Ok(()) } else { Rk::Fail(format!("Invalid fallback mode {n}").into_bytes()) };
            with_shadow(step(Sexp::boolean(b), bool_kind(b)), &r)
        }
        ("version", []) => {
            let v = ffi::wirefilter_get_version();
            let ok = !v.ptr.is_null()
                && std::str::from_utf8(unsafe { std::slice::from_raw_parts(v.ptr as *const u8, v.len) })
                    .map(|s| s.split('.').count() == 3 && s.chars().all(|c| c.is_ascii_digit() || c == '.'))
                    .unwrap_or(false);
            let mut s = step(Sexp::sym("value"), Kind::Ok);
            if !ok {
                s.differs = Some("version");
            }
            s
        }
        ("make-type", [t]) => {
            let ty = lang::dec_ty(t)?;
            let ct = ctype_of(ty);
            let mut s = step(Sexp::sym("value"), Kind::Ok);
            if Type::from(ct) != ty || ffi::CType::from(ty) != ct {
                s.differs = Some("ctype");
            }
            s
        }
        ("ser-type", [t]) => {
            let ty = lang::dec_ty(t)?;
            let (ret, k, text) = take_json(ffi::wirefilter_serialize_type_to_json(ctype_of(ty)));
            let r = shadow(|| serde_json::to_string(&ty));
            let mut s = with_shadow(step(ret, k), &r);
            if let Rk::Ok(j) = &r {
                if text.as_deref() != Some(j.as_bytes()) {
                    s.differs = Some("json");
                }
            }
            s
        }
        ("create-builder", [fns]) => {
            let fl = fns.as_list()?;
            if !fl.first()?.is_sym("fns") {
                return None;
            }
            if let Some(old) = sess.builder.take() {
                ffi::wirefilter_free_scheme_builder(old.c);
            }
            let mut c = ffi::wirefilter_create_scheme_builder();
            let mut rust = wirefilter::SchemeBuilder::new();
            // the C API cannot register functions: they are added through the Rust API
            for f in &fl[1..] {
                let [n, lib] = f.as_list()? else { return None };
                let n = String::from_utf8(n.as_bytes()?.to_vec()).ok()?;
                add_fn(c.deref_mut().deref_mut(), &n, lib.as_sym()?)?;
                add_fn(&mut rust, &n, lib.as_sym()?)?;
            }
            sess.builder = Some(BuilderSlot { c, rust, lists: Vec::new() });
            step(Sexp::sym("ptr"), Kind::Ok)
        }
        ("free-builder", []) => {
            let b = sess.builder.take()?;
            ffi::wirefilter_free_scheme_builder(b.c);
            step(Sexp::sym("unit"), Kind::Ok)
        }
        ("add-field", [n, t]) => {
            let name = n.as_bytes()?;
            let ty = lang::dec_ty(t)?;
            let b = sess.builder.as_mut()?;
            let ok = ffi::wirefilter_add_type_field_to_scheme(&mut b.c, name.as_ptr().cast(), name.len(), ctype_of(ty));
            let r = match utf8_shadow(name) {
                Err(e) => e,
                Ok(nm) => shadow(|| b.rust.add_field(nm, ty)),
            };
            with_shadow(step(Sexp::boolean(ok), bool_kind(ok)), &r)
        }
        ("add-always-list" | "add-never-list", [t]) => {
            let ty = lang::dec_ty(t)?;
            let b = sess.builder.as_mut()?;
            let always = name == "add-always-list";
            let ok = if always {
                ffi::wirefilter_add_always_list_to_scheme(&mut b.c, ctype_of(ty))
            } else {
                ffi::wirefilter_add_never_list_to_scheme(&mut b.c, ctype_of(ty))
            };
            let r = shadow(|| {
                if always {
                    b.rust.add_list(ty, wirefilter::AlwaysList::default())
                } else {
                    b.rust.add_list(ty, wirefilter::NeverList::default())
                }
            });
            if let Rk::Ok(()) = r {
                b.lists.push((ty, if always { "always" } else { "never" }.to_string()));
            }
            with_shadow(step(Sexp::boolean(ok), bool_kind(ok)), &r)
        }
        ("build", [s]) => {
            let i = slot(s)?;
            let b = sess.builder.take()?;
            if let Some(old) = sess.schemes[i].take() {
                ffi::wirefilter_free_scheme(old.c);
            }
            let c = ffi::wirefilter_build_scheme(b.c);
            sess.schemes[i] = Some(SchemeSlot { c, rust: b.rust.build(), lists: b.lists });
            step(Sexp::sym("ptr"), Kind::Ok)
        }
        ("free-scheme", [s]) => {
            let sl = sess.schemes[slot(s)?].take()?;
            ffi::wirefilter_free_scheme(sl.c);
            step(Sexp::sym("unit"), Kind::Ok)
        }
        ("ser-scheme", [s]) => {
            let sl = sess.schemes[slot(s)?].as_ref()?;
            let (ret, k, text) = take_json(ffi::wirefilter_serialize_scheme_to_json(&sl.c));
            let r = shadow(|| serde_json::to_string(sl.c.deref().deref()));
            let mut st = with_shadow(step(ret, k), &r);
            if let Rk::Ok(j) = &r {
                // the same object through the Rust API, and the separately built scheme
                let a: Option<serde_json::Value> = text.as_deref().and_then(|t| serde_json::from_slice(t).ok());
                let b: Option<serde_json::Value> = serde_json::to_value(&sl.rust).ok();
                if text.as_deref() != Some(j.as_bytes()) || a.is_none() || a != b {
                    st.differs = Some("json");
                }
            }
            st
        }
        ("parse", [s, a, text]) => {
            let text = text.as_bytes()?;
            let ai = slot(a)?;
            if let Some(old) = sess.asts[ai].take() {
                ffi::wirefilter_free_parsed_filter(old.c);
            }
            let sl = sess.schemes[slot(s)?].as_ref()?;
            let res = ffi::wirefilter_parse_filter(&sl.c, text.as_ptr().cast(), text.len());
            let ffi::ParsingResult { status, ast } = res;
            let r = match utf8_shadow(text) {
                Err(Rk::Fail(m)) => Rk::Fail(m),
                Err(_) => return None,
                Ok(t) => shadow(|| sl.c.deref().deref().parse(t).map_err(|e| e.to_string())),
            };
            let mut st = with_shadow(step(status_sym(&status), status_kind(&status)), &r);
            match (ast, r) {
                (Some(c), Rk::Ok(rust)) => {
                    if status != ffi::Status::Success {
                        st.differs = Some("ast-with-failure");
                    } else if *c.deref().deref() != rust {
                        st.differs = Some("ast");
                    }
                    sess.asts[ai] = Some(AstSlot { c, rust });
                }
                (Some(c), _) => {
                    st.differs = Some("ast-present");
                    ffi::wirefilter_free_parsed_filter(c);
                }
                (None, _) => {
                    if status == ffi::Status::Success {
                        st.differs = Some("ast-missing");
                    }
                }
            }
            st
        }
        ("free-ast", [a]) => {
            let sl = sess.asts[slot(a)?].take()?;
            ffi::wirefilter_free_parsed_filter(sl.c);
            step(Sexp::sym("unit"), Kind::Ok)
        }
        ("hash", [a]) => {
            let sl = sess.asts[slot(a)?].as_ref()?;
            let res = ffi::wirefilter_get_filter_hash(&sl.c);
            let r = shadow(|| serde_json::to_string(&sl.rust));
            let mut st = with_shadow(step(status_sym(&res.status), status_kind(&res.status)), &r);
            if let Rk::Ok(j) = &r {
                if res.hash != fnv1a64(j.as_bytes()) {
                    st.differs = Some("hash");
                }
            }
            st
        }
        ("json", [a]) => {
            let sl = sess.asts[slot(a)?].as_ref()?;
            let (ret, k, text) = take_json(ffi::wirefilter_serialize_filter_to_json(&sl.c));
            let r = shadow(|| serde_json::to_string(&sl.rust));
            let mut st = with_shadow(step(ret, k), &r);
            if let Rk::Ok(j) = &r {
                if text.as_deref() != Some(j.as_bytes()) {
                    st.differs = Some("json");
                }
            }
            st
        }
        ("uses" | "uses-list", [a, n]) => {
            let nm = n.as_bytes()?;
            let sl = sess.asts[slot(a)?].as_ref()?;
            let list = name == "uses-list";
            let res = if list {
                ffi::wirefilter_filter_uses_list(&sl.c, nm.as_ptr().cast(), nm.len())
            } else {
                ffi::wirefilter_filter_uses(&sl.c, nm.as_ptr().cast(), nm.len())
            };
            let r = match utf8_shadow(nm) {
                Err(Rk::Fail(m)) => Rk::Fail(m),
                Err(_) => return None,
                Ok(t) => shadow(|| if list { sl.rust.uses_list(t) } else { sl.rust.uses(t) }),
            };
            let mut st = with_shadow(step(status_sym(&res.status), status_kind(&res.status)), &r);
            match &r {
                Rk::Ok(b) if *b != res.used => st.differs = Some("used"),
                Rk::Fail(_) | Rk::Panic(_) if res.used => st.differs = Some("used-on-failure"),
                _ => {}
            }
            st
        }
        ("compile", [a, f]) => {
            let fi = slot(f)?;
            let sl = sess.asts[slot(a)?].take()?;
            if let Some(old) = sess.filters[fi].take() {
                ffi::wirefilter_free_compiled_filter(old.c);
            }
            let res = ffi::wirefilter_compile_filter(sl.c);
            let ffi::CompilingResult { status, filter } = res;
            let rust_ast = sl.rust;
            let r = shadow(|| Ok::<_, String>(rust_ast.compile()));
            let mut st = with_shadow(step(status_sym(&status), status_kind(&status)), &r);
            match (filter, r) {
                (Some(c), Rk::Ok(rust)) => sess.filters[fi] = Some(FilterSlot { c, rust }),
                (Some(c), _) => {
                    st.differs = Some("filter-present");
                    ffi::wirefilter_free_compiled_filter(c);
                }
                (None, _) => {
                    if status == ffi::Status::Success {
                        st.differs = Some("filter-missing");
                    }
                }
            }
            st
        }
        ("free-filter", [f]) => {
            let sl = sess.filters[slot(f)?].take()?;
            ffi::wirefilter_free_compiled_filter(sl.c);
            step(Sexp::sym("unit"), Kind::Ok)
        }
        ("create-ctx", [s, c]) => {
            let ci = slot(c)?;
            if let Some(old) = sess.ctxs[ci].take() {
                ffi::wirefilter_free_execution_context(old.c);
            }
            let sl = sess.schemes[slot(s)?].as_ref()?;
            let cc = ffi::wirefilter_create_execution_context(&sl.c);
            // the context owns a clone of the scheme; its lifetime parameter only bounds the values
            let cc: Box<ffi::ExecutionContext<'static>> = unsafe { std::mem::transmute(cc) };
            let rust = wirefilter::ExecutionContext::<'static, ()>::new(sl.c.deref().deref());
            sess.ctxs[ci] = Some(CtxSlot { c: cc, rust, lists: sl.lists.clone() });
            step(Sexp::sym("ptr"), Kind::Ok)
        }
        ("free-ctx", [c]) => {
            let sl = sess.ctxs[slot(c)?].take()?;
            ffi::wirefilter_free_execution_context(sl.c);
            step(Sexp::sym("unit"), Kind::Ok)
        }
        ("add-int" | "add-bool" | "add-bytes" | "add-ipv4" | "add-ipv6", [c, n, v]) => {
            let nm = n.as_bytes()?;
            let ci = slot(c)?;
            // decode the value first (bytes are lent for the life of the session)
            enum V {
                I(i64),
                B(bool),
                S(&'static [u8]),
                V4([u8; 4]),
                V6([u8; 16]),
            }
            let val = match name {
                "add-int" => V::I(v.as_i64()?),
                "add-bool" => V::B(v.as_bool()?),
                "add-bytes" => {
                    let b = v.as_bytes()?.to_vec();
                    V::S(sess.lend(&b))
                }
                "add-ipv4" => V::V4(u32::try_from(v.as_u128()?).ok()?.to_be_bytes()),
                _ => V::V6(v.as_u128()?.to_be_bytes()),
            };
            let sl = sess.ctxs[ci].as_mut()?;
            let p = nm.as_ptr().cast();
            let ok = match &val {
                V::I(z) => ffi::wirefilter_add_int_value_to_execution_context(&mut sl.c, p, nm.len(), *z),
                V::B(b) => ffi::wirefilter_add_bool_value_to_execution_context(&mut sl.c, p, nm.len(), *b),
                V::S(s) => ffi::wirefilter_add_bytes_value_to_execution_context(&mut sl.c, p, nm.len(), s.as_ptr(), s.len()),
                V::V4(a) => ffi::wirefilter_add_ipv4_value_to_execution_context(&mut sl.c, p, nm.len(), a),
                V::V6(a) => ffi::wirefilter_add_ipv6_value_to_execution_context(&mut sl.c, p, nm.len(), a),
            };
            let r = match utf8_shadow(nm) {
                Err(Rk::Fail(m)) => Rk::Fail(m),
                Err(_) => return None,
                Ok(t) => {
                    let rc = &mut sl.rust;
                    shadow(|| {
                        let r = match val {
                            V::I(z) => rc.set_field_value_from_name(t, z),
                            V::B(b) => rc.set_field_value_from_name(t, b),
                            V::S(s) => rc.set_field_value_from_name(t, s),
                            V::V4(a) => rc.set_field_value_from_name(t, std::net::IpAddr::from(a)),
                            V::V6(a) => rc.set_field_value_from_name(t, std::net::IpAddr::from(a)),
                        };
                        r.map(|_| ())
                    })
                }
            };
            let mut st = with_shadow(step(Sexp::boolean(ok), bool_kind(ok)), &r);
            if ctx_json(sl.c.deref().deref()) != ctx_json(&sl.rust) {
                st.differs = Some("ctx-state");
            }
            st
        }
        ("add-json", [c, n, j]) => {
            let nm = n.as_bytes()?;
            let json = j.as_bytes()?;
            let sl = sess.ctxs[slot(c)?].as_mut()?;
            // the caller's own copy of the JSON text, overwritten and freed right after the call
            let mut owned: Vec<u8> = json.to_vec();
            let ok = ffi::wirefilter_add_json_value_to_execution_context(
                &mut sl.c,
                nm.as_ptr().cast(),
                nm.len(),
                owned.as_ptr(),
                owned.len(),
            );
            owned.iter_mut().for_each(|b| *b = b'X');
            drop(owned);
            let r = match utf8_shadow(nm) {
                Err(Rk::Fail(m)) => Rk::Fail(m),
                Err(_) => return None,
                Ok(t) => {
                    let rc = &mut sl.rust;
                    shadow(|| {
                        let ty = rc.scheme().get_field(t).map_err(|e| e.to_string())?.get_type();
                        let value: LhsValue<'static> = ty
                            .deserialize_value(&mut serde_json::Deserializer::from_reader(json))
                            .map_err(|e| e.to_string())?;
                        rc.set_field_value_from_name(t, value).map(|_| ()).map_err(|e| e.to_string())
                    })
                }
            };
            let mut st = with_shadow(step(Sexp::boolean(ok), bool_kind(ok)), &r);
            if ctx_json(sl.c.deref().deref()) != ctx_json(&sl.rust) {
                st.differs = Some("ctx-state");
            }
            st
        }
        ("ser-ctx", [c]) => {
            let sl = sess.ctxs[slot(c)?].as_mut()?;
            let (ret, k, text) = take_json(ffi::wirefilter_serialize_execution_context_to_json(&mut sl.c));
            let r = shadow(|| serde_json::to_string(&sl.rust));
            let mut st = with_shadow(step(ret, k), &r);
            if let Rk::Ok(j) = &r {
                if text.as_deref() != Some(j.as_bytes()) {
                    st.differs = Some("json");
                }
            }
            st
        }
        ("deser-ctx", [c, doc]) => {
            let sl = sess.ctxs[slot(c)?].as_mut()?;
            // raw JSON text, or a context in the language-level form: its JSON is made with the Rust API
            let json: Vec<u8> = match doc {
                Sexp::Bytes(b) => b.clone(),
                _ => {
                    let info = lang::SchemeInfo { scheme: sl.rust.scheme().clone(), lists: sl.lists.clone() };
                    let src = lang::dec_ctx(&info, doc)?;
                    serde_json::to_string(&src).ok()?.into_bytes()
                }
            };
            let ok = ffi::wirefilter_deserialize_json_to_execution_context(&mut sl.c, json.as_ptr(), json.len());
            let rc = &mut sl.rust;
            let r = shadow(|| rc.deserialize(&mut serde_json::Deserializer::from_reader(json.as_slice())));
            // a C caller owns its buffer: it is overwritten and freed as soon as the call has returned, and the
            // context must not depend on it any more
            let mut json = json;
            json.iter_mut().for_each(|b| *b = b'X');
            drop(json);
            let mut st = with_shadow(step(Sexp::boolean(ok), bool_kind(ok)), &r);
            if ctx_json(sl.c.deref().deref()) != ctx_json(&sl.rust) {
                st.differs = Some("ctx-state");
            }
            st
        }
        ("match", [f, c]) => {
            let fl = sess.filters[slot(f)?].as_ref()?;
            let cl = sess.ctxs[slot(c)?].as_ref()?;
            let res = ffi::wirefilter_match(&fl.c, &cl.c);
            let r = shadow(|| fl.rust.execute(&cl.rust));
            let mut st = with_shadow(step(status_sym(&res.status), status_kind(&res.status)), &r);
            match &r {
                Rk::Ok(b) if *b != res.matched => st.differs = Some("matched"),
                Rk::Fail(_) | Rk::Panic(_) if res.matched => st.differs = Some("matched-on-failure"),
                _ => {}
            }
            st
        }
        _ => return None,
    })
}

// ---------------------------------------------------------------- threads

enum Reply {
    Ready,
    Finished,
}

struct Turn {
    go: Receiver<()>,
    reply: Sender<Reply>,
}

/// Runs one history on the current (fresh) thread.  None = malformed case.
fn run_calls(calls: &[Sexp], turn: &Option<Turn>) -> Option<Vec<Sexp>> {
    let mut sess = Sess::new();
    let mut out = Vec::new();
    let mut dead = false;
    let mut bad = false;
    for call in calls {
        if let Some(t) = turn {
            let _ = t.reply.send(Reply::Ready);
            let _ = t.go.recv();
        }
        if dead {
            out.push(Sexp::sym("notrun"));
            continue;
        }
        let Some(l) = call.as_list() else { bad = true; break };
        let (Some(name), Some(expect)) = (l.first().and_then(|h| h.as_sym()), l.get(1)) else { bad = true; break };
        // nothing but this thread's own calls may change its last error
        let before = sess.observe_le();
        let moved = matches!(&sess.last_le, Some(prev) if *prev != before);
        if expect.is_sym("panic") && !(catches(name) && sess.enabled) {
            out.push(Sexp::sym("abort"));
            dead = true;
            continue;
        }
        let Some(st) = do_call(&mut sess, name, &l[2..]) else { bad = true; break };
        sess.expects.push(st.expect);
        let le = sess.observe_le();
        sess.last_le = Some(le.clone());
        let mirror = if moved {
            Sexp::tagged("differs", vec![Sexp::sym("last-error-changed-between-calls")])
        } else if st.c_kind != st.r_kind {
            Sexp::tagged("differs", vec![Sexp::sym("kind")])
        } else if let Some(w) = st.differs {
            Sexp::tagged("differs", vec![Sexp::sym(w)])
        } else {
            Sexp::sym("same")
        };
        out.push(Sexp::list(vec![st.ret, le, mirror]));
    }
    sess.cleanup();
    if bad { None } else { Some(out) }
}

fn thread_main(calls: Vec<Sexp>, turn: Option<Turn>) -> Option<Vec<Sexp>> {
    let r = catch_unwind(AssertUnwindSafe(|| run_calls(&calls, &turn)));
    if let Some(t) = &turn {
        let _ = t.reply.send(Reply::Finished);
    }
    match r {
        Ok(v) => v,
        Err(p) => Some(vec![Sexp::tagged("harness-panic", vec![Sexp::Bytes(payload_text(&*p).into_bytes())])]),
    }
}

fn fresh_thread<T: Send + 'static, F: FnOnce() -> T + Send + 'static>(f: F) -> std::thread::JoinHandle<T> {
    std::thread::Builder::new().stack_size(4 << 20).spawn(f).expect("spawn")
}

fn obs(v: Vec<Sexp>) -> Sexp {
    Sexp::tagged("obs", v)
}

fn run_single(calls: Vec<Sexp>) -> Option<Sexp> {
    crate::c19::install_hooks();
    fresh_thread(move || thread_main(calls, None)).join().ok()?.map(obs)
}

fn run_two(pa: Vec<Sexp>, pb: Vec<Sexp>, sched: Vec<usize>) -> Option<Sexp> {
    crate::c19::install_hooks();
    let mut go_tx = Vec::new();
    let mut reply_rx = Vec::new();
    let mut handles = Vec::new();
    for prog in [pa, pb] {
        let (gtx, grx) = channel::<()>();
        let (rtx, rrx) = channel::<Reply>();
        go_tx.push(gtx);
        reply_rx.push(rrx);
        handles.push(fresh_thread(move || thread_main(prog, Some(Turn { go: grx, reply: rtx }))));
    }
    let wait = |t: usize| -> Option<bool> {
        match reply_rx[t].recv_timeout(Duration::from_secs(300)) {
            Ok(Reply::Ready) => Some(false),
            Ok(Reply::Finished) => Some(true),
            Err(_) => None,
        }
    };
    let mut finished = [false, false];
    let mut timeout = false;
    for t in 0..2 {
        match wait(t) {
            Some(f) => finished[t] = f,
            None => timeout = true,
        }
    }
    if !timeout {
        let mut i = 0;
        // the schedule, then A to its end, then B to its end
        loop {
            let t = if i < sched.len() {
                sched[i]
            } else if !finished[0] {
                0
            } else if !finished[1] {
                1
            } else {
                break;
            };
            i += 1;
            if finished[t] {
                continue;
            }
            if go_tx[t].send(()).is_err() {
                finished[t] = true;
                continue;
            }
            match wait(t) {
                Some(f) => finished[t] = f,
                None => {
                    timeout = true;
                    break;
                }
            }
        }
    }
    if timeout {
        drop(go_tx);
        return Some(Sexp::tagged("timeout", vec![]));
    }
    let mut answers = Vec::new();
    for h in handles {
        answers.push(h.join().ok()??);
    }
    let aborted = |v: &Vec<Sexp>| v.iter().any(|o| o.is_sym("abort") || o.is_sym("notrun"));
    if answers.iter().any(aborted) {
        return Some(Sexp::tagged("two-abort", vec![]));
    }
    Some(Sexp::tagged("two", answers.into_iter().map(obs).collect()))
}

// ---------------------------------------------------------------- the CString alone

struct Frags<'a>(&'a [&'a str]);

impl std::fmt::Display for Frags<'_> {
    fn fmt(&self, f: &mut std::fmt::Formatter<'_>) -> std::fmt::Result {
        for s in self.0 {
            f.write_str(s)?;
        }
        Ok(())
    }
}

fn observe_buf() -> Sexp {
    let buf = le_buffer().unwrap_or_else(|| b"<debug?>".to_vec());
    let p = ffi::LAST_ERROR.with_borrow(|c| c.as_c_str());
    let q = ffi::wirefilter_get_last_error();
    let cptr = if p != q {
        Sexp::sym("pointers-differ")
    } else if p.is_null() {
        Sexp::sym("null")
    } else {
        // never read past the vector
        let view = unsafe { std::slice::from_raw_parts(p as *const u8, buf.len()) };
        match view.iter().position(|b| *b == 0) {
            Some(n) => Sexp::Bytes(view[..n].to_vec()),
            None => Sexp::sym("overread"),
        }
    };
    Sexp::tagged("buf", vec![Sexp::Bytes(buf), cptr])
}

fn run_cstring(ops: Vec<Sexp>) -> Option<Sexp> {
    fresh_thread(move || -> Option<Sexp> {
        let mut out = Vec::new();
        for op in &ops {
            if op.is_sym("clear") {
                ffi::wirefilter_clear_last_error();
            } else {
                let l = op.as_list()?;
                let (h, rest) = l.split_first()?;
                match (h.as_sym()?, rest) {
                    ("append", [b]) => {
                        let b = b.as_bytes()?;
                        // impl io::Write for CString { fn write(..) { self.append(buf); .. } }
                        let n = ffi::LAST_ERROR.with_borrow_mut(|c| std::io::Write::write(c, b)).ok()?;
                        if n != b.len() {
                            return None;
                        }
                    }
                    ("write-error", frags) => {
                        let mut v: Vec<&str> = Vec::new();
                        for f in frags {
                            v.push(std::str::from_utf8(f.as_bytes()?).ok()?);
                        }
                        ffi::write_last_error!("{}", Frags(&v));
                    }
                    _ => return None,
                }
            }
            out.push(observe_buf());
        }
        Some(Sexp::tagged("cs", out))
    })
    .join()
    .ok()?
}

/// `wfh --c20-nohook` (one case line on stdin): the history in a process in which nobody has installed the
/// panic catcher's hook, unless the history itself does.
pub fn nohook_main() -> ! {
    std::panic::set_hook(Box::new(|_| {}));
    let mut line = String::new();
    let _ = std::io::stdin().read_line(&mut line);
    let ans = (|| {
        let case = crate::sexp::parse(line.trim_end())?;
        let l = case.as_list()?;
        let calls = l.get(1..)?.to_vec();
        fresh_thread(move || thread_main(calls, None)).join().ok()?.map(obs)
    })();
    println!("{}", ans.unwrap_or_else(|| Sexp::list(vec![Sexp::sym("bad-case")])).to_line());
    std::process::exit(0);
}

/// Runs the case in a child process (`--c20-nohook`) and relays its answer.
fn run_nohook(case: &Sexp) -> Option<Sexp> {
    use std::io::Write;
    use std::process::{Command, Stdio};
    let exe = std::env::current_exe().ok()?;
    let mut child = Command::new(exe)
        .arg("--c20-nohook")
        .stdin(Stdio::piped())
        .stdout(Stdio::piped())
        .stderr(Stdio::null())
        .spawn()
        .ok()?;
    child.stdin.take()?.write_all(format!("{}\n", case.to_line()).as_bytes()).ok()?;
    let out = child.wait_with_output().ok()?;
    if !out.status.success() {
        return Some(Sexp::tagged("child-died", vec![]));
    }
    crate::sexp::parse(String::from_utf8_lossy(&out.stdout).trim_end())
}

pub fn run(head: &str, args: &[Sexp], case: &Sexp) -> Option<Sexp> {
    match (head, args) {
        ("ffi-history-nohook", _) => run_nohook(case),
        ("ffi-history", calls) => run_single(calls.to_vec()),
        ("ffi-2threads", [pa, pb, s]) => {
            let sched = s
                .as_list()?
                .iter()
                .map(|x| x.as_usize().filter(|v| *v < 2))
                .collect::<Option<Vec<_>>>()?;
            run_two(pa.as_list()?.to_vec(), pb.as_list()?.to_vec(), sched)
        }
        ("cstring-history", ops) => run_cstring(ops.to_vec()),
        _ => None,
    }
}
