//! C10: `contains` through the real parser, compiler (searcher selection with
//! the anchor forced by the verification hook) and executor.
//! case: (contains <anchor|none> #needle (#hay ...)) -> (ok b1 b2 ...)
//!       (simd-active)                               -> (simd true|false)
//! The AVX2 latch is per process (env WIREFILTER_USE_AVX2, read at first use).
use crate::sexp::Sexp;
use std::fmt::Write;
use wirefilter::{ExecutionContext, LhsValue, SchemeBuilder, Type};

fn quoted_bytes(b: &[u8]) -> String {
    let mut s = String::from("\"");
    for x in b {
        write!(s, "\\x{:02x}", x).unwrap();
    }
    s.push('"');
    s
}

struct ResetAnchor;
impl Drop for ResetAnchor {
    fn drop(&mut self) {
        wirefilter::verif::set_anchor_override(None);
    }
}

pub fn run(head: &str, args: &[Sexp]) -> Option<Sexp> {
    match head {
        "simd-active" => {
            if !args.is_empty() {
                return None;
            }
            Some(Sexp::tagged("simd", vec![Sexp::boolean(wirefilter::verif::simd_active())]))
        }
        "contains" => {
            let [anchor, needle, hays] = args else { return None };
            let anchor = if anchor.is_sym("none") { None } else { Some(anchor.as_usize()?) };
            let needle = needle.as_bytes()?;
            let hays = hays.as_list()?;
            let mut b = SchemeBuilder::new();
            b.add_field("f", Type::Bytes).ok()?;
            let scheme = b.build();
            let text = format!("f contains {}", quoted_bytes(needle));
            let ast = match scheme.parse(&text) {
                Ok(ast) => ast,
                Err(e) => {
                    let msg = e.to_string();
                    return Some(Sexp::tagged(
                        "parse-error",
                        vec![Sexp::Bytes(text.clone().into_bytes()), Sexp::Bytes(msg.into_bytes())],
                    ));
                }
            };
            // the override must be in place when the filter is compiled: the
            // anchor is drawn in compile_with_compiler; one compilation per case
            let _reset = ResetAnchor;
            wirefilter::verif::set_anchor_override(anchor);
            let filter = ast.compile();
            let field = scheme.get_field("f").ok()?;
            let mut out = Vec::new();
            for h in hays {
                let h = h.as_bytes()?;
                let mut ctx = ExecutionContext::<()>::new(&scheme);
                ctx.set_field_value(field, LhsValue::Bytes(h.to_vec().into())).ok()?;
                match filter.execute(&ctx) {
                    Ok(r) => out.push(Sexp::boolean(r)),
                    Err(_) => return Some(Sexp::tagged("exec-error", vec![])),
                }
            }
            Some(Sexp::tagged("ok", out))
        }
        _ => None,
    }
}
