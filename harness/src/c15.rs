//! C15: the three encodings of a type (Type, CompoundType, ffi::CType, JSON)
//! and the JSON form of a scheme, on the real code.  Case kinds and answers are
//! listed at the top of coq/theories/Run/C15.v.
//!
//! Error text is carried as `(err #text)` so that tools/props/c15.py can
//! classify known findings; the comparison strips it.  A panic while reading
//! JSON is not caught here: main.rs answers `(panic #message)`.
use crate::lang::{dec_ty, enc_ty};
use crate::sexp::Sexp;
use std::panic::{AssertUnwindSafe, catch_unwind};
use wirefilter::{CompoundType, GetType, Scheme, SchemeBuilder, Type};
use wirefilter_ffi::{
    CPrimitiveType, CType, wirefilter_create_array_type, wirefilter_create_map_type, wirefilter_create_primitive_type,
};

fn entry_read<T: serde::de::DeserializeOwned>(text: &[u8], entry: &str) -> Option<Result<T, String>> {
    let r = match entry {
        "str" => serde_json::from_str::<T>(std::str::from_utf8(text).ok()?),
        "slice" => serde_json::from_slice::<T>(text),
        "reader" => serde_json::from_reader::<_, T>(text),
        "value" => match serde_json::from_str::<serde_json::Value>(std::str::from_utf8(text).ok()?) {
            Ok(v) => serde_json::from_value::<T>(v),
            Err(e) => Err(e),
        },
        _ => return None,
    };
    Some(r.map_err(|e| e.to_string()))
}

fn err(msg: String) -> Sexp {
    Sexp::tagged("err", vec![Sexp::Bytes(msg.into_bytes())])
}

/// `CompoundType { layers: 5, len: 3, primitive: Int }` (the fields are private;
/// the derived Debug is the public observation)
fn compound_fields(c: &CompoundType) -> Option<(u128, u128, Sexp)> {
    let s = format!("{:?}", c);
    let inner = s.strip_prefix("CompoundType { ")?.strip_suffix(" }")?;
    let mut layers = None;
    let mut len = None;
    let mut prim = None;
    for part in inner.split(", ") {
        let (k, v) = part.split_once(": ")?;
        match k {
            "layers" => layers = v.parse::<u128>().ok(),
            "len" => len = v.parse::<u128>().ok(),
            "primitive" => {
                prim = Some(Sexp::sym(match v {
                    "Bool" => "bool",
                    "Bytes" => "bytes",
                    "Int" => "int",
                    "Ip" => "ip",
                    _ => return None,
                }))
            }
            _ => return None,
        }
    }
    Some((layers?, len?, prim?))
}

fn enc_cty(y: CType) -> Sexp {
    let back = match catch_unwind(AssertUnwindSafe(|| Type::from(y))) {
        Ok(t) => enc_ty(t),
        Err(_) => Sexp::sym("panic"),
    };
    Sexp::tagged(
        "cty",
        vec![Sexp::uint(y.layers as u128), Sexp::uint(y.len as u128), Sexp::uint(y.primitive as u128), back],
    )
}

fn enc_fields(s: &Scheme) -> Vec<Sexp> {
    s.fields()
        .map(|f| {
            Sexp::list(vec![
                Sexp::Bytes(f.name().as_bytes().to_vec()),
                enc_ty(f.get_type()),
                Sexp::boolean(f.optional()),
            ])
        })
        .collect()
}

fn type_codec(t: &Sexp) -> Option<Sexp> {
    // building the value already flattens every element type
    let ty = match catch_unwind(AssertUnwindSafe(|| dec_ty(t))) {
        Ok(ty) => ty?,
        Err(_) => return Some(Sexp::tagged("unbuildable", vec![])),
    };
    let compound = match catch_unwind(AssertUnwindSafe(|| CompoundType::from(ty))) {
        Ok(c) => {
            let (layers, len, prim) = compound_fields(&c)?;
            Sexp::tagged("ct", vec![Sexp::uint(layers), Sexp::uint(len), prim, enc_ty(Type::from(c))])
        }
        Err(_) => Sexp::sym("panic"),
    };
    let cty = match catch_unwind(AssertUnwindSafe(|| CType::from(ty))) {
        Ok(y) => enc_cty(y),
        Err(_) => Sexp::sym("panic"),
    };
    let text = serde_json::to_string(&ty).ok()?;
    // the other writers must give the same bytes
    if serde_json::to_vec(&ty).ok()? != text.as_bytes() {
        return Some(Sexp::tagged("writers-differ", vec![]));
    }
    let via_value = serde_json::to_string(&serde_json::to_value(ty).ok()?).ok()?;
    if via_value != text {
        return Some(Sexp::tagged("writers-differ", vec![]));
    }
    let mut json = vec![Sexp::Bytes(text.clone().into_bytes())];
    for e in ["str", "slice", "reader", "value"] {
        json.push(match catch_unwind(AssertUnwindSafe(|| entry_read::<Type>(text.as_bytes(), e))) {
            Ok(Some(Ok(t))) => enc_ty(t),
            Ok(Some(Err(_))) => Sexp::sym("err"),
            Ok(None) => return None,
            Err(_) => Sexp::sym("panic"),
        });
    }
    Some(Sexp::tagged("codec", vec![compound, cty, Sexp::tagged("json", json)]))
}

fn dec_prim(s: &Sexp) -> Option<CPrimitiveType> {
    Some(match s.as_sym()? {
        "bool" => CPrimitiveType::Bool,
        "bytes" => CPrimitiveType::Bytes,
        "int" => CPrimitiveType::Int,
        "ip" => CPrimitiveType::Ip,
        _ => return None,
    })
}

pub fn run(head: &str, args: &[Sexp]) -> Option<Sexp> {
    match head {
        "type-codec" => {
            let [t] = args else { return None };
            type_codec(t)
        }
        "type-json" => {
            let [text, e] = args else { return None };
            Some(match entry_read::<Type>(text.as_bytes()?, e.as_sym()?)? {
                Ok(t) => Sexp::tagged("ok", vec![enc_ty(t)]),
                Err(m) => err(m),
            })
        }
        "scheme-json" => {
            let [text, e] = args else { return None };
            Some(match entry_read::<Scheme>(text.as_bytes()?, e.as_sym()?)? {
                Ok(s) => Sexp::tagged("ok", enc_fields(&s)),
                Err(m) => err(m),
            })
        }
        "scheme-roundtrip" => {
            let [fields, e] = args else { return None };
            let e = e.as_sym()?;
            let mut b = SchemeBuilder::new();
            for f in fields.as_list()? {
                let [n, t, o] = f.as_list()? else { return None };
                let name = String::from_utf8(n.as_bytes()?.to_vec()).ok()?;
                let ty = dec_ty(t)?;
                let r = if o.as_bool()? { b.add_optional_field(name, ty) } else { b.add_field(name, ty) };
                if r.is_err() {
                    return Some(Sexp::tagged("dup", vec![]));
                }
            }
            let scheme = b.build();
            let text = serde_json::to_string(&scheme).ok()?;
            // what is read back is what the matching writer produced
            let written: Vec<u8> = match e {
                "str" => text.clone().into_bytes(),
                "slice" => serde_json::to_vec(&scheme).ok()?,
                "reader" => {
                    let mut w = Vec::new();
                    serde_json::to_writer(&mut w, &scheme).ok()?;
                    w
                }
                "value" => serde_json::to_vec(&serde_json::to_value(&scheme).ok()?).ok()?,
                _ => return None,
            };
            if e != "value" && written != text.as_bytes() {
                return Some(Sexp::tagged("writers-differ", vec![]));
            }
            Some(match entry_read::<Scheme>(&written, e)? {
                Ok(s) => {
                    let mut v = vec![Sexp::Bytes(text.into_bytes())];
                    v.extend(enc_fields(&s));
                    Sexp::tagged("ok", v)
                }
                Err(m) => err(m),
            })
        }
        "ctype-build" => {
            let [p, layers] = args else { return None };
            let p = dec_prim(p)?;
            let layers = layers.as_list()?;
            let r = catch_unwind(AssertUnwindSafe(|| {
                let mut y = wirefilter_create_primitive_type(p);
                for l in layers {
                    y = match l.as_sym() {
                        Some("array") => wirefilter_create_array_type(y),
                        Some("map") => wirefilter_create_map_type(y),
                        _ => return None,
                    };
                }
                Some(y)
            }));
            Some(match r {
                Ok(y) => enc_cty(y?),
                Err(_) => Sexp::tagged("panic", vec![]),
            })
        }
        "ctype-decode" => {
            let [l, n, p] = args else { return None };
            let y = CType {
                layers: u32::try_from(l.as_u128()?).ok()?,
                len: u8::try_from(n.as_u128()?).ok()?,
                primitive: u8::try_from(p.as_u128()?).ok()?,
            };
            Some(match catch_unwind(AssertUnwindSafe(|| Type::from(y))) {
                Ok(t) => Sexp::tagged("ok", vec![enc_ty(t)]),
                Err(_) => Sexp::tagged("panic", vec![]),
            })
        }
        _ => None,
    }
}
