//! Language-level fixtures: schemes, values, contexts, the function library,
//! the SetList list definition, and conversion of the real AST to the
//! s-expression form used by the model (coq/theories/Run/Lang.v).
use crate::sexp::Sexp;
use serde::{Deserialize, Serialize};
use std::collections::BTreeMap;
use std::net::{IpAddr, Ipv4Addr, Ipv6Addr};
use wirefilter::{
    AlwaysList, Array, ComparisonOpExpr, CompiledFunction, ConcatFunction, ExecutionContext, FieldIndex,
    FunctionArgs, FunctionCallArgExpr, FunctionDefinition, FunctionDefinitionContext, FunctionParam,
    FunctionParamError, GetType, IdentifierExpr, IndexExpr, IpRange, ExplicitIpRange, LhsValue,
    ListDefinition, ListMatcher, LogicalExpr, LogicalOp, Map, NeverList, OrderingOp, QuantifierArgExpr,
    QuantifierOp, RhsValue, RhsValues, Scheme, SchemeBuilder, SimpleFunctionArgKind,
    SimpleFunctionDefinition, SimpleFunctionImpl, SimpleFunctionOptParam, SimpleFunctionParam, Type,
    TypeMismatchError, UnaryOp,
};

// ---------------------------------------------------------------- types / values

pub fn dec_ty(s: &Sexp) -> Option<Type> {
    match s {
        Sexp::Sym(x) => match x.as_str() {
            "bool" => Some(Type::Bool),
            "bytes" => Some(Type::Bytes),
            "int" => Some(Type::Int),
            "ip" => Some(Type::Ip),
            _ => None,
        },
        Sexp::List(l) => match l.as_slice() {
            [h, t] if h.is_sym("array") => Some(Type::Array(dec_ty(t)?.into())),
            [h, t] if h.is_sym("map") => Some(Type::Map(dec_ty(t)?.into())),
            _ => None,
        },
        _ => None,
    }
}

pub fn enc_ty(t: Type) -> Sexp {
    match t {
        Type::Bool => Sexp::sym("bool"),
        Type::Bytes => Sexp::sym("bytes"),
        Type::Int => Sexp::sym("int"),
        Type::Ip => Sexp::sym("ip"),
        Type::Array(x) => Sexp::tagged("array", vec![enc_ty(x.into())]),
        Type::Map(x) => Sexp::tagged("map", vec![enc_ty(x.into())]),
    }
}

pub fn dec_value(s: &Sexp) -> Option<LhsValue<'static>> {
    let l = s.as_list()?;
    let h = l.first()?.as_sym()?;
    match (h, &l[1..]) {
        ("b", [a]) => Some(LhsValue::Bool(a.as_bool()?)),
        ("s", [a]) => Some(LhsValue::Bytes(a.as_bytes()?.to_vec().into())),
        ("i", [a]) => Some(LhsValue::Int(a.as_i64()?)),
        ("v4", [a]) => Some(LhsValue::Ip(IpAddr::V4(Ipv4Addr::from(u32::try_from(a.as_u128()?).ok()?)))),
        ("v6", [a]) => Some(LhsValue::Ip(IpAddr::V6(Ipv6Addr::from(a.as_u128()?)))),
        ("arr", [t, rest @ ..]) => {
            let ty = dec_ty(t)?;
            let mut v = Vec::new();
            for x in rest {
                v.push(dec_value(x)?);
            }
            Some(LhsValue::Array(Array::try_from_iter(ty, v).ok()?))
        }
        ("map", [t, rest @ ..]) => {
            let ty = dec_ty(t)?;
            let mut v: Vec<Result<(Box<[u8]>, LhsValue<'static>), TypeMismatchError>> = Vec::new();
            for x in rest {
                let [k, val] = x.as_list()? else { return None };
                v.push(Ok((k.as_bytes()?.to_vec().into_boxed_slice(), dec_value(val)?)));
            }
            Some(LhsValue::Map(Map::try_from_iter(ty, v).ok()?))
        }
        _ => None,
    }
}

// IntoValue is sealed and not exported: the typed wrappers are filled by macros, not by generic functions
macro_rules! tarr {
    ($items:expr, $f:expr) => {{
        let mut a = wirefilter::TypedArray::new();
        let mut ok = true;
        for x in $items {
            match $f(x) {
                Some(v) => a.push(v),
                None => {
                    ok = false;
                    break;
                }
            }
        }
        if ok { Some(a) } else { None }
    }};
}
macro_rules! tmap {
    ($items:expr, $f:expr) => {{
        let mut m = wirefilter::TypedMap::new();
        let mut ok = true;
        for x in $items {
            let kv = x.as_list().and_then(|l| match l {
                [k, v] => k.as_bytes().map(|k| (k.to_vec().into_boxed_slice(), v)),
                _ => None,
            });
            match kv.and_then(|(k, v)| $f(v).map(|v| (k, v))) {
                Some((k, v)) => m.insert(k, v),
                None => {
                    ok = false;
                    break;
                }
            }
        }
        if ok { Some(m) } else { None }
    }};
}

/// The same value through one of the conversions that ought to be interchangeable with building the
/// `LhsValue` by hand: the typed `IntoValue` impls (bool, the integer widths, Ipv4Addr / Ipv6Addr / IpAddr,
/// Vec<u8> / Box<[u8]> / String / Box<str> / Cow), and `FromIterator` for arrays of such values.  `route`
/// picks the conversion; None = this route does not apply to this value (the caller falls back to
/// `dec_value`).
pub fn dec_value_via(s: &Sexp, route: u64) -> Option<LhsValue<'static>> {
    use std::borrow::Cow;
    let l = s.as_list()?;
    let h = l.first()?.as_sym()?;
    match (h, &l[1..]) {
        ("b", [a]) => Some(LhsValue::from(a.as_bool()?)),
        ("i", [a]) => {
            let z = a.as_i64()?;
            Some(match route % 6 {
                0 => LhsValue::from(z),
                1 => LhsValue::from(i32::try_from(z).ok()?),
                2 => LhsValue::from(i16::try_from(z).ok()?),
                3 => LhsValue::from(u16::try_from(z).ok()?),
                4 => LhsValue::from(i8::try_from(z).ok()?),
                _ => LhsValue::from(u8::try_from(z).ok()?),
            })
        }
        ("v4", [a]) => {
            let ip = Ipv4Addr::from(u32::try_from(a.as_u128()?).ok()?);
            Some(if route % 2 == 0 { LhsValue::from(ip) } else { LhsValue::from(IpAddr::V4(ip)) })
        }
        ("v6", [a]) => {
            let ip = Ipv6Addr::from(a.as_u128()?);
            Some(if route % 2 == 0 { LhsValue::from(ip) } else { LhsValue::from(IpAddr::V6(ip)) })
        }
        ("s", [a]) => {
            let b = a.as_bytes()?.to_vec();
            Some(match route % 6 {
                0 => LhsValue::from(b),
                1 => LhsValue::from(b.into_boxed_slice()),
                2 => LhsValue::from(String::from_utf8(b).ok()?),
                3 => LhsValue::from(String::from_utf8(b).ok()?.into_boxed_str()),
                4 => LhsValue::from(Cow::<'static, [u8]>::Owned(b)),
                _ => LhsValue::from(Cow::<'static, str>::Owned(String::from_utf8(b).ok()?)),
            })
        }
        ("arr", [t, rest @ ..]) if !rest.is_empty() => match dec_ty(t)? {
            Type::Int => Some(LhsValue::Array(
                rest.iter().map(|x| dec_value(x).and_then(|v| match v { LhsValue::Int(z) => Some(z), _ => None }))
                    .collect::<Option<Vec<i64>>>()?.into_iter().collect::<Array<'static>>(),
            )),
            Type::Bool => Some(LhsValue::Array(
                rest.iter().map(|x| dec_value(x).and_then(|v| match v { LhsValue::Bool(z) => Some(z), _ => None }))
                    .collect::<Option<Vec<bool>>>()?.into_iter().collect::<Array<'static>>(),
            )),
            Type::Bytes => Some(LhsValue::Array(
                rest.iter().map(|x| x.as_list().and_then(|l| l.get(1)).and_then(|b| b.as_bytes()).map(|b| b.to_vec()))
                    .collect::<Option<Vec<Vec<u8>>>>()?.into_iter().collect::<Array<'static>>(),
            )),
            Type::Ip => Some(LhsValue::Array(
                rest.iter().map(|x| dec_value(x).and_then(|v| match v { LhsValue::Ip(z) => Some(z), _ => None }))
                    .collect::<Option<Vec<IpAddr>>>()?.into_iter().collect::<Array<'static>>(),
            )),
            // containers of containers through the typed wrappers (TypedArray / TypedMap of a typed element)
            Type::Array(inner) => typed_nested(true, true, Type::from(inner), rest),
            Type::Map(inner) => typed_nested(true, false, Type::from(inner), rest),
        },
        ("map", [t, rest @ ..]) => match dec_ty(t)? {
            Type::Array(inner) => typed_nested(false, true, Type::from(inner), rest),
            Type::Map(inner) => typed_nested(false, false, Type::from(inner), rest),
            Type::Int => tmap!(rest, prim_int).map(LhsValue::from),
            Type::Bool => tmap!(rest, prim_bool).map(LhsValue::from),
            Type::Bytes => tmap!(rest, prim_bytes).map(LhsValue::from),
            Type::Ip => tmap!(rest, prim_ip).map(LhsValue::from),
        },
        _ => None,
    }
}

fn prim_int(x: &Sexp) -> Option<i64> {
    match dec_value(x)? { LhsValue::Int(z) => Some(z), _ => None }
}
fn prim_bool(x: &Sexp) -> Option<bool> {
    match dec_value(x)? { LhsValue::Bool(z) => Some(z), _ => None }
}
fn prim_ip(x: &Sexp) -> Option<IpAddr> {
    match dec_value(x)? { LhsValue::Ip(z) => Some(z), _ => None }
}
fn prim_bytes(x: &Sexp) -> Option<Vec<u8>> {
    match dec_value(x)? { LhsValue::Bytes(b) => Some(b.to_vec()), _ => None }
}

/// the items of an inner container value `(arr t x...)` / `(map t (k v)...)`
fn inner_items(x: &Sexp) -> Option<&[Sexp]> {
    let l = x.as_list()?;
    l.get(2..)
}

/// outer container (array or map) of inner containers (array or map) of a primitive type
fn typed_nested(outer_arr: bool, inner_arr: bool, inner: Type, items: &[Sexp]) -> Option<LhsValue<'static>> {
    macro_rules! build {
        ($prim:expr) => {
            match (outer_arr, inner_arr) {
                (true, true) => tarr!(items, |x: &Sexp| inner_items(x).and_then(|it| tarr!(it, $prim))).map(LhsValue::from),
                (true, false) => tarr!(items, |x: &Sexp| inner_items(x).and_then(|it| tmap!(it, $prim))).map(LhsValue::from),
                (false, true) => tmap!(items, |x: &Sexp| inner_items(x).and_then(|it| tarr!(it, $prim))).map(LhsValue::from),
                (false, false) => tmap!(items, |x: &Sexp| inner_items(x).and_then(|it| tmap!(it, $prim))).map(LhsValue::from),
            }
        };
    }
    match inner {
        Type::Int => build!(prim_int),
        Type::Bool => build!(prim_bool),
        Type::Bytes => build!(prim_bytes),
        Type::Ip => build!(prim_ip),
        _ => None,
    }
}

/// `dec_value`, two times out of three through one of the alternative conversions (chosen from the value).
pub fn dec_value_any(v: &Sexp, salt: usize) -> Option<LhsValue<'static>> {
    let route = route_of(v, salt);
    match route % 3 {
        0 => dec_value(v),
        _ => match dec_value_via(v, route / 3) {
            Some(x) => Some(x),
            None => dec_value(v),
        },
    }
}

fn route_of(s: &Sexp, salt: usize) -> u64 {
    let mut h: u64 = 0xcbf29ce484222325 ^ (salt as u64);
    for b in s.to_line().bytes() {
        h = (h ^ b as u64).wrapping_mul(0x100000001b3);
    }
    h >> 7
}

pub fn enc_ip(ip: &IpAddr) -> (&'static str, u128) {
    match ip {
        IpAddr::V4(a) => ("v4", u32::from(*a) as u128),
        IpAddr::V6(a) => ("v6", u128::from(*a)),
    }
}

pub fn enc_value(v: &LhsValue<'_>) -> Sexp {
    match v {
        LhsValue::Bool(b) => Sexp::tagged("b", vec![Sexp::boolean(*b)]),
        LhsValue::Bytes(b) => Sexp::tagged("s", vec![Sexp::Bytes(b.to_vec())]),
        LhsValue::Int(i) => Sexp::tagged("i", vec![Sexp::int(*i)]),
        LhsValue::Ip(ip) => {
            let (t, n) = enc_ip(ip);
            Sexp::tagged(t, vec![Sexp::uint(n)])
        }
        LhsValue::Array(a) => {
            let mut l = vec![enc_ty(a.value_type())];
            for x in a.iter() {
                l.push(enc_value(x));
            }
            Sexp::tagged("arr", l)
        }
        LhsValue::Map(m) => {
            let mut l = vec![enc_ty(m.value_type())];
            for (k, x) in m.iter() {
                l.push(Sexp::list(vec![Sexp::Bytes(k.to_vec()), enc_value(x)]));
            }
            Sexp::tagged("map", l)
        }
    }
}

pub fn enc_vres(r: &Result<LhsValue<'_>, Type>) -> Sexp {
    match r {
        Ok(v) => Sexp::tagged("ok", vec![enc_value(v)]),
        Err(t) => Sexp::tagged("absent", vec![enc_ty(*t)]),
    }
}

// ---------------------------------------------------------------- function library

fn first_ok<'a>(args: FunctionArgs<'_, 'a>) -> Option<LhsValue<'a>> {
    let mut first = None;
    let mut i = 0;
    for a in args {
        if i == 0 {
            first = a.ok();
        }
        i += 1;
    }
    first
}

fn lower<'a>(args: FunctionArgs<'_, 'a>) -> Option<LhsValue<'a>> {
    match first_ok(args)? {
        LhsValue::Bytes(mut b) => {
            b.to_mut().make_ascii_lowercase();
            Some(LhsValue::Bytes(b))
        }
        _ => None,
    }
}

fn len<'a>(args: FunctionArgs<'_, 'a>) -> Option<LhsValue<'a>> {
    match first_ok(args)? {
        LhsValue::Bytes(b) => Some(LhsValue::Int(b.len() as i64)),
        _ => None,
    }
}

fn nonempty<'a>(args: FunctionArgs<'_, 'a>) -> Option<LhsValue<'a>> {
    match first_ok(args)? {
        LhsValue::Bytes(b) if !b.is_empty() => Some(LhsValue::Bytes(b)),
        _ => None,
    }
}

fn ty_tag(t: Type, out: &mut Vec<u8>) {
    match t {
        Type::Bool => out.push(b'b'),
        Type::Bytes => out.push(b's'),
        Type::Int => out.push(b'i'),
        Type::Ip => out.push(b'p'),
        Type::Array(x) => {
            out.push(b'a');
            ty_tag(x.into(), out)
        }
        Type::Map(x) => {
            out.push(b'm');
            ty_tag(x.into(), out)
        }
    }
}

fn show<'a>(args: FunctionArgs<'_, 'a>) -> Option<LhsValue<'a>> {
    let mut out: Vec<u8> = Vec::new();
    for a in args {
        match a {
            Ok(LhsValue::Bytes(b)) => {
                out.push(b'B');
                out.extend_from_slice(&b);
            }
            Ok(LhsValue::Int(i)) => {
                out.push(b'I');
                out.extend_from_slice(format!("{}", i).as_bytes());
            }
            Ok(LhsValue::Bool(b)) => out.push(if b { b'T' } else { b'F' }),
            Ok(_) => out.push(b'?'),
            Err(t) => {
                out.push(b'A');
                ty_tag(t, &mut out);
            }
        }
        out.push(b';');
    }
    Some(LhsValue::Bytes(out.into()))
}

fn count<'a>(args: FunctionArgs<'_, 'a>) -> Option<LhsValue<'a>> {
    match first_ok(args)? {
        LhsValue::Array(a) => Some(LhsValue::Int(a.len() as i64)),
        _ => None,
    }
}

/// Bool in, Bytes out: the argument may be a whole comparison, the call may stand left of `in $list`.
fn tagb<'a>(args: FunctionArgs<'_, 'a>) -> Option<LhsValue<'a>> {
    match first_ok(args)? {
        LhsValue::Bool(true) => Some(LhsValue::Bytes(b"T".to_vec().into())),
        LhsValue::Bool(false) => Some(LhsValue::Bytes(b"F".to_vec().into())),
        _ => None,
    }
}

fn join2<'a>(args: FunctionArgs<'_, 'a>) -> Option<LhsValue<'a>> {
    let a = args.next()?;
    let b = args.next();
    for _ in args {}
    match a {
        Ok(LhsValue::Bytes(a)) => match b {
            Some(Ok(LhsValue::Bytes(b))) => {
                let mut v = a.to_vec();
                v.extend_from_slice(&b);
                Some(LhsValue::Bytes(v.into()))
            }
            _ => Some(LhsValue::Bytes(a)),
        },
        _ => None,
    }
}

fn boom<'a>(args: FunctionArgs<'_, 'a>) -> Option<LhsValue<'a>> {
    match first_ok(args)? {
        LhsValue::Bytes(b) => {
            if &*b == b"boom" {
                panic!("boom requested");
            }
            Some(LhsValue::Bytes(b))
        }
        _ => None,
    }
}

// A function definition with a per-call context (C03): the context created by
// `context()` is filled while the arguments are checked - through a different
// accessor for each argument position - read back in `return_type` and
// consumed by `compile`.  The compiled function returns a description of what
// reached it, followed by the first argument: `tally:0=Bytes;1=Int|<arg0>`.
#[derive(Debug, Clone, Default, PartialEq)]
struct Tally {
    seen: Vec<String>,
}

#[derive(Debug)]
struct TallyFunction {
    inner: SimpleFunctionDefinition,
}

impl FunctionDefinition for TallyFunction {
    fn context(&self) -> Option<FunctionDefinitionContext> {
        Some(FunctionDefinitionContext::new(Tally::default()))
    }

    fn check_param(
        &self,
        settings: &wirefilter::ParserSettings,
        params: &mut dyn ExactSizeIterator<Item = FunctionParam<'_>>,
        next_param: &FunctionParam<'_>,
        ctx: Option<&mut FunctionDefinitionContext>,
    ) -> Result<(), FunctionParamError> {
        let index = params.len();
        self.inner.check_param(settings, params, next_param, None)?;
        let ctx = ctx.expect("tally: check_param received no context");
        let rec = format!("{}={:?}", index, next_param.get_type());
        // the object must be reachable through every mutable accessor
        let slot: Option<&mut Tally> = if index % 2 == 0 {
            ctx.downcast_mut::<Tally>()
        } else {
            ctx.as_any_mut().downcast_mut::<Tally>()
        };
        if let Some(t) = slot {
            t.seen.push(rec);
        }
        Ok(())
    }

    fn return_type(
        &self,
        params: &mut dyn ExactSizeIterator<Item = FunctionParam<'_>>,
        ctx: Option<&FunctionDefinitionContext>,
    ) -> Type {
        // ... and through every shared accessor, holding one record per checked argument
        let n = params.len();
        let c = ctx.expect("tally: return_type received no context");
        let a = c.downcast_ref::<Tally>().map(|t| t.seen.len());
        let b = c.as_any_ref().downcast_ref::<Tally>().map(|t| t.seen.len());
        assert_eq!(a, Some(n), "tally: context seen through downcast_ref");
        assert_eq!(b, Some(n), "tally: context seen through as_any_ref");
        Type::Bytes
    }

    fn arg_count(&self) -> (usize, Option<usize>) {
        self.inner.arg_count()
    }

    fn compile(
        &self,
        params: &mut dyn ExactSizeIterator<Item = FunctionParam<'_>>,
        ctx: Option<FunctionDefinitionContext>,
    ) -> CompiledFunction {
        let n = params.len();
        let ctx = ctx.expect("tally: compile received no context");
        // by-value accessors, alternating with the call's argument count
        let desc = {
            let cloned = ctx.clone();
            let t: Option<Box<Tally>> = if n % 2 == 0 {
                ctx.downcast::<Tally>().ok()
            } else {
                ctx.into_any().downcast::<Tally>().ok()
            };
            let via_clone = cloned.into_any().downcast::<Tally>().ok().map(|t| t.seen.join(";"));
            match t {
                Some(t) if Some(t.seen.join(";")) == via_clone => t.seen.join(";"),
                Some(_) => "clone-differs".to_string(),
                None => "lost".to_string(),
            }
        };
        Box::new(move |args| {
            let first = args.next();
            for _ in args {}
            match first {
                Some(Ok(LhsValue::Bytes(a))) => {
                    let mut v = format!("tally:{}|", desc).into_bytes();
                    v.extend_from_slice(&a);
                    Some(LhsValue::Bytes(v.into()))
                }
                None if n == 0 => Some(LhsValue::Bytes(format!("tally:{}|", desc).into_bytes().into())),
                _ => None,
            }
        })
    }
}

fn simple(
    params: Vec<(SimpleFunctionArgKind, Type)>,
    opts: Vec<(SimpleFunctionArgKind, LhsValue<'static>)>,
    ret: Type,
    f: for<'i, 'a> fn(FunctionArgs<'i, 'a>) -> Option<LhsValue<'a>>,
) -> SimpleFunctionDefinition {
    SimpleFunctionDefinition {
        params: params
            .into_iter()
            .map(|(k, t)| SimpleFunctionParam { arg_kind: k, val_type: t })
            .collect(),
        opt_params: opts
            .into_iter()
            .map(|(k, v)| SimpleFunctionOptParam { arg_kind: k, default_value: v })
            .collect(),
        return_type: ret,
        implementation: SimpleFunctionImpl::new(f),
    }
}

pub fn add_lib_fn(b: &mut SchemeBuilder, name: &str, lib: &str) -> Option<()> {
    use SimpleFunctionArgKind::*;
    let ab = Type::Array(Type::Bool.into());
    let mb = Type::Map(Type::Bool.into());
    let r = match lib {
        "echo" => b.add_function(name, simple(vec![(Field, Type::Bytes)], vec![], Type::Bytes, first_ok)),
        "lower" => b.add_function(name, simple(vec![(Field, Type::Bytes)], vec![], Type::Bytes, lower)),
        "len" => b.add_function(name, simple(vec![(Field, Type::Bytes)], vec![], Type::Int, len)),
        "echo_int" => b.add_function(name, simple(vec![(Both, Type::Int)], vec![], Type::Int, first_ok)),
        "echo_ip" => b.add_function(name, simple(vec![(Both, Type::Ip)], vec![], Type::Ip, first_ok)),
        "nonempty" => b.add_function(name, simple(vec![(Field, Type::Bytes)], vec![], Type::Bytes, nonempty)),
        "show" => b.add_function(
            name,
            simple(
                vec![(Field, Type::Bytes)],
                vec![(Literal, LhsValue::Int(10)), (Both, LhsValue::Bytes(b"d".to_vec().into()))],
                Type::Bytes,
                show,
            ),
        ),
        "lit_only" => b.add_function(name, simple(vec![(Literal, Type::Int)], vec![], Type::Int, first_ok)),
        "echo_ab" => b.add_function(name, simple(vec![(Field, ab)], vec![], ab, first_ok)),
        "echo_mb" => b.add_function(name, simple(vec![(Field, mb)], vec![], mb, first_ok)),
        "echo_b" => b.add_function(name, simple(vec![(Field, Type::Bool)], vec![], Type::Bool, first_ok)),
        "tagb" => b.add_function(name, simple(vec![(Field, Type::Bool)], vec![], Type::Bytes, tagb)),
        "count" => b.add_function(
            name,
            simple(vec![(Field, Type::Array(Type::Bytes.into()))], vec![], Type::Int, count),
        ),
        "join2" => b.add_function(
            name,
            simple(vec![(Field, Type::Bytes), (Both, Type::Bytes)], vec![], Type::Bytes, join2),
        ),
        "boom" => b.add_function(name, simple(vec![(Field, Type::Bytes)], vec![], Type::Bytes, boom)),
        "tally" => b.add_function(
            name,
            TallyFunction {
                inner: simple(vec![(Field, Type::Bytes), (Both, Type::Int)], vec![], Type::Bytes, first_ok),
            },
        ),
        // the same definition without parameters: `tally0()` - the context must exist although no
        // argument is ever checked
        "tally0" => b.add_function(name, TallyFunction { inner: simple(vec![], vec![], Type::Bytes, first_ok) }),
        "concat" => b.add_function(name, ConcatFunction::new()),
        _ => return None,
    };
    r.ok()
}

// ---------------------------------------------------------------- SetList

#[derive(Debug, Clone, PartialEq, Eq, PartialOrd, Ord, Serialize, Deserialize)]
pub enum SetVal {
    I(i64),
    B(Vec<u8>),
    Ip(IpAddr),
}

impl SetVal {
    pub fn of(v: &LhsValue<'_>) -> Option<SetVal> {
        match v {
            LhsValue::Int(i) => Some(SetVal::I(*i)),
            LhsValue::Bytes(b) => Some(SetVal::B(b.to_vec())),
            LhsValue::Ip(ip) => Some(SetVal::Ip(*ip)),
            _ => None,
        }
    }
}

#[derive(Debug, Clone, PartialEq, Eq, Default, Serialize, Deserialize)]
pub struct SetMatcher {
    pub sets: BTreeMap<String, Vec<SetVal>>,
}

thread_local! {
    /// C17: when armed (Some), every SetMatcher::match_value call records its (name, value) query.
    pub static QUERY_LOG: std::cell::RefCell<Option<Vec<(String, SetVal)>>> = const { std::cell::RefCell::new(None) };
}

impl ListMatcher for SetMatcher {
    fn match_value(&self, list_name: &str, val: &LhsValue<'_>) -> bool {
        QUERY_LOG.with(|l| {
            if let (Some(log), Some(v)) = (l.borrow_mut().as_mut(), SetVal::of(val)) {
                log.push((list_name.to_string(), v));
            }
        });
        match (self.sets.get(list_name), SetVal::of(val)) {
            (Some(vs), Some(v)) => vs.contains(&v),
            _ => false,
        }
    }
    fn clear(&mut self) {
        self.sets.clear();
    }
}

#[derive(Debug, Default)]
pub struct SetList;

impl ListDefinition for SetList {
    fn deserialize_matcher<'de>(
        &self,
        _: Type,
        deserializer: &mut dyn erased_serde::Deserializer<'de>,
    ) -> Result<Box<dyn ListMatcher>, erased_serde::Error> {
        let m = erased_serde::deserialize::<SetMatcher>(deserializer)?;
        Ok(Box::new(m))
    }
    fn new_matcher(&self) -> Box<dyn ListMatcher> {
        Box::new(SetMatcher::default())
    }
}

// ---------------------------------------------------------------- scheme / ctx

pub struct SchemeInfo {
    pub scheme: Scheme,
    pub lists: Vec<(Type, String)>,
}

pub fn dec_scheme(s: &Sexp) -> Option<SchemeInfo> {
    let l = s.as_list()?;
    let [h, fields, fns, lists, ne] = l else { return None };
    if !h.is_sym("scheme") {
        return None;
    }
    let mut b = SchemeBuilder::new();
    let fl = fields.as_list()?;
    if !fl.first()?.is_sym("fields") {
        return None;
    }
    for f in &fl[1..] {
        let [n, t, o] = f.as_list()? else { return None };
        let name = String::from_utf8(n.as_bytes()?.to_vec()).ok()?;
        let ty = dec_ty(t)?;
        if o.as_bool()? {
            b.add_optional_field(name, ty).ok()?;
        } else {
            b.add_field(name, ty).ok()?;
        }
    }
    let nl = fns.as_list()?;
    if !nl.first()?.is_sym("fns") {
        return None;
    }
    for f in &nl[1..] {
        let [n, lib] = f.as_list()? else { return None };
        let name = String::from_utf8(n.as_bytes()?.to_vec()).ok()?;
        add_lib_fn(&mut b, &name, lib.as_sym()?)?;
    }
    let ll = lists.as_list()?;
    if !ll.first()?.is_sym("lists") {
        return None;
    }
    let mut linfo = Vec::new();
    static BUILDS: std::sync::atomic::AtomicUsize = std::sync::atomic::AtomicUsize::new(0);
    let refuse = BUILDS.fetch_add(1, std::sync::atomic::Ordering::Relaxed) % 2 == 0;
    for x in &ll[1..] {
        let [t, k] = x.as_list()? else { return None };
        let ty = dec_ty(t)?;
        let kind = k.as_sym()?;
        match kind {
            "always" => b.add_list(ty, AlwaysList::default()).ok()?,
            "never" => b.add_list(ty, NeverList::default()).ok()?,
            "set" => b.add_list(ty, SetList).ok()?,
            _ => return None,
        }
        linfo.push((ty, kind.to_string()));
        // every other scheme is built with a refused second registration for the same type after each list
        // (a history, not an input: the refusal must change nothing - C16 - and in particular nothing that a
        // later serialization round trip of list state could see - C17, C14)
        if refuse {
            if b.add_list(ty, NeverList::default()).is_ok() {
                return None;
            }
        }
    }
    b.set_nil_not_equal_behavior(ne.as_bool()?);
    Some(SchemeInfo { scheme: b.build(), lists: linfo })
}

fn ty_json(t: Type) -> serde_json::Value {
    serde_json::to_value(t).unwrap()
}

pub fn dec_ctx<'s>(info: &'s SchemeInfo, s: &Sexp) -> Option<ExecutionContext<'static>> {
    let l = s.as_list()?;
    let [h, vals, lists] = l else { return None };
    if !h.is_sym("ctx") {
        return None;
    }
    let mut ctx = ExecutionContext::<()>::new(&info.scheme);
    let vl = vals.as_list()?;
    if !vl.first()?.is_sym("vals") {
        return None;
    }
    let fields: Vec<_> = info.scheme.fields().collect();
    if vl.len() - 1 != fields.len() {
        return None;
    }
    for (k, (f, v)) in fields.iter().zip(&vl[1..]).enumerate() {
        if v.is_sym("none") {
            continue;
        }
        // two out of three values take one of the alternative entry points: a typed conversion instead of a
        // hand-built LhsValue, and (every other time) the by-name setter instead of the by-reference one
        let route = route_of(v, k);
        let value = match route % 3 {
            0 => dec_value(v)?,
            _ => match dec_value_via(v, route / 3) {
                Some(x) => x,
                None => dec_value(v)?,
            },
        };
        if (route / 3) % 2 == 1 {
            ctx.set_field_value_from_name(f.name(), value).ok()?;
        } else {
            ctx.set_field_value(*f, value).ok()?;
        }
    }
    let ll = lists.as_list()?;
    if !ll.first()?.is_sym("lists") {
        return None;
    }
    if ll.len() - 1 != info.lists.len() {
        return None;
    }
    let mut entries = Vec::new();
    for ((ty, kind), m) in info.lists.iter().zip(&ll[1..]) {
        match (kind.as_str(), m) {
            ("always", m) if m.is_sym("always") => {}
            ("never", m) if m.is_sym("never") => {}
            ("set", m) => {
                let sl = m.as_list()?;
                if !sl.first()?.is_sym("set") {
                    return None;
                }
                let mut sm = SetMatcher::default();
                for e in &sl[1..] {
                    let el = e.as_list()?;
                    let name = String::from_utf8(el.first()?.as_bytes()?.to_vec()).ok()?;
                    let mut vs = Vec::new();
                    for v in &el[1..] {
                        vs.push(SetVal::of(&dec_value(v)?)?);
                    }
                    sm.sets.insert(name, vs);
                }
                // "type" must precede "data": build the text by hand (serde_json::Value sorts keys)
                entries.push(format!("{{\"type\":{},\"data\":{}}}", ty_json(*ty), serde_json::to_string(&sm).ok()?));
            }
            _ => return None,
        }
    }
    if !entries.is_empty() {
        // matcher state can only be installed through deserialization
        use serde::de::DeserializeSeed;
        let doc = format!("{{\"$lists\":[{}]}}", entries.join(","));
        let doc: &'static str = Box::leak(doc.into_boxed_str());
        let mut de = serde_json::Deserializer::from_str(doc);
        if let Err(e) = (&mut ctx).deserialize(&mut de) { eprintln!("ctx lists deserialize failed: {} in {}", e, doc); return None; }
    }
    Some(ctx)
}

// ---------------------------------------------------------------- AST -> sexp

fn enc_index(i: &FieldIndex) -> Sexp {
    match i {
        FieldIndex::ArrayIndex(n) => Sexp::tagged("a", vec![Sexp::int(*n as i64)]),
        FieldIndex::MapKey(k) => Sexp::tagged("k", vec![Sexp::Bytes(k.as_bytes().to_vec())]),
        FieldIndex::MapEach => Sexp::sym("each"),
    }
}

fn enc_fmt(f: wirefilter::BytesFormat) -> Option<Sexp> {
    match f {
        wirefilter::BytesFormat::Quoted => None,
        wirefilter::BytesFormat::Byte => Some(Sexp::sym("byte")),
        wirefilter::BytesFormat::Raw(n) => Some(Sexp::tagged("raw", vec![Sexp::int(n as i64)])),
    }
}

fn with_fmt(mut v: Vec<Sexp>, f: wirefilter::BytesFormat) -> Vec<Sexp> {
    if let Some(x) = enc_fmt(f) {
        v.push(x);
    }
    v
}

fn enc_rhs(r: &RhsValue) -> Sexp {
    match r {
        RhsValue::Int(i) => Sexp::tagged("i", vec![Sexp::int(*i)]),
        RhsValue::Bytes(b) => Sexp::tagged("s", with_fmt(vec![Sexp::Bytes(b.to_vec())], b.format())),
        RhsValue::Ip(ip) => {
            let (t, n) = enc_ip(ip);
            Sexp::tagged(t, vec![Sexp::uint(n)])
        }
        _ => Sexp::sym("uninhabited"),
    }
}

fn enc_ordop(o: OrderingOp) -> &'static str {
    match o {
        OrderingOp::Equal => "eq",
        OrderingOp::NotEqual => "ne",
        OrderingOp::GreaterThanEqual => "ge",
        OrderingOp::LessThanEqual => "le",
        OrderingOp::GreaterThan => "gt",
        OrderingOp::LessThan => "lt",
    }
}

fn enc_cmpop(info: &SchemeInfo, lhs: &IndexExpr, op: &ComparisonOpExpr) -> Sexp {
    match op {
        ComparisonOpExpr::IsTrue => Sexp::sym("istrue"),
        ComparisonOpExpr::Ordering { op, rhs } => Sexp::tagged("ord", vec![Sexp::sym(enc_ordop(*op)), enc_rhs(rhs)]),
        ComparisonOpExpr::Int { rhs, .. } => Sexp::tagged("band", vec![Sexp::int(*rhs)]),
        ComparisonOpExpr::Contains(b) => Sexp::tagged("contains", with_fmt(vec![Sexp::Bytes(b.to_vec())], b.format())),
        ComparisonOpExpr::Matches(re) => {
            let mut v = vec![Sexp::Bytes(re.as_str().as_bytes().to_vec())];
            if let wirefilter::RegexFormat::Raw(n) = re.format() {
                v.push(Sexp::tagged("raw", vec![Sexp::int(n as i64)]));
            }
            Sexp::tagged("matches", v)
        }
        ComparisonOpExpr::Wildcard(w) => Sexp::tagged(
            "wildcard",
            with_fmt(vec![Sexp::boolean(false), Sexp::Bytes(w.pattern().to_vec())], w.pattern().format()),
        ),
        ComparisonOpExpr::StrictWildcard(w) => Sexp::tagged(
            "wildcard",
            with_fmt(vec![Sexp::boolean(true), Sexp::Bytes(w.pattern().to_vec())], w.pattern().format()),
        ),
        ComparisonOpExpr::OneOf(vals) => match vals {
            RhsValues::Int(rs) => Sexp::tagged(
                "in-int",
                vec![Sexp::list(
                    rs.iter()
                        .map(|r| {
                            let r: std::ops::RangeInclusive<i64> = r.into();
                            Sexp::list(vec![Sexp::int(*r.start()), Sexp::int(*r.end())])
                        })
                        .collect(),
                )],
            ),
            RhsValues::Bytes(bs) => Sexp::tagged(
                "in-bytes",
                vec![Sexp::list(
                    bs.iter()
                        .map(|b| match enc_fmt(b.format()) {
                            None => Sexp::Bytes(b.to_vec()),
                            Some(f) => Sexp::list(vec![Sexp::Bytes(b.to_vec()), f]),
                        })
                        .collect(),
                )],
            ),
            RhsValues::Ip(rs) => Sexp::tagged(
                "in-ip",
                vec![Sexp::list(
                    rs.iter()
                        .map(|r| match r {
                            IpRange::Explicit(ExplicitIpRange::V4(r)) => Sexp::tagged(
                                "r4",
                                vec![Sexp::uint(u32::from(*r.start()) as u128), Sexp::uint(u32::from(*r.end()) as u128)],
                            ),
                            IpRange::Explicit(ExplicitIpRange::V6(r)) => Sexp::tagged(
                                "r6",
                                vec![Sexp::uint(u128::from(*r.start())), Sexp::uint(u128::from(*r.end()))],
                            ),
                            IpRange::Cidr(c) => {
                                let (t, n) = enc_ip(&c.first_address());
                                Sexp::tagged(
                                    if t == "v4" { "c4" } else { "c6" },
                                    vec![Sexp::uint(n), Sexp::int(c.network_length() as i64)],
                                )
                            }
                        })
                        .collect(),
                )],
            ),
            _ => Sexp::sym("uninhabited"),
        },
        ComparisonOpExpr::InList { list, name } => {
            // the list index is not exposed; identify the list by its type's position in the scheme
            let ty = list.get_type();
            let _ = lhs;
            let li = info.lists.iter().position(|(t, _)| *t == ty).map(|x| x as i64).unwrap_or(-1);
            Sexp::tagged("inlist", vec![Sexp::int(li), Sexp::Bytes(name.as_str().as_bytes().to_vec())])
        }
        other => {
            // Matches / Wildcard / StrictWildcard / ContainsOneOf: via their serialization
            let v = serde_json::to_value(other).unwrap_or(serde_json::Value::Null);
            Sexp::tagged("json", vec![Sexp::Bytes(v.to_string().into_bytes())])
        }
    }
}

pub fn enc_iexpr(info: &SchemeInfo, e: &IndexExpr, tag_field: &str) -> Sexp {
    let idx: Vec<Sexp> = e.indexes().iter().map(enc_index).collect();
    match e.identifier() {
        IdentifierExpr::Field(f) => {
            let mut l = vec![Sexp::int(f.index() as i64)];
            l.extend(idx);
            Sexp::tagged(tag_field, l)
        }
        IdentifierExpr::FunctionCallExpr(call) => {
            let args: Vec<Sexp> = call
                .args()
                .iter()
                .map(|a| match a {
                    FunctionCallArgExpr::IndexExpr(ie) => Sexp::tagged("ai", vec![enc_iexpr(info, ie, "field")]),
                    FunctionCallArgExpr::Literal(r) => Sexp::tagged("lit", vec![enc_rhs(r)]),
                    FunctionCallArgExpr::Logical(le) => Sexp::tagged("al", vec![enc_lexpr(info, le)]),
                })
                .collect();
            let mut l = vec![Sexp::int(call.function().index() as i64), Sexp::list(args)];
            l.extend(idx);
            Sexp::tagged("call", l)
        }
    }
}

pub fn enc_lexpr(info: &SchemeInfo, e: &LogicalExpr) -> Sexp {
    match e {
        LogicalExpr::Combining { op, items } => {
            let mut l = vec![Sexp::sym(match op {
                LogicalOp::Or => "or",
                LogicalOp::Xor => "xor",
                LogicalOp::And => "and",
            })];
            l.extend(items.iter().map(|x| enc_lexpr(info, x)));
            Sexp::tagged("comb", l)
        }
        LogicalExpr::Comparison(c) => {
            Sexp::tagged("cmp", vec![enc_iexpr(info, &c.lhs, "field"), enc_cmpop(info, &c.lhs, &c.op)])
        }
        LogicalExpr::Parenthesized(p) => Sexp::tagged("paren", vec![enc_lexpr(info, &p.expr)]),
        LogicalExpr::Unary { op: UnaryOp::Not, arg } => Sexp::tagged("not", vec![enc_lexpr(info, arg)]),
        LogicalExpr::Quantifier { op, arg } => {
            let q = Sexp::sym(match op {
                QuantifierOp::Any => "any",
                QuantifierOp::All => "all",
            });
            match &**arg {
                QuantifierArgExpr::IndexExpr(ie) => Sexp::tagged("qi", vec![q, enc_iexpr(info, ie, "field")]),
                QuantifierArgExpr::Logical(le) => Sexp::tagged("ql", vec![q, enc_lexpr(info, le)]),
            }
        }
    }
}

// ---------------------------------------------------------------- case kinds

/// (exec scheme #text ast ctx...) -> (ok <ast> r...) | (err #kind)
pub fn run_exec(args: &[Sexp]) -> Option<Sexp> {
    let [sch, text, _ast, ctxs @ ..] = args else { return None };
    let info = dec_scheme(sch)?;
    let text = String::from_utf8(text.as_bytes()?.to_vec()).ok()?;
    let ast = match info.scheme.parse(&text) {
        Ok(a) => a,
        Err(e) => {
            return Some(Sexp::tagged("err", vec![Sexp::Bytes(format!("{:?}", e).into_bytes())]));
        }
    };
    let mut out = vec![enc_lexpr(&info, ast.expression())];
    let filter = ast.compile();
    for c in ctxs {
        let ctx = dec_ctx(&info, c)?;
        let r = std::panic::catch_unwind(std::panic::AssertUnwindSafe(|| filter.execute(&ctx)));
        out.push(match r {
            Ok(Ok(b)) => Sexp::boolean(b),
            Ok(Err(_)) => Sexp::sym("scheme-mismatch"),
            Err(_) => Sexp::sym("panic"),
        });
    }
    Some(Sexp::tagged("ok", out))
}

/// (exec-value scheme #text iexpr ctx...) -> (ok <iexpr> v...) | (err ..)
pub fn run_exec_value(args: &[Sexp]) -> Option<Sexp> {
    let [sch, text, _ast, ctxs @ ..] = args else { return None };
    let info = dec_scheme(sch)?;
    let text = String::from_utf8(text.as_bytes()?.to_vec()).ok()?;
    let ast = match info.scheme.parse_value(&text) {
        Ok(a) => a,
        Err(e) => {
            return Some(Sexp::tagged("err", vec![Sexp::Bytes(format!("{:?}", e).into_bytes())]));
        }
    };
    let mut out = vec![enc_iexpr(&info, ast.expression(), "field")];
    let filter = ast.compile();
    for c in ctxs {
        let ctx = dec_ctx(&info, c)?;
        let r = std::panic::catch_unwind(std::panic::AssertUnwindSafe(|| {
            filter.execute(&ctx).map(|r| enc_vres(&r))
        }));
        out.push(match r {
            Ok(Ok(s)) => s,
            Ok(Err(_)) => Sexp::sym("scheme-mismatch"),
            Err(_) => Sexp::sym("panic"),
        });
    }
    Some(Sexp::tagged("ok", out))
}

/// (typecheck scheme #text ast) -> (accept <ast>) | (reject)
pub fn run_typecheck(args: &[Sexp], value: bool) -> Option<Sexp> {
    let [sch, text, _ast] = args else { return None };
    let info = dec_scheme(sch)?;
    let text = String::from_utf8(text.as_bytes()?.to_vec()).ok()?;
    if value {
        match info.scheme.parse_value(&text) {
            Ok(a) => Some(Sexp::tagged("accept", vec![enc_iexpr(&info, a.expression(), "field")])),
            Err(_) => Some(Sexp::tagged("reject", vec![])),
        }
    } else {
        match info.scheme.parse(&text) {
            Ok(a) => Some(Sexp::tagged("accept", vec![enc_lexpr(&info, a.expression())])),
            Err(_) => Some(Sexp::tagged("reject", vec![])),
        }
    }
}

fn dec_settings(s: &Sexp) -> Option<wirefilter::ParserSettings> {
    let [h, d, l] = s.as_list()? else { return None };
    if !h.is_sym("settings") {
        return None;
    }
    let mut st = wirefilter::ParserSettings::default();
    // `default`: keep the library's own default limit
    if !d.is_sym("default") {
        st.max_nesting_depth = u16::try_from(d.as_u128()?).ok()?;
    }
    if !l.is_sym("none") {
        st.wildcard_star_limit = l.as_usize()?;
    }
    Some(st)
}

fn enc_parse_error(e: &wirefilter::ParseError<'_>) -> Sexp {
    // the fields are private: read them from the derived Debug text
    let d = format!("{:?}", e);
    let kind: String = d
        .strip_prefix("ParseError { kind: ")
        .unwrap_or("?")
        .chars()
        .take_while(|c| c.is_ascii_alphanumeric())
        .collect();
    let num = |key: &str| -> i64 {
        d.rfind(key)
            .map(|i| d[i + key.len()..].chars().take_while(|c| c.is_ascii_digit()).collect::<String>())
            .and_then(|x| x.parse().ok())
            .unwrap_or(-1)
    };
    // Display must not panic either (C05); its second line is the line of the input the error designates
    let shown = std::panic::catch_unwind(std::panic::AssertUnwindSafe(|| e.to_string()));
    let mut v = vec![
        Sexp::sym(&kind),
        Sexp::int(num("line_number: ")),
        Sexp::int(num("span_start: ")),
        Sexp::int(num("span_len: ")),
    ];
    match shown {
        Ok(text) => {
            let line = text.split('\n').nth(1).unwrap_or("");
            v.push(Sexp::Bytes(line.as_bytes().to_vec()));
        }
        Err(_) => v.push(Sexp::sym("display-panics")),
    }
    Sexp::tagged("err", v)
}

/// (parse scheme settings #text) / (parse-value ...) -> (ok ast) | (err Kind line col len)
/// The limits are configured in both ways the API offers - a ParserSettings value handed to
/// `parser_with_settings`, and the setters of a default parser - and the two parsers must agree.
pub fn run_parse(args: &[Sexp], value: bool) -> Option<Sexp> {
    let [sch, st, text] = args else { return None };
    let info = dec_scheme(sch)?;
    let settings = dec_settings(st)?;
    let text = String::from_utf8(text.as_bytes()?.to_vec()).ok()?;
    let run = |parser: &wirefilter::FilterParser<'_>| -> Sexp {
        if value {
            match parser.parse_value(&text) {
                Ok(a) => Sexp::tagged("ok", vec![enc_iexpr(&info, a.expression(), "field")]),
                Err(e) => enc_parse_error(&e),
            }
        } else {
            match parser.parse(&text) {
                Ok(a) => Sexp::tagged("ok", vec![enc_lexpr(&info, a.expression())]),
                Err(e) => enc_parse_error(&e),
            }
        }
    };
    let by_settings = info.scheme.parser_with_settings(settings.clone());
    let is_default = matches!(st.as_list(), Some([_, d, l]) if d.is_sym("default") && l.is_sym("none"));
    let mut by_setters = info.scheme.parser();
    if !is_default {
        by_setters.set_max_nesting_depth(settings.max_nesting_depth);
        by_setters.wildcard_set_star_limit(settings.wildcard_star_limit);
    }
    let a = run(&by_settings);
    let b = run(&by_setters);
    if a != b {
        return Some(Sexp::tagged("configuration-paths-differ", vec![a, b]));
    }
    // with the default limits Scheme::parse / Scheme::parse_value are a third way in
    if is_default || settings == wirefilter::ParserSettings::default() {
        let c = if value {
            match info.scheme.parse_value(&text) {
                Ok(x) => Sexp::tagged("ok", vec![enc_iexpr(&info, x.expression(), "field")]),
                Err(e) => enc_parse_error(&e),
            }
        } else {
            match info.scheme.parse(&text) {
                Ok(x) => Sexp::tagged("ok", vec![enc_lexpr(&info, x.expression())]),
                Err(e) => enc_parse_error(&e),
            }
        };
        if a != c {
            return Some(Sexp::tagged("scheme-parse-differs", vec![a, c]));
        }
    }
    Some(a)
}
