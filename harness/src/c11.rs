//! C11: `wildcard` / `strict wildcard` / `matches` through the real parser
//! (literal scanners, ParserSettings limits), compiler and executor.
//!
//! cases:
//!   (wildcard <strict> <star-limit|none> <quoted|(raw n)> #text (#value ...))
//!   (regex <quoted|(raw n)> #text <compiled-limit|none> <dfa-limit|none> (#value ...))
//! `#text` is the source text between the quotes of the literal; the filter is
//!   f wildcard "<text>" | f strict wildcard r##"<text>"## | f matches "<text>" ...
//! answers:
//!   (ok #pattern <quoted|(raw n)> b ...)   pattern = what reached the matcher (from the AST)
//!   (err <LexErrorKind variant> [<sub-variant>])
//!   (other-ast)                            the text parsed to something else than one comparison
use crate::sexp::Sexp;
use wirefilter::{
    ComparisonOpExpr, ExecutionContext, FilterParser, LhsValue, LogicalExpr, ParserSettings, SchemeBuilder, Type,
};

fn opt_usize(s: &Sexp) -> Option<Option<usize>> {
    if s.is_sym("none") { Some(None) } else { Some(Some(s.as_usize()?)) }
}

/// `quoted` -> None, `(raw n)` -> Some(n)
fn dec_form(s: &Sexp) -> Option<Option<usize>> {
    if s.is_sym("quoted") {
        return Some(None);
    }
    let [h, n] = s.as_list()? else { return None };
    if !h.is_sym("raw") {
        return None;
    }
    Some(Some(n.as_usize()?))
}

fn render(form: Option<usize>, text: &str) -> String {
    match form {
        None => format!("\"{}\"", text),
        Some(n) => {
            let h = "#".repeat(n);
            format!("r{}\"{}\"{}", h, text, h)
        }
    }
}

/// First identifiers of `kind: Variant(Sub...` in the Debug rendering of ParseError
/// (its `kind` field is not public).
fn err_kind(dbg: &str) -> Vec<Sexp> {
    fn ident(s: &str) -> &str {
        let end = s.find(|c: char| !(c.is_ascii_alphanumeric() || c == '_')).unwrap_or(s.len());
        &s[..end]
    }
    let Some(i) = dbg.find("kind: ") else { return vec![Sexp::sym("Unknown")] };
    let rest = &dbg[i + 6..];
    let k = ident(rest);
    let mut out = vec![Sexp::sym(k)];
    if k == "ParseWildcard" || k == "ParseRegex" {
        let after = &rest[k.len()..];
        if let Some(inner) = after.strip_prefix('(') {
            let sub = ident(inner);
            if !sub.is_empty() {
                out.push(Sexp::sym(sub));
            }
        }
    }
    out
}

fn enc_form(raw: Option<u8>) -> Sexp {
    match raw {
        None => Sexp::sym("quoted"),
        Some(n) => Sexp::tagged("raw", vec![Sexp::int(n as i64)]),
    }
}

pub fn run(head: &str, args: &[Sexp]) -> Option<Sexp> {
    let (op, form, text, settings, values) = match head {
        "wildcard" => {
            let [strict, limit, form, text, values] = args else { return None };
            let mut st = ParserSettings::default();
            if let Some(l) = opt_usize(limit)? {
                st.wildcard_star_limit = l;
            }
            (if strict.as_bool()? { "strict wildcard" } else { "wildcard" }, dec_form(form)?, text, st, values)
        }
        "regex" => {
            let [form, text, climit, dlimit, values] = args else { return None };
            let mut st = ParserSettings::default();
            if let Some(l) = opt_usize(climit)? {
                st.regex_compiled_size_limit = l;
            }
            if let Some(l) = opt_usize(dlimit)? {
                st.regex_dfa_size_limit = l;
            }
            ("matches", dec_form(form)?, text, st, values)
        }
        _ => return None,
    };
    let text = String::from_utf8(text.as_bytes()?.to_vec()).ok()?;
    let values = values.as_list()?;
    let mut b = SchemeBuilder::new();
    b.add_field("f", Type::Bytes).ok()?;
    let scheme = b.build();
    let parser = FilterParser::with_settings(&scheme, settings);
    let filter_text = format!("f {} {}", op, render(form, &text));
    let ast = match parser.parse(&filter_text) {
        Ok(ast) => ast,
        Err(e) => return Some(Sexp::tagged("err", err_kind(&format!("{:?}", e)))),
    };
    let mut out = match ast.expression() {
        LogicalExpr::Comparison(c) => match c.operator() {
            ComparisonOpExpr::Matches(re) if head == "regex" => vec![
                Sexp::Bytes(re.as_str().as_bytes().to_vec()),
                enc_form(match re.format() {
                    wirefilter::RegexFormat::Literal => None,
                    wirefilter::RegexFormat::Raw(n) => Some(n),
                }),
            ],
            ComparisonOpExpr::Wildcard(w) if op == "wildcard" => vec![
                Sexp::Bytes(w.pattern().to_vec()),
                enc_form(match w.pattern().format() {
                    wirefilter::BytesFormat::Raw(n) => Some(n),
                    _ => None,
                }),
            ],
            ComparisonOpExpr::StrictWildcard(w) if op == "strict wildcard" => vec![
                Sexp::Bytes(w.pattern().to_vec()),
                enc_form(match w.pattern().format() {
                    wirefilter::BytesFormat::Raw(n) => Some(n),
                    _ => None,
                }),
            ],
            _ => return Some(Sexp::tagged("other-ast", vec![])),
        },
        _ => return Some(Sexp::tagged("other-ast", vec![])),
    };
    let filter = ast.compile();
    let field = scheme.get_field("f").ok()?;
    for v in values {
        let v = v.as_bytes()?;
        let mut ctx = ExecutionContext::<()>::new(&scheme);
        ctx.set_field_value(field, LhsValue::Bytes(v.to_vec().into())).ok()?;
        match filter.execute(&ctx) {
            Ok(r) => out.push(Sexp::boolean(r)),
            Err(_) => return Some(Sexp::tagged("exec-error", vec![])),
        }
    }
    Some(Sexp::tagged("ok", out))
}
