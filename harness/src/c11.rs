//! C11: `wildcard` / `strict wildcard` / `matches` through the real parser
//! (literal scanners, ParserSettings limits), compiler and executor.
//!
//! cases:
//!   (wildcard <strict> <star-limit|none> <quoted|(raw n)> #text (#value ...))
//!   (regex <quoted|(raw n)> #text <compiled-limit|none> <dfa-limit|none> (#value ...))
//! `#text` is the source text between the quotes of the literal; the filter is
//!   f wildcard "<text>" | f strict wildcard r##"<text>"## | f matches "<text>" ...
//! answers:
//!   (ok #pattern <quoted|(raw n)> b ...)   pattern = what reached the matcher (from the AST)
//!   (err <LexErrorKind variant> [<sub-variant>])
//!   (other-ast)                            the text parsed to something else than one comparison
use crate::sexp::Sexp;
use wirefilter::{
    ComparisonOpExpr, ExecutionContext, FilterParser, LhsValue, LogicalExpr, ParserSettings, SchemeBuilder, Type,
};

fn opt_usize(s: &Sexp) -> Option<Option<usize>> {
    if s.is_sym("none") { Some(None) } else { Some(Some(s.as_usize()?)) }
}

/// `quoted` -> None, `(raw n)` -> Some(n)
fn dec_form(s: &Sexp) -> Option<Option<usize>> {
    if s.is_sym("quoted") {
        return Some(None);
    }
    let [h, n] = s.as_list()? else { return None };
    if !h.is_sym("raw") {
        return None;
    }
    Some(Some(n.as_usize()?))
}

fn render(form: Option<usize>, text: &str) -> String {
    match form {
        None => format!("\"{}\"", text),
        Some(n) => {
            let h = "#".repeat(n);
            format!("r{}\"{}\"{}", h, text, h)
        }
    }
}

/// First identifiers of `kind: Variant(Sub...` in the Debug rendering of ParseError
/// (its `kind` field is not public).
fn err_kind(dbg: &str) -> Vec<Sexp> {
    fn ident(s: &str) -> &str {
        let end = s.find(|c: char| !(c.is_ascii_alphanumeric() || c == '_')).unwrap_or(s.len());
        &s[..end]
    }
    let Some(i) = dbg.find("kind: ") else { return vec![Sexp::sym("Unknown")] };
    let rest = &dbg[i + 6..];
    let k = ident(rest);
    let mut out = vec![Sexp::sym(k)];
    if k == "ParseWildcard" || k == "ParseRegex" {
        let after = &rest[k.len()..];
        if let Some(inner) = after.strip_prefix('(') {
            let sub = ident(inner);
            if !sub.is_empty() {
                out.push(Sexp::sym(sub));
            }
        }
    }
    out
}

fn enc_form(raw: Option<u8>) -> Sexp {
    match raw {
        None => Sexp::sym("quoted"),
        Some(n) => Sexp::tagged("raw", vec![Sexp::int(n as i64)]),
    }
}

pub fn run(head: &str, args: &[Sexp]) -> Option<Sexp> {
    let (op, form, text, settings, values) = match head {
        "wildcard" => {
            let [strict, limit, form, text, values] = args else { return None };
            let mut st = ParserSettings::default();
            if let Some(l) = opt_usize(limit)? {
                st.wildcard_star_limit = l;
            }
            (if strict.as_bool()? { "strict wildcard" } else { "wildcard" }, dec_form(form)?, text, st, values)
        }
        "regex" => {
            let [form, text, climit, dlimit, values] = args else { return None };
            let mut st = ParserSettings::default();
            if let Some(l) = opt_usize(climit)? {
                st.regex_compiled_size_limit = l;
            }
            if let Some(l) = opt_usize(dlimit)? {
                st.regex_dfa_size_limit = l;
            }
            ("matches", dec_form(form)?, text, st, values)
        }
        _ => return None,
    };
    let text = String::from_utf8(text.as_bytes()?.to_vec()).ok()?;
    let values = values.as_list()?;
    let mut b = SchemeBuilder::new();
    b.add_field("f", Type::Bytes).ok()?;
    let scheme = b.build();
    // The limits reach the parser through one of the three configuration paths, and the comparison stands at the
    // top level or inside constructs that do not change its truth value (parentheses, a double negation): the
    // literal, its limits and its matches must not depend on either.  Both are chosen from the case text.
    let route = text.bytes().fold(0xcbf29ce484222325u64 ^ values.len() as u64, |h, b| {
        (h ^ b as u64).wrapping_mul(0x100000001b3)
    }) >> 11;
    let parser = match route % 3 {
        0 => FilterParser::with_settings(&scheme, settings),
        1 => scheme.parser_with_settings(settings),
        _ => {
            let mut p = FilterParser::new(&scheme);
            p.regex_set_compiled_size_limit(settings.regex_compiled_size_limit);
            p.regex_set_dfa_size_limit(settings.regex_dfa_size_limit);
            p.wildcard_set_star_limit(settings.wildcard_star_limit);
            p
        }
    };
    let cmp_text = format!("f {} {}", op, render(form, &text));
    let filter_text = match (route / 3) % 4 {
        0 => cmp_text.clone(),
        1 => format!("({})", cmp_text),
        2 => format!("not (not {})", cmp_text),
        _ => format!("( ( {} ) )", cmp_text),
    };
    // The comparison on its own decides the error kind (text after an early closing quote reads differently
    // inside parentheses); whether the literal is accepted must not depend on the wrapping.
    let plain = parser.parse(&cmp_text);
    let ast = match (parser.parse(&filter_text), plain) {
        (Ok(ast), Ok(_)) => ast,
        (Err(_), Err(e)) => return Some(Sexp::tagged("err", err_kind(&format!("{:?}", e)))),
        (Ok(_), Err(e)) => {
            let mut v = vec![Sexp::sym("rejected-only-at-top-level")];
            v.extend(err_kind(&format!("{:?}", e)));
            return Some(Sexp::tagged("acceptance-depends-on-context", v));
        }
        (Err(e), Ok(_)) => {
            let mut v = vec![Sexp::sym("rejected-only-when-wrapped")];
            v.extend(err_kind(&format!("{:?}", e)));
            return Some(Sexp::tagged("acceptance-depends-on-context", v));
        }
    };
    // peel the wrapping off again
    let mut inner = ast.expression();
    loop {
        match inner {
            LogicalExpr::Parenthesized(p) => inner = &p.expr,
            LogicalExpr::Unary { arg, .. } => inner = arg,
            _ => break,
        }
    }
    let mut out = match inner {
        LogicalExpr::Comparison(c) => match c.operator() {
            ComparisonOpExpr::Matches(re) if head == "regex" => vec![
                Sexp::Bytes(re.as_str().as_bytes().to_vec()),
                enc_form(match re.format() {
                    wirefilter::RegexFormat::Literal => None,
                    wirefilter::RegexFormat::Raw(n) => Some(n),
                }),
            ],
            ComparisonOpExpr::Wildcard(w) if op == "wildcard" => vec![
                Sexp::Bytes(w.pattern().to_vec()),
                enc_form(match w.pattern().format() {
                    wirefilter::BytesFormat::Raw(n) => Some(n),
                    _ => None,
                }),
            ],
            ComparisonOpExpr::StrictWildcard(w) if op == "strict wildcard" => vec![
                Sexp::Bytes(w.pattern().to_vec()),
                enc_form(match w.pattern().format() {
                    wirefilter::BytesFormat::Raw(n) => Some(n),
                    _ => None,
                }),
            ],
            _ => return Some(Sexp::tagged("other-ast", vec![])),
        },
        _ => return Some(Sexp::tagged("other-ast", vec![])),
    };
    let filter = ast.compile();
    let field = scheme.get_field("f").ok()?;
    for v in values {
        let v = v.as_bytes()?;
        let mut ctx = ExecutionContext::<()>::new(&scheme);
        ctx.set_field_value(field, LhsValue::Bytes(v.to_vec().into())).ok()?;
        match filter.execute(&ctx) {
            Ok(r) => out.push(Sexp::boolean(r)),
            Err(_) => return Some(Sexp::tagged("exec-error", vec![])),
        }
    }
    Some(Sexp::tagged("ok", out))
}
