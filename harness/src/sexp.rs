//! S-expression reader/printer mirroring coq/theories/Base/Sexp.v.
use std::fmt::Write;

#[derive(Clone, Debug, PartialEq)]
pub enum Sexp {
    /// sign (true = negative) and magnitude; wide enough for IPv6 addresses.
    Int(bool, u128),
    Bytes(Vec<u8>),
    Sym(String),
    List(Vec<Sexp>),
}

impl Sexp {
    pub fn sym(s: &str) -> Sexp {
        Sexp::Sym(s.to_string())
    }
    pub fn boolean(b: bool) -> Sexp {
        Sexp::sym(if b { "true" } else { "false" })
    }
    pub fn int<T: Into<i128>>(v: T) -> Sexp {
        let v: i128 = v.into();
        Sexp::Int(v < 0, v.unsigned_abs())
    }
    pub fn uint(v: u128) -> Sexp {
        Sexp::Int(false, v)
    }
    pub fn list(v: Vec<Sexp>) -> Sexp {
        Sexp::List(v)
    }
    pub fn tagged(tag: &str, mut rest: Vec<Sexp>) -> Sexp {
        let mut v = vec![Sexp::sym(tag)];
        v.append(&mut rest);
        Sexp::List(v)
    }
    pub fn is_sym(&self, s: &str) -> bool {
        matches!(self, Sexp::Sym(x) if x == s)
    }
    pub fn as_sym(&self) -> Option<&str> {
        match self {
            Sexp::Sym(s) => Some(s),
            _ => None,
        }
    }
    pub fn as_list(&self) -> Option<&[Sexp]> {
        match self {
            Sexp::List(l) => Some(l),
            _ => None,
        }
    }
    pub fn as_bytes(&self) -> Option<&[u8]> {
        match self {
            Sexp::Bytes(b) => Some(b),
            _ => None,
        }
    }
    pub fn as_i64(&self) -> Option<i64> {
        match self {
            Sexp::Int(neg, m) => {
                if *neg {
                    if *m <= (i64::MAX as u128) + 1 {
                        Some((*m as i128).wrapping_neg() as i64)
                    } else {
                        None
                    }
                } else if *m <= i64::MAX as u128 {
                    Some(*m as i64)
                } else {
                    None
                }
            }
            _ => None,
        }
    }
    pub fn as_u128(&self) -> Option<u128> {
        match self {
            Sexp::Int(false, m) => Some(*m),
            Sexp::Int(true, 0) => Some(0),
            _ => None,
        }
    }
    pub fn as_usize(&self) -> Option<usize> {
        self.as_u128().and_then(|v| usize::try_from(v).ok())
    }
    pub fn as_bool(&self) -> Option<bool> {
        match self.as_sym() {
            Some("true") => Some(true),
            Some("false") => Some(false),
            _ => None,
        }
    }
    /// `(some x)` / `none`
    pub fn as_opt(&self) -> Option<Option<&Sexp>> {
        if self.is_sym("none") {
            return Some(None);
        }
        match self.as_list() {
            Some([h, v]) if h.is_sym("some") => Some(Some(v)),
            _ => None,
        }
    }

    pub fn print(&self, out: &mut String) {
        match self {
            Sexp::Int(neg, m) => {
                if *neg && *m != 0 {
                    out.push('-');
                }
                write!(out, "{}", m).unwrap();
            }
            Sexp::Bytes(b) => {
                out.push('#');
                for x in b {
                    write!(out, "{:02x}", x).unwrap();
                }
            }
            Sexp::Sym(s) => out.push_str(s),
            Sexp::List(l) => {
                out.push('(');
                for (i, x) in l.iter().enumerate() {
                    if i > 0 {
                        out.push(' ');
                    }
                    x.print(out);
                }
                out.push(')');
            }
        }
    }

    pub fn to_line(&self) -> String {
        let mut s = String::new();
        self.print(&mut s);
        s
    }
}

fn atom(a: &str) -> Option<Sexp> {
    let b = a.as_bytes();
    if b.is_empty() {
        return None;
    }
    if b[0] == b'#' {
        let h = &b[1..];
        if h.len() % 2 != 0 {
            return None;
        }
        let mut v = Vec::with_capacity(h.len() / 2);
        for p in h.chunks(2) {
            let s = std::str::from_utf8(p).ok()?;
            v.push(u8::from_str_radix(s, 16).ok()?);
        }
        return Some(Sexp::Bytes(v));
    }
    if b[0].is_ascii_digit() {
        return a.parse::<u128>().ok().map(|m| Sexp::Int(false, m));
    }
    if b[0] == b'-' && b.len() > 1 && b[1].is_ascii_digit() {
        return a[1..].parse::<u128>().ok().map(|m| Sexp::Int(true, m));
    }
    Some(Sexp::Sym(a.to_string()))
}

pub fn parse(line: &str) -> Option<Sexp> {
    let mut stack: Vec<Vec<Sexp>> = Vec::new();
    let mut cur: Vec<Sexp> = Vec::new();
    let mut tok = String::new();
    fn flush(tok: &mut String, cur: &mut Vec<Sexp>) -> Option<()> {
        if !tok.is_empty() {
            cur.push(atom(tok)?);
            tok.clear();
        }
        Some(())
    }
    for c in line.chars() {
        match c {
            '(' => {
                flush(&mut tok, &mut cur)?;
                stack.push(std::mem::take(&mut cur));
            }
            ')' => {
                flush(&mut tok, &mut cur)?;
                let mut up = stack.pop()?;
                up.push(Sexp::List(std::mem::take(&mut cur)));
                cur = up;
            }
            ' ' | '\n' | '\r' => flush(&mut tok, &mut cur)?,
            c => tok.push(c),
        }
    }
    flush(&mut tok, &mut cur)?;
    if !stack.is_empty() || cur.len() != 1 {
        return None;
    }
    cur.pop()
}
