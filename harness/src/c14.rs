//! C14: serialization of execution contexts on the real code.  Case kinds and
//! answers are listed at the top of coq/theories/Run/C14.v.
//!
//! Entry points (`<entry>`): how the JSON reaches `DeserializeSeed for &mut ExecutionContext`
//!   str    serde_json::Deserializer::from_str   + end()
//!   slice  serde_json::Deserializer::from_slice + end()
//!   reader serde_json::Deserializer::from_reader + end()
//!   value  the text parsed into serde_json::Value, the Value used as the Deserializer
//!   capi   wirefilter_deserialize_json_to_execution_context (from_reader, no end())
//!
//! Error text is carried as `(err #text)`; tools/props/c14.py strips it before comparing.
//! A panic is not caught here: main.rs answers `(panic #message)`.
use crate::lang::{SchemeInfo, SetMatcher, SetVal, dec_ctx, dec_scheme, dec_ty, dec_value, enc_lexpr, enc_value};
use crate::sexp::Sexp;
use serde::de::DeserializeSeed;
use std::net::IpAddr;
use wirefilter::{ExecutionContext, GetType, LhsValue, ListMatcher, Type};
use wirefilter_ffi::{
    wirefilter_deserialize_json_to_execution_context, wirefilter_serialize_execution_context_to_json,
};

fn err(msg: String) -> Sexp {
    Sexp::tagged("err", vec![Sexp::Bytes(msg.into_bytes())])
}

fn leak(b: Vec<u8>) -> &'static [u8] {
    Box::leak(b.into_boxed_slice())
}

fn enc_setval(v: &SetVal) -> Sexp {
    match v {
        SetVal::I(i) => Sexp::tagged("i", vec![Sexp::int(*i)]),
        SetVal::B(b) => Sexp::tagged("s", vec![Sexp::Bytes(b.clone())]),
        SetVal::Ip(IpAddr::V4(a)) => Sexp::tagged("v4", vec![Sexp::uint(u32::from(*a) as u128)]),
        SetVal::Ip(IpAddr::V6(a)) => Sexp::tagged("v6", vec![Sexp::uint(u128::from(*a))]),
    }
}

/// the state of a matcher, read through its (erased) serialization and its Debug name
fn enc_matcher(m: &dyn ListMatcher) -> Option<Sexp> {
    let dbg = format!("{:?}", m);
    if dbg.starts_with("AlwaysListMatcher") {
        return Some(Sexp::sym("always"));
    }
    if dbg.starts_with("NeverListMatcher") {
        return Some(Sexp::sym("never"));
    }
    let v = serde_json::to_value(m as &dyn erased_serde::Serialize).ok()?;
    let sm: SetMatcher = serde_json::from_value(v).ok()?;
    let mut sets = Vec::new();
    for (name, vals) in &sm.sets {
        let mut l = vec![Sexp::Bytes(name.as_bytes().to_vec())];
        l.extend(vals.iter().map(enc_setval));
        sets.push(Sexp::list(l));
    }
    Some(Sexp::tagged("set", sets))
}

fn enc_ctx(info: &SchemeInfo, ctx: &ExecutionContext<'_>) -> Option<Sexp> {
    let mut vals = Vec::new();
    for f in info.scheme.fields() {
        vals.push(match ctx.get_field_value(f) {
            Some(v) => {
                // the stored value must have the declared type of the field, at every level
                if !deep_typed(v, f.get_type()) {
                    return Some(Sexp::tagged("ill-typed", vec![Sexp::Bytes(f.name().as_bytes().to_vec())]));
                }
                enc_value(v)
            }
            None => Sexp::sym("none"),
        });
    }
    let mut lists = Vec::new();
    for l in info.scheme.lists() {
        lists.push(enc_matcher(ctx.get_list_matcher(l))?);
    }
    Some(Sexp::tagged("ctx", vec![Sexp::tagged("vals", vals), Sexp::tagged("lists", lists)]))
}

fn deep_typed(v: &LhsValue<'_>, t: Type) -> bool {
    if v.get_type() != t {
        return false;
    }
    match v {
        LhsValue::Array(a) => {
            let et: Type = a.value_type();
            Some(et) == t.next() && a.iter().all(|x| deep_typed(x, et))
        }
        LhsValue::Map(m) => {
            let et: Type = m.value_type();
            Some(et) == t.next() && m.iter().all(|(_, x)| deep_typed(x, et))
        }
        _ => true,
    }
}

/// Feeds `text` to the context through the entry point.
fn read_ctx(ctx: &mut ExecutionContext<'static>, text: &'static [u8], entry: &str) -> Option<Result<(), String>> {
    let r = match entry {
        "str" => {
            let mut de = serde_json::Deserializer::from_str(std::str::from_utf8(text).ok()?);
            (&mut *ctx).deserialize(&mut de).and_then(|()| de.end())
        }
        "slice" => {
            let mut de = serde_json::Deserializer::from_slice(text);
            (&mut *ctx).deserialize(&mut de).and_then(|()| de.end())
        }
        "reader" => {
            let mut de = serde_json::Deserializer::from_reader(text);
            (&mut *ctx).deserialize(&mut de).and_then(|()| de.end())
        }
        "value" => match serde_json::from_str::<serde_json::Value>(std::str::from_utf8(text).ok()?) {
            Ok(v) => (&mut *ctx).deserialize(v),
            Err(e) => Err(e),
        },
        "capi" => {
            let taken = std::mem::replace(ctx, ExecutionContext::new(ctx.scheme()));
            let mut f: wirefilter_ffi::ExecutionContext<'static> = taken.into();
            let ok = wirefilter_deserialize_json_to_execution_context(&mut f, text.as_ptr(), text.len());
            *ctx = f.into();
            return Some(if ok { Ok(()) } else { Err("capi".to_string()) });
        }
        _ => return None,
    };
    Some(r.map_err(|e| e.to_string()))
}

fn read_value(ty: Type, text: &'static [u8], entry: &str) -> Option<Result<LhsValue<'static>, String>> {
    let r = match entry {
        "str" => {
            let mut de = serde_json::Deserializer::from_str(std::str::from_utf8(text).ok()?);
            ty.deserialize_value(&mut de).and_then(|v| de.end().map(|()| v))
        }
        "slice" => {
            let mut de = serde_json::Deserializer::from_slice(text);
            ty.deserialize_value(&mut de).and_then(|v| de.end().map(|()| v))
        }
        "reader" => {
            let mut de = serde_json::Deserializer::from_reader(text);
            ty.deserialize_value(&mut de).and_then(|v| de.end().map(|()| v))
        }
        "value" => match serde_json::from_str::<serde_json::Value>(std::str::from_utf8(text).ok()?) {
            Ok(v) => ty.deserialize_value(v),
            Err(e) => Err(e),
        },
        _ => return None,
    };
    Some(r.map_err(|e| e.to_string()))
}

/// the text every writer must produce
fn write_ctx(ctx: &ExecutionContext<'static>) -> Result<Vec<u8>, Sexp> {
    let differ = |w: &str| Sexp::tagged("writers-differ", vec![Sexp::sym(w)]);
    let text = serde_json::to_string(ctx).map_err(|e| err(e.to_string()))?;
    if serde_json::to_vec(ctx).map_err(|e| err(e.to_string()))? != text.as_bytes() {
        return Err(differ("to_vec"));
    }
    let mut w = Vec::new();
    serde_json::to_writer(&mut w, ctx).map_err(|e| err(e.to_string()))?;
    if w != text.as_bytes() {
        return Err(differ("to_writer"));
    }
    // Serializer = serde_json::value::Serializer: the same tree as the text parsed into a Value
    let direct = serde_json::to_value(ctx).map_err(|e| err(e.to_string()))?;
    let parsed: serde_json::Value = serde_json::from_str(&text).map_err(|e| err(e.to_string()))?;
    if direct != parsed {
        return Err(differ("to_value"));
    }
    // the C API writer
    let taken = ctx.clone_with(());
    let mut f: wirefilter_ffi::ExecutionContext<'static> = taken.into();
    let r = wirefilter_serialize_execution_context_to_json(&mut f);
    let same = !r.json.ptr.is_null()
        && unsafe { std::slice::from_raw_parts(r.json.ptr.cast::<u8>(), r.json.len) } == text.as_bytes();
    drop(r);
    if !same {
        return Err(differ("capi"));
    }
    Ok(text.into_bytes())
}

fn roundtrip(info: &SchemeInfo, ctx: &ExecutionContext<'static>, entry: &str) -> Option<Result<(ExecutionContext<'static>, Vec<u8>), Sexp>> {
    let text = match write_ctx(ctx) {
        Ok(t) => t,
        Err(s) => return Some(Err(s)),
    };
    let mut fresh = ExecutionContext::<()>::new(&info.scheme);
    match read_ctx(&mut fresh, leak(text.clone()), entry)? {
        Err(m) => return Some(Err(err(m))),
        Ok(()) => {}
    }
    // equality as the engine defines it, and the same serialization again
    if fresh != *ctx {
        return Some(Err(Sexp::tagged("mismatch", vec![Sexp::sym("partial-eq"), enc_ctx(info, &fresh)?])));
    }
    match serde_json::to_string(&fresh) {
        Ok(t2) if t2.as_bytes() == &text[..] => {}
        _ => return Some(Err(Sexp::tagged("mismatch", vec![Sexp::sym("reserialized")]))),
    }
    Some(Ok((fresh, text)))
}

pub fn run(head: &str, args: &[Sexp]) -> Option<Sexp> {
    match head {
        // (ctx-roundtrip <scheme> <ctx> <entry>) -> (ok <ctx> #text) | (err)
        "ctx-roundtrip" => {
            let [sch, c, e] = args else { return None };
            let info = dec_scheme(sch)?;
            let ctx = dec_ctx(&info, c)?;
            Some(match roundtrip(&info, &ctx, e.as_sym()?)? {
                Ok((fresh, text)) => Sexp::tagged("ok", vec![enc_ctx(&info, &fresh)?, Sexp::Bytes(text)]),
                Err(s) => s,
            })
        }
        // (ctx-roundtrip-exec <scheme> #filter <ast> <ctx> <entry>) -> (ok <ast> before after) | (err) | (parse-err)
        "ctx-roundtrip-exec" => {
            let [sch, text, _ast, c, e] = args else { return None };
            let info = dec_scheme(sch)?;
            let ctx = dec_ctx(&info, c)?;
            let ftext = String::from_utf8(text.as_bytes()?.to_vec()).ok()?;
            let ast = match info.scheme.parse(&ftext) {
                Ok(a) => a,
                Err(_) => return Some(Sexp::tagged("parse-err", vec![])),
            };
            let shown = enc_lexpr(&info, ast.expression());
            let filter = ast.compile();
            let exec = |c: &ExecutionContext<'static>| {
                match std::panic::catch_unwind(std::panic::AssertUnwindSafe(|| filter.execute(c))) {
                    Ok(Ok(b)) => Sexp::boolean(b),
                    Ok(Err(_)) => Sexp::sym("scheme-mismatch"),
                    Err(_) => Sexp::sym("panic"),
                }
            };
            let before = exec(&ctx);
            Some(match roundtrip(&info, &ctx, e.as_sym()?)? {
                Ok((fresh, _)) => Sexp::tagged("ok", vec![shown, before, exec(&fresh)]),
                Err(s) => s,
            })
        }
        // (ctx-json <scheme> #text <entry>) -> (ok <ctx>) | (err)
        "ctx-json" => {
            let [sch, text, e] = args else { return None };
            let info = dec_scheme(sch)?;
            let mut fresh = ExecutionContext::<()>::new(&info.scheme);
            Some(match read_ctx(&mut fresh, leak(text.as_bytes()?.to_vec()), e.as_sym()?)? {
                Ok(()) => Sexp::tagged("ok", vec![enc_ctx(&info, &fresh)?]),
                Err(m) => err(m),
            })
        }
        // (value-roundtrip <value> <entry>) -> (ok <value> #text) | (err)
        "value-roundtrip" => {
            let [v, e] = args else { return None };
            let v = dec_value(v)?;
            let text = match serde_json::to_string(&v) {
                Ok(t) => t.into_bytes(),
                Err(x) => return Some(err(x.to_string())),
            };
            Some(match read_value(v.get_type(), leak(text.clone()), e.as_sym()?)? {
                Ok(back) => {
                    if back != v {
                        return Some(Sexp::tagged("mismatch", vec![enc_value(&back)]));
                    }
                    Sexp::tagged("ok", vec![enc_value(&back), Sexp::Bytes(text)])
                }
                Err(m) => err(m),
            })
        }
        // (value-json <ty> #text <entry>) -> (ok <value>) | (err)
        "value-json" => {
            let [t, text, e] = args else { return None };
            let ty = dec_ty(t)?;
            Some(match read_value(ty, leak(text.as_bytes()?.to_vec()), e.as_sym()?)? {
                Ok(v) => {
                    if !deep_typed(&v, ty) {
                        return Some(Sexp::tagged("ill-typed", vec![enc_value(&v)]));
                    }
                    Sexp::tagged("ok", vec![enc_value(&v)])
                }
                Err(m) => err(m),
            })
        }
        _ => None,
    }
}
