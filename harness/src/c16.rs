//! C16: the scheme builder as a registry, driven through the public API.
//! case: (registry-history (op...) (query...)) -> (ok (response...) (answer...))
//!   op    ::= (field #name ty) | (ofield #name ty) | (fn #name) | (list ty always|never)
//!   query ::= (get-field #name) | (get-function #name) | (get-list ty) | fields | functions
//!           | lists | counts | (parse-ident #text) | (scheme-eq)
use crate::lang::{dec_ty, enc_ty};
use crate::sexp::Sexp;
use wirefilter::{
    AlwaysList, ComparisonOpExpr, FieldRef, FunctionArgs, FunctionRef, GetType, IdentifierExpr,
    IdentifierRedefinitionError, IndexExpr, LhsValue, ListRef, LogicalExpr, NeverList, Scheme, SchemeBuilder,
    SimpleFunctionDefinition, SimpleFunctionImpl, Type,
};

/// The fixture function: no parameter, returns Bool, so that `name()` is both
/// a value expression and a filter.
fn truth<'a>(_args: FunctionArgs<'_, 'a>) -> Option<LhsValue<'a>> {
    Some(LhsValue::Bool(true))
}

fn truth_def() -> SimpleFunctionDefinition {
    SimpleFunctionDefinition {
        params: vec![],
        opt_params: vec![],
        return_type: Type::Bool,
        implementation: SimpleFunctionImpl::new(truth),
    }
}

fn name_of(s: &Sexp) -> Option<String> {
    String::from_utf8(s.as_bytes()?.to_vec()).ok()
}

fn enc_ident_result(r: Result<(), IdentifierRedefinitionError>) -> Sexp {
    match r {
        Ok(()) => Sexp::sym("ok"),
        Err(IdentifierRedefinitionError::Field(_)) => Sexp::tagged("err", vec![Sexp::sym("field")]),
        Err(IdentifierRedefinitionError::Function(_)) => Sexp::tagged("err", vec![Sexp::sym("function")]),
    }
}

/// Applies one registration to the builder and reports its result.
fn apply_op(b: &mut SchemeBuilder, op: &Sexp) -> Option<Sexp> {
    let l = op.as_list()?;
    match (l.first()?.as_sym()?, &l[1..]) {
        ("field", [n, t]) => Some(enc_ident_result(b.add_field(name_of(n)?, dec_ty(t)?))),
        ("ofield", [n, t]) => Some(enc_ident_result(b.add_optional_field(name_of(n)?, dec_ty(t)?))),
        ("fn", [n]) => Some(enc_ident_result(b.add_function(name_of(n)?, truth_def()))),
        ("list", [t, k]) => {
            let ty = dec_ty(t)?;
            let r = match k.as_sym()? {
                "always" => b.add_list(ty, AlwaysList::default()),
                "never" => b.add_list(ty, NeverList::default()),
                _ => return None,
            };
            Some(match r {
                Ok(()) => Sexp::sym("ok"),
                Err(_) => Sexp::tagged("err", vec![Sexp::sym("list")]),
            })
        }
        _ => None,
    }
}

fn build(ops: &[Sexp]) -> Option<(Vec<Sexp>, Scheme)> {
    let mut b = SchemeBuilder::new();
    let mut res = Vec::new();
    for op in ops {
        res.push(apply_op(&mut b, op)?);
    }
    Some((res, b.build()))
}

fn enc_field(f: FieldRef<'_>) -> Sexp {
    Sexp::tagged(
        "field",
        vec![
            Sexp::int(f.index() as i64),
            Sexp::Bytes(f.name().as_bytes().to_vec()),
            enc_ty(f.get_type()),
            Sexp::boolean(f.optional()),
        ],
    )
}

fn enc_fn(f: FunctionRef<'_>) -> Sexp {
    Sexp::tagged("fn", vec![Sexp::int(f.index() as i64), Sexp::Bytes(f.name().as_bytes().to_vec())])
}

/// The list's position in `lists()` (its index is not public), type and kind.
fn enc_list(scheme: &Scheme, l: ListRef<'_>) -> Sexp {
    let pos = scheme.lists().position(|x| x == l);
    let dbg = format!("{:?}", l);
    let kind = if dbg.contains("AlwaysList") {
        "always"
    } else if dbg.contains("NeverList") {
        "never"
    } else {
        "other"
    };
    Sexp::tagged(
        "list",
        vec![
            match pos {
                Some(p) => Sexp::int(p as i64),
                None => Sexp::sym("nowhere"),
            },
            enc_ty(l.get_type()),
            Sexp::sym(kind),
        ],
    )
}

/// Coarse error kind: the variant name of `LexErrorKind`, read from the Debug
/// text of the (opaque) `ParseError`.
fn err_kind(dbg: &str) -> Sexp {
    let kind = dbg
        .split_once("kind: ")
        .map(|(_, r)| r.chars().take_while(|c| c.is_ascii_alphanumeric()).collect::<String>())
        .unwrap_or_default();
    let tag = match kind.as_str() {
        "UnknownIdentifier" => "unknown-identifier",
        "ExpectedName" => "expected-name",
        "ExpectedLiteral" => "expected-literal",
        "EOF" => "eof",
        "TypeMismatch" => "type-mismatch",
        _ => "other",
    };
    Sexp::tagged("err", vec![Sexp::sym(tag)])
}

fn enc_resolved(e: &IndexExpr) -> Sexp {
    if !e.indexes().is_empty() {
        return Sexp::sym("indexed");
    }
    match e.identifier() {
        IdentifierExpr::Field(f) => Sexp::tagged("field", vec![Sexp::int(f.index() as i64)]),
        IdentifierExpr::FunctionCallExpr(c) => {
            if c.args().is_empty() {
                Sexp::tagged("call", vec![Sexp::int(c.function().index() as i64)])
            } else {
                Sexp::sym("call-with-args")
            }
        }
    }
}

fn probe_value(scheme: &Scheme, text: &str) -> Sexp {
    match scheme.parse_value(text) {
        Ok(ast) => enc_resolved(ast.expression()),
        Err(e) => err_kind(&format!("{:?}", e)),
    }
}

fn probe_filter(scheme: &Scheme, text: &str) -> Sexp {
    match scheme.parse(text) {
        Ok(ast) => match ast.expression() {
            LogicalExpr::Comparison(c) if c.op == ComparisonOpExpr::IsTrue => enc_resolved(&c.lhs),
            _ => Sexp::sym("other-expression"),
        },
        Err(e) => err_kind(&format!("{:?}", e)),
    }
}

fn answer(scheme: &Scheme, ops: &[Sexp], q: &Sexp) -> Option<Sexp> {
    if let Some(s) = q.as_sym() {
        return Some(match s {
            "fields" => Sexp::tagged("fields", scheme.fields().map(enc_field).collect()),
            "functions" => Sexp::tagged("functions", scheme.functions().map(enc_fn).collect()),
            "lists" => Sexp::tagged("lists", scheme.lists().map(|l| enc_list(scheme, l)).collect()),
            "counts" => Sexp::tagged(
                "counts",
                vec![
                    Sexp::int(scheme.field_count() as i64),
                    Sexp::int(scheme.function_count() as i64),
                    Sexp::int(scheme.list_count() as i64),
                ],
            ),
            _ => return None,
        });
    }
    let l = q.as_list()?;
    match (l.first()?.as_sym()?, &l[1..]) {
        ("get-field", [n]) => Some(match scheme.get_field(&name_of(n)?) {
            Ok(f) => enc_field(f),
            Err(_) => Sexp::sym("none"),
        }),
        ("get-function", [n]) => Some(match scheme.get_function(&name_of(n)?) {
            Ok(f) => enc_fn(f),
            Err(_) => Sexp::sym("none"),
        }),
        ("get-list", [t]) => Some(match scheme.get_list(&dec_ty(t)?) {
            Some(l) => enc_list(scheme, l),
            None => Sexp::sym("none"),
        }),
        ("parse-ident", [t]) => {
            let text = name_of(t)?;
            let call = format!("{}()", text);
            Some(Sexp::tagged(
                "parse-ident",
                vec![
                    probe_value(scheme, &text),
                    probe_value(scheme, &call),
                    probe_filter(scheme, &text),
                    probe_filter(scheme, &call),
                ],
            ))
        }
        ("scheme-eq", []) => {
            let clone = scheme.clone();
            let (_, rebuilt) = build(ops)?;
            // "the same" = equal and, as Eq/Hash demand, hashing alike (every handle is a different object in memory)
            fn same<T: PartialEq + std::hash::Hash>(a: &T, b: &T) -> Sexp {
                use std::hash::Hasher;
                let h = |x: &T| {
                    let mut s = std::collections::hash_map::DefaultHasher::new();
                    x.hash(&mut s);
                    s.finish()
                };
                if a != b {
                    Sexp::boolean(false)
                } else if h(a) == h(b) {
                    Sexp::boolean(true)
                } else {
                    Sexp::sym("equal-but-hashes-differ")
                }
            }
            let field_same = match (scheme.fields().next(), clone.fields().next(), rebuilt.fields().next()) {
                (Some(a), Some(b), Some(c)) => vec![same(&a, &b), same(&a, &c)],
                _ => vec![],
            };
            let moved = Box::new(scheme.clone());
            let mut v = vec![
                if same(&clone, scheme).is_sym("true") { same(&*moved, scheme) } else { same(&clone, scheme) },
                same(&rebuilt, scheme),
            ];
            v.extend(field_same);
            Some(Sexp::tagged("scheme-eq", v))
        }
        _ => None,
    }
}

pub fn run(head: &str, args: &[Sexp]) -> Option<Sexp> {
    if head != "registry-history" {
        return None;
    }
    let [ops, queries] = args else { return None };
    let ops = ops.as_list()?;
    let (responses, scheme) = build(ops)?;
    let mut answers = Vec::new();
    for q in queries.as_list()? {
        answers.push(answer(&scheme, ops, q)?);
    }
    Some(Sexp::tagged("ok", vec![Sexp::list(responses), Sexp::list(answers)]))
}
