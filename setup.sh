#!/bin/sh
# MANIFEST.setup_cmd: builds the whole framework offline from files on disk.
set -e
cd "$(dirname "$0")"
export CARGO_NET_OFFLINE=true
mkdir -p work model/extracted evidence replays
if [ -f tools/gen_tables.py ]; then python3 tools/gen_tables.py || true; fi
( cd coq && coq_makefile -f _CoqProject -o Makefile >/dev/null && timeout 3400 make -j16 )
sh model/build.sh
cp -f /repo/Cargo.lock harness/Cargo.lock
( cd harness && RUSTFLAGS="--cfg wirefilter_verif" CARGO_TARGET_DIR="$PWD/target" cargo build --offline -q )
( cd harness && RUSTFLAGS="--cfg wirefilter_verif" CARGO_TARGET_DIR="$PWD/target" cargo build --offline -q --release )
echo setup-ok
