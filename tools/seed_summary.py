#!/usr/bin/env python3
"""Writes the per-property summary of the seeded-change campaign into DESIGN.md between the markers
<!-- SEED-SUMMARY-BEGIN --> and <!-- SEED-SUMMARY-END --> (from seeded/*/meta.json and seeded/strengthening.json)."""
import collections
import json
import os
import re

ROOT = os.path.dirname(os.path.dirname(os.path.abspath(__file__)))
SEEDED = os.path.join(ROOT, "seeded")


def main():
    st = json.load(open(os.path.join(SEEDED, "strengthening.json")))
    rows = collections.OrderedDict()
    total = first = after = missed = 0
    for d in sorted(os.listdir(SEEDED)):
        mp = os.path.join(SEEDED, d, "meta.json")
        if not os.path.exists(mp):
            continue
        m = json.load(open(mp))
        if not m.get("confirmed"):
            continue
        pid = d.split("-")[0]
        r = rows.setdefault(pid, {"n": 0, "first": 0, "after": [], "missed": [], "by": collections.Counter()})
        r["n"] += 1
        total += 1
        if not m.get("caught_by"):
            r["missed"].append(d)
            missed += 1
        elif d in st:
            r["after"].append(d)
            after += 1
        else:
            r["first"] += 1
            first += 1
        for c in m.get("caught_by", []):
            r["by"][c] += 1
    out = []
    out.append("| property | changes | caught at the first evaluation | caught after strengthening | not caught | "
               "caught by (number of changes) |")
    out.append("|---|---|---|---|---|---|")
    for pid, r in rows.items():
        by = ", ".join("%s (%d)" % (c, n) for c, n in sorted(r["by"].items(), key=lambda x: (-x[1], x[0])))
        out.append("| %s | %d | %d | %s | %s | %s |" % (
            pid, r["n"], r["first"], " ".join(r["after"]) or "-", " ".join(r["missed"]) or "-", by))
    out.append("| all | %d | %d | %d | %d | |" % (total, first, after, missed))
    out.append("")
    out.append("What was strengthened for the changes that were first missed (or, where noted, would have been):")
    out.append("")
    for k, v in st.items():
        out.append("* **%s** - %s. Now: %s." % (k, v["first_result"].rstrip("."), v["change"].rstrip(".")))
    text = "\n".join(out)
    p = os.path.join(ROOT, "DESIGN.md")
    s = open(p).read()
    a, b = "<!-- SEED-SUMMARY-BEGIN -->", "<!-- SEED-SUMMARY-END -->"
    if a in s and b in s:
        s = s[:s.index(a) + len(a)] + "\n" + text + "\n" + s[s.index(b):]
        open(p, "w").write(s)
    print(text)


if __name__ == "__main__":
    main()
