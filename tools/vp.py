"""Driver library of the verification framework: builds the Coq development, the
extracted model and the Rust harness; runs cases on implementation / model /
specification; compares; classifies; writes evidence and replays.

Every property lives in tools/props/<id>.py and exposes a dict PROP (see
run_property for the keys)."""
import fcntl
import glob
import hashlib
import json
import os
import random
import re
import subprocess
import sys
import time

ROOT = os.path.dirname(os.path.dirname(os.path.abspath(__file__)))
COQ = os.path.join(ROOT, "coq")
MODEL = os.path.join(ROOT, "model")
HARNESS = os.path.join(ROOT, "harness")
WORK = os.path.join(ROOT, "work")
REPO = "/repo"
# Evaluation of seeded changes only (tools/seed_eval.py): run the same checks against a scratch worktree of /repo
# instead of /repo itself, with a private copy of the harness crate and private evidence / replay directories.
# Never set by a command registered in MANIFEST.json.
OVERRIDE = os.environ.get("VERIF_REPO_OVERRIDE")
if OVERRIDE:
    REPO = OVERRIDE
    _src = HARNESS
    LANE = os.environ.get("VERIF_LANE", "")
    HARNESS = os.path.join(WORK, "harness-override" + LANE)
    os.makedirs(os.path.join(HARNESS, "src"), exist_ok=True)
    for _f in os.listdir(os.path.join(_src, "src")):
        _a = open(os.path.join(_src, "src", _f), "rb").read()
        _b = os.path.join(HARNESS, "src", _f)
        if not os.path.exists(_b) or open(_b, "rb").read() != _a:
            open(_b, "wb").write(_a)
    _t = open(os.path.join(_src, "Cargo.toml")).read().replace('"/repo/', '"%s/' % OVERRIDE.rstrip("/"))
    _b = os.path.join(HARNESS, "Cargo.toml")
    if not os.path.exists(_b) or open(_b).read() != _t:
        open(_b, "w").write(_t)
NCPU = 16

TRUSTED_BASE = [
    "Coq 8.16.1 kernel (coqc; coqchk in the thorough tier); vm_compute, no native_compute",
    "axioms: none (Print Assumptions must report 'Closed under the global context' for every property theorem)",
    "extraction to OCaml with ExtrOcamlBasic only (bool, option, unit, list, prod, sumbool, sumor, andb, orb); "
    "no Extract Constant/Inductive of our own; model/driver.ml (byte<->N conversion, line loop); "
    "mitigated by re-evaluating a sample of cases with vm_compute inside coqc",
    "correspondence check: harness crate wfh (fixtures, canonical printing, catch_unwind), tools/vp.py "
    "(generation, diff, classification), the s-expression protocol",
    "modelled, not verified: third-party crates and std behaviour reached through wirefilter's API "
    "(validated only by the correspondence)",
]

# --------------------------------------------------------------------------
# s-expression helpers (mirror of Base/Sexp.v)


class Sym(str):
    pass


def to_sexp(x):
    if isinstance(x, Sym):
        return str(x)
    if x is True:
        return "true"
    if x is False:
        return "false"
    if x is None:
        return "none"
    if isinstance(x, int):
        return str(x)
    if isinstance(x, (bytes, bytearray)):
        return "#" + bytes(x).hex()
    if isinstance(x, str):
        return x
    if isinstance(x, (list, tuple)):
        return "(" + " ".join(to_sexp(y) for y in x) + ")"
    raise TypeError(repr(x))


def some(x):
    return ("some", x)


def parse_sexp(line):
    """Returns nested python lists; atoms: int, bytes, Sym."""
    toks = re.findall(r"\(|\)|[^\s()]+", line)
    stack = [[]]
    for t in toks:
        if t == "(":
            stack.append([])
        elif t == ")":
            top = stack.pop()
            stack[-1].append(top)
        elif t[0] == "#":
            stack[-1].append(bytes.fromhex(t[1:]))
        elif t[0].isdigit() or (t[0] == "-" and len(t) > 1 and t[1].isdigit()):
            stack[-1].append(int(t))
        else:
            stack[-1].append(Sym(t))
    assert len(stack) == 1 and len(stack[0]) == 1, line
    return stack[0][0]


# --------------------------------------------------------------------------
# shell / build helpers


def log(*a):
    print(*a, file=sys.stderr, flush=True)


def sh(cmd, cwd=None, timeout=3600, env=None, inp=None):
    e = dict(os.environ)
    e.update({"CARGO_NET_OFFLINE": "true"})
    if env:
        e.update(env)
    p = subprocess.run(cmd, cwd=cwd, env=e, input=inp, stdout=subprocess.PIPE, stderr=subprocess.STDOUT,
                       timeout=timeout, shell=isinstance(cmd, str))
    return p.returncode, p.stdout.decode("utf-8", "replace")


class Lock:
    def __init__(self, name):
        os.makedirs(WORK, exist_ok=True)
        self.path = os.path.join(WORK, name + ".lock")

    def __enter__(self):
        self.f = open(self.path, "w")
        fcntl.flock(self.f, fcntl.LOCK_EX)

    def __exit__(self, *a):
        fcntl.flock(self.f, fcntl.LOCK_UN)
        self.f.close()


def gen_tables():
    """Source tie: regenerate the generated .v files from /repo (see gen_tables.py)."""
    p = os.path.join(ROOT, "tools", "gen_tables.py")
    if os.path.exists(p):
        rc, out = sh([sys.executable, p], cwd=ROOT, timeout=120)
        if rc != 0:
            log("gen_tables failed:\n" + out)
        return rc == 0, out
    return True, ""


def build_coq(targets):
    """make the given .vo targets (full .vo build, no -vos).  Returns (ok, log)."""
    with Lock("coq"):
        gen_tables()
        mk = os.path.join(COQ, "Makefile")
        cp = os.path.join(COQ, "_CoqProject")
        if not os.path.exists(mk) or os.path.getmtime(mk) < os.path.getmtime(cp):
            rc, out = sh("coq_makefile -f _CoqProject -o Makefile", cwd=COQ, timeout=120)
            if rc != 0:
                return False, out
        os.makedirs(os.path.join(MODEL, "extracted"), exist_ok=True)
        rc, out = sh(["timeout", "3000", "make", "-j%d" % NCPU] + list(targets), cwd=COQ, timeout=3100)
        return rc == 0, out


def build_model():
    with Lock("model"):
        src = os.path.join(MODEL, "extracted", "wfmodel_core.ml")
        binp = os.path.join(MODEL, "wfmodel")
        drv = os.path.join(MODEL, "driver.ml")
        if not os.path.exists(src):
            return False, "no extracted model"
        if (not os.path.exists(binp) or os.path.getmtime(binp) < os.path.getmtime(src)
                or os.path.getmtime(binp) < os.path.getmtime(drv)):
            rc, out = sh(["sh", os.path.join(MODEL, "build.sh")], cwd=MODEL, timeout=900)
            return rc == 0, out
        return True, ""


def build_harness(release=False):
    """Rebuild the harness from /repo's current working tree (hooks on)."""
    with Lock("cargo"):
        lock_src = os.path.join(REPO, "Cargo.lock")
        lock_dst = os.path.join(HARNESS, "Cargo.lock")
        try:
            a = open(lock_src, "rb").read()
            if not os.path.exists(lock_dst):
                open(lock_dst, "wb").write(a)
        except OSError:
            pass
        cmd = ["cargo", "build", "--offline", "-q"] + (["--release"] if release else [])
        rc, out = sh(cmd, cwd=HARNESS, timeout=3000,
                     env={"RUSTFLAGS": "--cfg wirefilter_verif", "CARGO_TARGET_DIR": os.path.join(HARNESS, "target")})
        if rc != 0 and "Cargo.lock" in out:
            open(lock_dst, "wb").write(open(lock_src, "rb").read())
            rc, out = sh(cmd, cwd=HARNESS, timeout=3000,
                         env={"RUSTFLAGS": "--cfg wirefilter_verif",
                              "CARGO_TARGET_DIR": os.path.join(HARNESS, "target")})
        return rc == 0, out


def harness_bin(release=False):
    return os.path.join(HARNESS, "target", "release" if release else "debug", "wfh")


def model_bin():
    return os.path.join(MODEL, "wfmodel")


# --------------------------------------------------------------------------
# running cases


def _run_chunk(cmd, lines, env=None, timeout=1800):
    e = dict(os.environ)
    if env:
        e.update(env)
    data = ("\n".join(lines) + "\n").encode()

    # the extracted model recurses along lists (histories of 10^5 operations): lift the soft stack limit
    if os.path.basename(cmd[0]) == "wfmodel":
        cmd = ["sh", "-c", 'ulimit -s unlimited 2>/dev/null || ulimit -s "$(ulimit -H -s)" 2>/dev/null; exec "$0" "$@"'] + list(cmd)
    try:
        p = subprocess.run(cmd, input=data, stdout=subprocess.PIPE, stderr=subprocess.PIPE, env=e, timeout=timeout)
        rc = p.returncode
        out = p.stdout.decode("utf-8", "replace").split("\n")
    except subprocess.TimeoutExpired as ex:
        rc = -999
        out = (ex.stdout or b"").decode("utf-8", "replace").split("\n")
    if out and out[-1] == "":
        out.pop()
    return rc, out


IDLE_LIMIT = int(os.environ.get("VERIF_IDLE_LIMIT", "240"))    # seconds without a new answer = the case hangs


def _run_streaming(cmd, lines, env=None):
    """The implementation harness answers (and flushes) one line per case.  Feeds [lines], collects the answers as
    they come; when the process dies, or gives no new answer for IDLE_LIMIT seconds, the first unanswered case is
    answered (crash <rc>) / (crash -999) and the rest is run in a new process."""
    import queue
    import threading
    e = dict(os.environ)
    if env:
        e.update(env)
    res = []
    pos = 0
    idle = IDLE_LIMIT
    while pos < len(lines):
        part = lines[pos:]
        p = subprocess.Popen(cmd, stdin=subprocess.PIPE, stdout=subprocess.PIPE, stderr=subprocess.DEVNULL, env=e)
        q = queue.Queue()

        def feed(p=p, part=part):
            try:
                p.stdin.write(("\n".join(part) + "\n").encode())
                p.stdin.close()
            except (BrokenPipeError, OSError):
                pass

        def read(p=p, q=q):
            for raw in p.stdout:
                q.put(raw.decode("utf-8", "replace").rstrip("\n"))
            q.put(None)

        threading.Thread(target=feed, daemon=True).start()
        threading.Thread(target=read, daemon=True).start()
        got = 0
        hung = False
        while got < len(part):
            try:
                item = q.get(timeout=idle)
            except queue.Empty:
                hung = True
                break
            if item is None:
                break
            res.append(item)
            got += 1
        if got == len(part):
            try:
                p.wait(timeout=60)
            except subprocess.TimeoutExpired:
                p.kill()
            break
        p.kill()
        try:
            rc = p.wait(timeout=60)
        except subprocess.TimeoutExpired:
            rc = -998
        res.append("(crash %d)" % (-999 if hung else rc))
        if hung:
            idle = max(30, IDLE_LIMIT // 8)      # once a case has hung, the rest of this chunk gets less patience
        pos += got + 1
    return res


def _run_robust(cmd, lines, env=None, timeout=1800):
    """Runs a chunk; if the process dies (abort, stack overflow, timeout) the
    offending case is isolated and answered (crash <rc>)."""
    if not lines:
        return []
    if os.path.basename(cmd[0]) == "wfh" and os.environ.get("VERIF_NO_STREAM") != "1":
        return _run_streaming(cmd, lines, env)
    rc, out = _run_chunk(cmd, lines, env, timeout)
    if rc == 0 and len(out) == len(lines):
        return out
    if len(lines) == 1:
        return ["(crash %d)" % rc]
    # the first len(out) answers are good only if flushed; re-run by halves
    mid = len(lines) // 2
    return _run_robust(cmd, lines[:mid], env, timeout) + _run_robust(cmd, lines[mid:], env, timeout)


def run_lines(cmd, lines, shards=NCPU, env=None, timeout=1800):
    """Feeds [lines] to [cmd] (a line filter), sharded over processes; returns outputs in order."""
    from concurrent.futures import ThreadPoolExecutor
    n = len(lines)
    if n == 0:
        return []
    shards = max(1, min(shards, (n + 199) // 200))
    size = (n + shards - 1) // shards
    chunks = [lines[i:i + size] for i in range(0, n, size)]
    with ThreadPoolExecutor(max_workers=len(chunks)) as ex:
        outs = list(ex.map(lambda c: _run_robust(cmd, c, env, timeout), chunks))
    res = []
    for o in outs:
        res.extend(o)
    assert len(res) == n
    return res


def run_impl(lines, release=False, env=None, shards=NCPU):
    return run_lines([harness_bin(release)], lines, shards=shards, env=env)


def run_model(lines, spec=False, shards=NCPU):
    return run_lines([model_bin()] + (["spec"] if spec else []), lines, shards=shards)


def coq_bytes(s):
    return "[" + ";".join(str(b) for b in s.encode()) + "]%N"


def _vm_crosscheck_chunk(lines, outputs, spec, tag):
    name = "cases_%s_%d" % (tag, os.getpid())
    path = os.path.join(WORK, name + ".v")
    with open(path, "w") as f:
        f.write("From Coq Require Import List NArith Bool.\nFrom WF Require Import Base.Bytes Run.Main.\n"
                "Import ListNotations.\nOpen Scope N_scope.\n")
        f.write("Definition cases : list (bytes * bytes) := [\n")
        f.write(";\n".join("(%s, %s)" % (coq_bytes(a), coq_bytes(b)) for a, b in zip(lines, outputs)))
        f.write("].\n")
        f.write("Definition bad := filter (fun p => negb (bytes_eqb (run_line %s (fst (snd p))) (snd (snd p))))\n"
                "  (combine (map N.of_nat (seq 0 (length cases))) cases).\n" % ("true" if spec else "false"))
        f.write("Eval vm_compute in (map fst bad).\n")
    # a large stack: the parser and the .vo writer recurse over the long byte-list literals
    # time allowed: four minutes (loading the library on a busy machine takes a good part of one) plus 30 s per
    # case, at most 20 minutes; a chunk that needs more is halved by the caller, a single case that needs more than
    # 270 s is left out (and counted)
    limit = min(1200, 240 + 30 * len(lines))
    rc, out = sh("ulimit -s unlimited 2>/dev/null || ulimit -s 1000000 2>/dev/null; "
                 "exec timeout %d coqc -noglob -Q %s WF %s" % (limit, os.path.join(COQ, "theories"), path),
                 cwd=WORK, timeout=limit + 100)
    for ext in (".v", ".vo", ".vok", ".vos", ".glob"):
        try:
            os.remove(os.path.join(WORK, name + ext))
        except OSError:
            pass
    try:
        os.remove(os.path.join(WORK, "." + name + ".aux"))
    except OSError:
        pass
    m = re.search(r"=\s*\[(.*?)\]\s*:\s*list N", out, re.S)
    if not m and rc in (124, 137, -999) and "Error" not in out:
        return "timeout"            # inconclusive: the caller splits the chunk
    if not m or "Error" in out:
        log("vm_compute cross-check chunk failed (rc %s):\n%s" % (rc, out[-2000:]))
        return None
    # the evaluation finished and printed its answer; a non-zero status after that point (writing the .vo of a
    # very large constant) does not affect the answer
    body = m.group(1).strip()
    if not body:
        return []
    return [int(x.strip().replace("%N", "")) for x in body.split(";")]


VM_TIMEOUTS = []     # cases whose vm_compute evaluation did not finish in time (this run)


def vm_crosscheck(lines, outputs, spec=False, tag="x"):
    """Re-evaluates run_line on each case with vm_compute inside coqc and
    compares with the extracted model's answers.  Returns list of bad indices
    (or None if coqc itself failed).  Cases are evaluated in chunks (a separate coqc each)."""
    if not lines:
        return []
    os.makedirs(WORK, exist_ok=True)
    bad = []
    size = 0
    start = 0
    chunk = []
    chunks = []
    for i, (a, b) in enumerate(zip(lines, outputs)):
        chunk.append((a, b))
        size += len(a) + len(b)
        if len(chunk) >= 120 or size > 400000:
            chunks.append((start, chunk))
            start, chunk, size = i + 1, [], 0
    if chunk:
        chunks.append((start, chunk))
    def run(off, ch, tagk):
        """bad indices of the chunk, None when coqc failed; a chunk that runs out of time is halved, a single
        case that does is left out of the cross-check and counted in VM_TIMEOUTS"""
        r = None
        for attempt in range(2):
            r = _vm_crosscheck_chunk([a for a, _ in ch], [b for _, b in ch], spec, tagk)
            if r is not None:
                break
        if r is None:
            return None
        if r == "timeout":
            if len(ch) == 1:
                VM_TIMEOUTS.append(ch[0][0][:200])
                return []
            mid = len(ch) // 2
            a = run(off, ch[:mid], tagk + "a")
            b = run(off + mid, ch[mid:], tagk + "b")
            return None if a is None or b is None else a + b
        return [off + j for j in r]

    for k, (off, ch) in enumerate(chunks):
        r = run(off, ch, "%s_%d" % (tag, k))
        if r is None:
            return None
        bad += r
    return bad


# --------------------------------------------------------------------------
# hygiene and assumptions

FORBIDDEN = re.compile(r"\b(Admitted|admit|Axiom|Axioms|Parameter|Parameters|Conjecture|Conjectures|"
                       r"Unset\s+Guard|bypass_check|type-in-type|impredicative-set|Admit\s+Obligations|"
                       r"native_compute|Unset\s+Universe\s+Checking|Unset\s+Positivity)\b")


def strip_comments(src):
    out = []
    depth = 0
    i = 0
    while i < len(src):
        if src.startswith("(*", i):
            depth += 1
            i += 2
        elif src.startswith("*)", i) and depth > 0:
            depth -= 1
            i += 2
        else:
            if depth == 0:
                out.append(src[i])
            i += 1
    return "".join(out)


def hygiene():
    problems = []
    for p in glob.glob(os.path.join(COQ, "theories", "**", "*.v"), recursive=True):
        src = strip_comments(open(p).read())
        for m in FORBIDDEN.finditer(src):
            problems.append("%s: forbidden '%s'" % (os.path.relpath(p, ROOT), m.group(0)))
        # Variable/Hypothesis outside a section
        depth = 0
        for line in src.split("\n"):
            s = line.strip()
            if re.match(r"Section\s+\w+", s):
                depth += 1
            elif re.match(r"End\s+\w+", s) and depth > 0:
                depth -= 1
            elif depth == 0 and re.match(r"(Variable|Variables|Hypothesis|Hypotheses|Context)\b", s):
                problems.append("%s: '%s' outside a section" % (os.path.relpath(p, ROOT), s[:40]))
    cp = open(os.path.join(COQ, "_CoqProject")).read()
    if "type-in-type" in cp or "impredicative" in cp:
        problems.append("_CoqProject passes a forbidden flag")
    return problems


def theorem_names(prop_file):
    src = strip_comments(open(os.path.join(COQ, prop_file)).read())
    return re.findall(r"^\s*(?:Theorem|Example|Corollary)\s+([A-Za-z0-9_']+)", src, re.M)


def count_obligations(files):
    n = 0
    for f in files:
        src = strip_comments(open(os.path.join(COQ, f)).read())
        n += len(re.findall(r"^\s*(?:Theorem|Lemma|Example|Corollary|Fact|Remark|Proposition)\s+[A-Za-z0-9_']+",
                            src, re.M))
    return n


ALLOWED_AXIOMS = set()  # names of stdlib axioms accepted (documented in DESIGN.md section 7); none so far


def assumptions(prop_id, prop_file):
    """Print Assumptions for every theorem of the property file.  Returns (ok, {name: text})."""
    names = theorem_names(prop_file)
    mod = prop_file.replace("theories/", "").replace(".v", "").replace("/", ".")
    os.makedirs(WORK, exist_ok=True)
    name = "assume_%s_%d" % (prop_id, os.getpid())
    path = os.path.join(WORK, name + ".v")
    with open(path, "w") as f:
        f.write("From WF Require Import %s.\n" % mod)
        for n in names:
            f.write('Print Assumptions %s.\n' % n)
    rc, out = sh(["timeout", "600", "coqc", "-noglob", "-Q", os.path.join(COQ, "theories"), "WF", path],
                 cwd=WORK, timeout=700)
    for ext in (".v", ".vo", ".vok", ".vos", ".glob"):
        try:
            os.remove(os.path.join(WORK, name + ext))
        except OSError:
            pass
    try:
        os.remove(os.path.join(WORK, "." + name + ".aux"))
    except OSError:
        pass
    if rc != 0:
        return False, {"<coqc>": out[-1500:]}
    blocks = re.split(r"(?=Closed under the global context|Axioms:)", out)
    blocks = [b.strip() for b in blocks if b.strip().startswith(("Closed", "Axioms"))]
    res = {}
    ok = len(blocks) == len(names)
    for n, b in zip(names, blocks):
        res[n] = b
        if not b.startswith("Closed under the global context"):
            used = set(re.findall(r"^([A-Za-z0-9_.']+)\s*:", b, re.M))
            if not used <= ALLOWED_AXIOMS:
                ok = False
    return ok, res


def coqchk(modules):
    rc, out = sh(["timeout", "3000", "coqchk", "-silent", "-o", "-Q", os.path.join(COQ, "theories"), "WF"] + modules,
                 cwd=COQ, timeout=3100)
    axioms = re.findall(r"^\*\s*Axioms:\s*(.*?)(?=^\*|\Z)", out, re.M | re.S)
    return rc == 0, out[-3000:]


# --------------------------------------------------------------------------
# known findings, replays, evidence


def load_known():
    p = os.path.join(ROOT, "known_findings.json")
    if os.path.exists(p):
        return json.load(open(p))
    return {"known": [], "fixed": []}


def write_replay(prop_id, obj):
    d = os.path.join(WORK, "override-replays" + os.environ.get("VERIF_LANE", "")) if OVERRIDE else os.path.join(ROOT, "replays")
    os.makedirs(d, exist_ok=True)
    h = hashlib.sha1(json.dumps(obj, sort_keys=True, default=str).encode()).hexdigest()[:10]
    path = os.path.join(d, "%s-%s.json" % (prop_id, h))
    with open(path, "w") as f:
        json.dump(obj, f, indent=1, default=str)
    return path


def write_evidence(prop_id, ev):
    d = os.path.join(WORK, "override-evidence" + os.environ.get("VERIF_LANE", "")) if OVERRIDE else os.path.join(ROOT, "evidence")
    os.makedirs(d, exist_ok=True)
    with open(os.path.join(d, prop_id + ".json"), "w") as f:
        json.dump(ev, f, indent=1, default=str)


def head_of(line):
    return line.strip("()").split(" ")[0]


def shrink_lines(case_line, still_fails, budget=200):
    """Generic delta-debugging on the s-expression: drop list elements while the
    disagreement persists."""
    if len(case_line) > 200000:
        return case_line            # every attempt on such a case costs minutes: it is reported as it is
    try:
        tree = parse_sexp(case_line)
    except Exception:
        return case_line
    best = tree
    tried = 0

    def variants(t):
        if isinstance(t, list):
            for i in range(len(t)):
                if i > 0:  # keep head symbols
                    yield t[:i] + t[i + 1:]
            for i in range(len(t)):
                for v in variants(t[i]):
                    yield t[:i] + [v] + t[i + 1:]
        elif isinstance(t, bytes) and len(t) > 0:
            yield t[:len(t) // 2]
            yield t[1:]
        elif isinstance(t, int) and not isinstance(t, bool) and t not in (0, 1):
            yield 0
            yield t // 2

    progress = True
    while progress and tried < budget:
        progress = False
        for v in variants(best):
            tried += 1
            if tried >= budget:
                break
            line = to_sexp(v)
            try:
                if still_fails(line):
                    best = v
                    progress = True
                    break
            except Exception:
                pass
    return to_sexp(best)


# --------------------------------------------------------------------------
# the generic check flow


def run_property(P, tier, seed):
    """P keys:
       id, prop_file, proof_files (for obligation counting), coq_targets (default: prop file + Extract),
       gen(rng, tier) -> list of case lines (corpus is prepended automatically),
       nontrivial(line) -> bool, rule (text),
       modes: list of dicts {name, env, release} the implementation is run in (default one debug run),
       compare_spec (default True): also run the extracted specification,
       classify(line, impl, model, spec) -> optional known-finding tag,
       vm_sample: (quick, thorough) sizes,
       post(ctx) -> optional extra coverage dict / extra violations
    """
    t0 = time.time()
    pid = P["id"]
    rng = random.Random(seed)
    violations = []      # (what, replay_path, suffix)
    known_hits = {}
    notes = []

    prop_vo = P["prop_file"].replace(".v", ".vo")
    targets = P.get("coq_targets", [prop_vo, "theories/Extract/Extract.vo"])
    ok_coq, coq_log = build_coq(targets)
    broken_obligation = None
    if not ok_coq:
        broken_obligation = "coq build failed for %s:\n%s" % (targets, coq_log[-3000:])
        log(broken_obligation)
        # the previous model binary may still exist; try to build the model alone
        build_coq(["theories/Extract/Extract.vo"])
    hyg = hygiene()
    if hyg:
        broken_obligation = (broken_obligation or "") + "\nhygiene: " + "; ".join(hyg)
    ass_ok, ass = (False, {})
    if ok_coq:
        ass_ok, ass = assumptions(pid, P["prop_file"])
        if not ass_ok:
            broken_obligation = (broken_obligation or "") + "\nassumptions: " + json.dumps(ass)[:2000]
    okm, outm = build_model()
    if not okm:
        log("model build failed:\n" + outm[-3000:])
        print("check broken: model build failed", file=sys.stderr)
        return 2
    okh, outh = build_harness(False)
    if not okh:
        # the harness builds on the pinned tree: if it no longer compiles against /repo's current working tree the
        # correspondence between model and implementation cannot be established any more
        log("harness build failed:\n" + outh[-4000:])
        rec = {"property": pid, "verdict": "the correspondence harness no longer builds against %s: the tie between the "
               "model and the implementation cannot be checked, so the property is no longer shown to hold" % REPO,
               "broken": "correspondence check (harness crate wfh does not compile against the current source)",
               "compiler_output_tail": outh[-3000:]}
        path = write_replay(pid, rec)
        write_evidence(pid, {"property_id": pid, "tier": tier, "seed": seed, "level": "proof",
                             "coverage": {"note": "harness did not build against the current source; no case was run",
                                          "cases": 0},
                             "assumptions": [], "wall_s": round(time.time() - t0, 2), "violations": 1})
        print("VIOLATION property=%s replay=%s no-failing-input-found" % (pid, path))
        return 1
    modes = P.get("modes") or [{"name": "debug", "env": {}, "release": False}]
    if any(m.get("release") for m in modes):
        okr, outr = build_harness(True)
        if not okr:
            log("harness release build failed:\n" + outr[-4000:])
            rec = {"property": pid, "verdict": "the correspondence harness no longer builds (release) against %s" % REPO,
                   "broken": "correspondence check (harness crate wfh, release profile)",
                   "compiler_output_tail": outr[-3000:]}
            path = write_replay(pid, rec)
            print("VIOLATION property=%s replay=%s no-failing-input-found" % (pid, path))
            return 1

    # cases: corpus first, then generated
    corpus = []
    for f in sorted(glob.glob(os.path.join(ROOT, "corpus", pid, "*.txt"))):
        for l in open(f):
            l = l.strip()
            if l and not l.startswith(";"):
                corpus.append(l)
    gen = list(P["gen"](rng, tier))
    lines = corpus + gen
    tgen = time.time()

    model_out = run_model(lines, spec=False)
    spec_out = run_model(lines, spec=True) if P.get("compare_spec", True) else None
    impl_outs = {}
    for m in modes:
        impl_outs[m["name"]] = run_impl(lines, release=m.get("release", False), env=m.get("env"))
    trun = time.time()

    known = [k for k in load_known().get("known", []) if k.get("property") == pid]
    classify = P.get("classify")
    disagreements = []
    _norm = P.get("normalize")
    norm_line = [None]

    def norm(kind, s):
        return _norm(kind, s, norm_line[0]) if _norm else s
    for i, line in enumerate(lines):
        norm_line[0] = line
        mo = norm("model", model_out[i])
        so = norm("spec", spec_out[i]) if spec_out is not None else None
        bad = False
        for mname, outs in impl_outs.items():
            io = norm("impl", outs[i])
            if io != mo or (so is not None and io != so):
                bad = True
        if so is not None and so != mo:
            bad = True
        if mo.startswith("(bad-case") or any(norm("impl", o[i]).startswith("(bad-case") for o in impl_outs.values()):
            bad = True
        if bad:
            disagreements.append(i)

    oracle0 = P.get("property_oracle")
    corr_only = []          # disagreements on which the implementation's own answer still satisfies the property
    if oracle0:
        # search the disagreements for an input on which the property itself fails: those are reported first, with
        # the input as the replay; disagreements the property-level oracle accepts only break the correspondence
        def _viol(i):
            try:
                return any(oracle0(lines[i], v[i]) != "ok" for v in impl_outs.values())
            except Exception:
                return True
        bad_first = [i for i in disagreements if _viol(i)]
        corr_only = [i for i in disagreements if i not in set(bad_first)]
        disagreements = bad_first + corr_only
    for i in disagreements[:200]:
        line = lines[i]
        norm_line[0] = line
        rec = {"property": pid, "case": line, "model": model_out[i],
               "spec": spec_out[i] if spec_out is not None else None,
               "impl": {k: v[i] for k, v in impl_outs.items()}, "seed": seed, "tier": tier, "index": i,
               "rerun": "./check --replay <this file>"}
        tag = classify(line, rec) if classify else None
        kf = None
        if tag:
            for k in known:
                if k.get("tag") == tag:
                    kf = k
        if kf:
            known_hits.setdefault(kf["tag"], kf)
            continue
        # shrink against the same disagreement predicate
        def still(l, _i=i):
            norm_line[0] = l
            mo = norm("model", run_model([l], shards=1)[0])
            so = norm("spec", run_model([l], spec=True, shards=1)[0]) if spec_out is not None else None
            if mo.startswith("(bad-case"):
                return False
            for m in modes:
                io = norm("impl", run_impl([l], release=m.get("release", False), env=m.get("env"), shards=1)[0])
                if io.startswith("(bad-case"):
                    return False
                if head_of(io) != head_of(norm("impl", impl_outs[m["name"]][_i])):
                    return False  # e.g. the shrunk input is now rejected by the parser: a different failure
                if io != mo or (so is not None and io != so):
                    return True
            return so is not None and so != mo
        small = line
        if len(violations) < 3:
            try:
                small = shrink_lines(line, still, budget=P.get("shrink_budget", 120))
            except Exception as ex:  # shrinking is best effort
                notes.append("shrink failed: %r" % ex)
        rec["shrunk_case"] = small
        impl_vs_spec = any(norm("impl", v[i]) != (norm("spec", spec_out[i]) if spec_out is not None else mo)
                           for v in impl_outs.values())
        # a property-level oracle (independent of model and specification run) can tell that the implementation's
        # own answer on this input still satisfies the property: then only the correspondence is broken
        oracle = P.get("property_oracle")
        if impl_vs_spec and oracle:
            verdicts = [oracle(line, v[i]) for v in impl_outs.values()]
            rec["property_oracle"] = verdicts
            if all(x == "ok" for x in verdicts):
                rec["verdict"] = ("the implementation and the model disagree on this input, but the implementation's answer "
                                  "satisfies the property (property-level oracle): correspondence with the model of "
                                  "%s is broken" % P["prop_file"])
                rec["broken"] = "correspondence model/implementation for " + P["prop_file"]
                if any(v[0] != "correspondence" for v in violations):
                    # a failing input was already found and reported; the remaining correspondence-only
                    # disagreements are counted in the evidence notes
                    notes.append("further disagreement accepted by the property-level oracle: case %d" % i)
                    break
                path = write_replay(pid, rec)
                violations.append(("correspondence", path, " no-failing-input-found"))
                break      # one report of the broken correspondence is enough

        if impl_vs_spec:
            rec["verdict"] = "implementation differs from the specification on this input"
            path = write_replay(pid, rec)
            violations.append(("impl!=spec", path, ""))
        else:
            rec["verdict"] = ("model differs from specification/implementation while the implementation agrees with "
                              "the specification: correspondence broken (theorem model=spec or the model is stale)")
            path = write_replay(pid, rec)
            violations.append(("model!=spec", path, " no-failing-input-found"))
        if len(violations) >= 5:
            break

    # vm_compute cross-check of a sample (corpus always)
    q, th = P.get("vm_sample", (150, 1000))
    k = q if tier == "quick" else th
    idx = list(range(len(corpus))) + rng.sample(range(len(corpus), len(lines)), min(k, len(gen)))
    idx = idx[:len(corpus) + k]
    # a case of hundreds of kilobytes is not for coqc's parser: such cases are run by the extracted model only
    idx = [j for j in idx if len(lines[j]) <= 200000]
    vm_bad = None
    if ok_coq or os.path.exists(os.path.join(COQ, "theories/Run/Main.vo")):
        chunks = [idx[i::NCPU] for i in range(NCPU)]
        chunks = [c for c in chunks if c]
        from concurrent.futures import ThreadPoolExecutor
        with ThreadPoolExecutor(max_workers=len(chunks) or 1) as ex:
            rs = list(ex.map(lambda ci: (ci[1], vm_crosscheck([lines[j] for j in ci[1]],
                                                               [model_out[j] for j in ci[1]], False,
                                                               "%s_%d" % (pid, ci[0]))),
                             list(enumerate(chunks))))
        vm_bad = []
        for c, r in rs:
            if r is None:
                vm_bad = None
                break
            vm_bad.extend(c[j] for j in r)
    if VM_TIMEOUTS:
        notes.append("vm_compute cross-check: %d sampled case(s) did not finish within the time limit of a single "
                     "coqc run and were left out of the cross-check (their extracted-model answers are still "
                     "compared with the implementation and the specification)" % len(VM_TIMEOUTS))
    if vm_bad is not None and idx and len(VM_TIMEOUTS) >= len(idx):
        vm_bad = None               # nothing at all could be cross-checked: not a result
    if vm_bad is None:
        notes.append("vm_compute cross-check did not run")
        if not broken_obligation:
            broken_obligation = "vm_compute cross-check could not be evaluated"
    elif vm_bad:
        rec = {"property": pid, "verdict": "extracted OCaml model disagrees with vm_compute evaluation of the model",
               "cases": [lines[j] for j in vm_bad[:5]]}
        path = write_replay(pid, rec)
        violations.append(("extraction", path, " no-failing-input-found"))

    extra_cov = {}
    if P.get("post"):
        r = P["post"]({"lines": lines, "model": model_out, "spec": spec_out, "impl": impl_outs, "tier": tier,
                       "seed": seed, "rng": rng})
        extra_cov = r.get("coverage", {})
        for v in r.get("violations", []):
            violations.append(v)

    if broken_obligation and not violations:
        rec = {"property": pid, "verdict": "proof obligation no longer checks; no failing input was found by "
               "running %d cases on implementation, model and specification" % len(lines),
               "broken": broken_obligation}
        path = write_replay(pid, rec)
        violations.append(("obligation", path, " no-failing-input-found"))

    if tier == "thorough" and ok_coq and P.get("coqchk", True):
        mod = "WF." + P["prop_file"].replace("theories/", "").replace(".v", "").replace("/", ".")
        okc, outc = coqchk([mod])
        notes.append("coqchk: " + ("ok" if okc else "FAILED") + " " + outc[-400:].replace("\n", " | "))
        if not okc:
            rec = {"property": pid, "verdict": "coqchk rejected the compiled property file", "log": outc}
            path = write_replay(pid, rec)
            violations.append(("coqchk", path, " no-failing-input-found"))

    # evidence
    nt = P.get("nontrivial", lambda l: True)
    distinct = set()
    for l in lines:
        if nt(l):
            distinct.add(hashlib.sha1(l.encode()).digest())
    prop_files = [P["prop_file"]] + P.get("proof_files", [])
    nobl = count_obligations(prop_files)
    samples = [{"case": lines[j], "impl": {k: v[j] for k, v in impl_outs.items()}, "model": model_out[j],
                "spec": spec_out[j] if spec_out is not None else None}
               for j in ([0, len(corpus)] + [rng.randrange(len(lines)) for _ in range(4)]) if j < len(lines)]
    cov = {
        "obligations": nobl,
        "discharged": nobl if ok_coq and not hyg and ass_ok else 0,
        "checker_cmd": "cd coq && make %s (coqc 8.16.1, full .vo); coqc Print Assumptions on every theorem of %s"
                       % (" ".join(targets), P["prop_file"]),
        "trusted_base": TRUSTED_BASE + P.get("trusted_extra", []),
        "theorems": theorem_names(P["prop_file"]),
        "print_assumptions": ass,
        "programs": len(lines),
        "disagreements_checked": len(disagreements),
        "evaluations": len(lines) * (len(modes) + 1 + (1 if spec_out is not None else 0)),
        "distinct_nontrivial": len(distinct),
        "rule": P.get("rule", ""),
        "samples": samples,
        "corpus_cases": len(corpus),
        "vm_compute_crosschecked": (len(idx) - len(VM_TIMEOUTS)) if vm_bad is not None else 0,
        "vm_compute_timeouts": len(VM_TIMEOUTS),
        "impl_modes": [m["name"] for m in modes],
        "known_findings_hit": sorted(known_hits.keys()),
        "exhaustive": bool(P.get("exhaustive", False)),
        "notes": notes,
    }
    if P.get("distribution"):
        cov["distribution"] = P["distribution"](lines)
    cov.update(extra_cov)
    ev = {
        "property_id": pid, "tier": tier, "seed": seed, "level": "proof", "coverage": cov,
        "assumptions": P.get("assumptions", []) + ["the correspondence check is differential testing, not proof: "
                                                    "it ties the proved model to /repo on the generated cases only"],
        "wall_s": round(time.time() - t0, 2), "violations": len(violations),
        "timing": {"build_gen_s": round(tgen - t0, 1), "run_s": round(trun - tgen, 1)},
    }
    write_evidence(pid, ev)
    for tag, kf in known_hits.items():
        print("KNOWN-FINDING: property=%s %s" % (pid, kf.get("what", tag)))
    for what, path, suffix in violations:
        print("VIOLATION property=%s replay=%s%s" % (pid, path, suffix))
    return 1 if violations else 0


def replay(path):
    rec = json.load(open(path))
    cases = []
    if "case" in rec:
        cases.append(rec["case"])
    if "shrunk_case" in rec and rec["shrunk_case"] != rec.get("case"):
        cases.append(rec["shrunk_case"])
    cases += rec.get("cases", [])
    if not cases:
        print(json.dumps(rec, indent=1))
        return 0
    build_coq(["theories/Extract/Extract.vo"])
    build_model()
    build_harness(False)
    rc = 0
    for c in cases:
        mo = run_model([c], shards=1)[0]
        so = run_model([c], spec=True, shards=1)[0]
        io = run_impl([c], shards=1)[0]
        print("case : " + c)
        print("impl : " + io)
        print("model: " + mo)
        print("spec : " + so)
        if io != mo or io != so:
            rc = 1
    return rc
