"""Typed generator of schemes, contexts and filters for the language-level
properties (C01, C02, C03, C12, C13, C17, ...), and the renderer from the AST
normal form the parser produces to filter text (with alias and layout choice).

AST (python tuples, same shape as the s-expressions of Run/Lang.v):
  lexpr: ("comb", op, e...) | ("cmp", iexpr, cmpop) | ("paren", e) | ("not", e)
         | ("qi", q, iexpr) | ("ql", q, e)
  iexpr: ("field", n, idx...) | ("call", n, (arg...), idx...)
  idx:   ("a", n) | ("k", bytes) | "each"
  arg:   ("ai", iexpr) | ("lit", rhs) | ("al", lexpr)
  cmpop: "istrue" | ("ord", o, rhs) | ("band", z) | ("contains", b) | ("in-int", (r...))
         | ("in-ip", (item...)) | ("in-bytes", (b...)) | ("inlist", li, name)
  rhs:   ("i", z) | ("s", b) | ("v4", n) | ("v6", n)
Types: "bool" | "bytes" | "int" | "ip" | ("array", t) | ("map", t)
"""
import ipaddress

from vp import to_sexp

I64_MIN, I64_MAX = -(1 << 63), (1 << 63) - 1
PRIMS = ["bool", "bytes", "int", "ip"]


def arr(t):
    return ("array", t)


def mp(t):
    return ("map", t)


# ---------------------------------------------------------------- schemes

RICH_FIELDS = [
    # name, type, optional
    ("num", "int", False), ("onum", "int", True),
    ("str", "bytes", False), ("ostr", "bytes", True),
    ("ip.src", "ip", False), ("oip", "ip", True),
    ("tt", "bool", False), ("otf", "bool", True),
    ("nums", arr("int"), True), ("strs", arr("bytes"), False), ("bools", arr("bool"), True),
    ("ips", arr("ip"), True),
    ("grid", arr(arr("bool")), True), ("words", arr(arr("bytes")), True),
    ("hdr", mp("bytes"), True), ("cnt", mp("int"), False), ("flags", mp("bool"), True),
    ("hdrs", mp(arr("bytes")), True), ("rows", arr(mp("bytes")), True),
    ("deep", mp(mp(arr("int"))), True), ("cube", arr(arr(arr("int"))), True),
    ("mgrid", mp(arr("bool")), True),
    ("aaab", arr(arr(arr("bool"))), True), ("maab", mp(arr(arr("bool"))), True),
]

RICH_FNS = [
    ("echo", "echo"), ("lower", "lower"), ("len", "len"), ("echo_int", "echo_int"), ("echo_ip", "echo_ip"),
    ("nonempty", "nonempty"), ("show", "show"), ("lit_only", "lit_only"), ("echo_ab", "echo_ab"),
    ("echo_mb", "echo_mb"), ("echo_b", "echo_b"), ("count", "count"), ("join2", "join2"), ("concat", "concat"),
    ("tally", "tally"), ("tally0", "tally0"), ("tagb", "tagb"),
]

# library signatures: params [(kind, ty)], opts [(kind, default value)], ret (None: type of first arg)
LIB = {
    "echo": ([("field", "bytes")], [], "bytes"),
    "lower": ([("field", "bytes")], [], "bytes"),
    "len": ([("field", "bytes")], [], "int"),
    "echo_int": ([("both", "int")], [], "int"),
    "echo_ip": ([("both", "ip")], [], "ip"),
    "nonempty": ([("field", "bytes")], [], "bytes"),
    "show": ([("field", "bytes")], [("literal", ("i", 10)), ("both", ("s", b"d"))], "bytes"),
    "lit_only": ([("literal", "int")], [], "int"),
    "echo_ab": ([("field", arr("bool"))], [], arr("bool")),
    "echo_mb": ([("field", mp("bool"))], [], mp("bool")),
    "echo_b": ([("field", "bool")], [], "bool"),
    "tagb": ([("field", "bool")], [], "bytes"),
    "count": ([("field", arr("bytes"))], [], "int"),
    "join2": ([("field", "bytes"), ("both", "bytes")], [], "bytes"),
    "boom": ([("field", "bytes")], [], "bytes"),
    "tally": ([("field", "bytes"), ("both", "int")], [], "bytes"),
    "tally0": ([], [], "bytes"),
    "concat": None,
}


class Scheme:
    def __init__(self, fields, fns=(), lists=(), nil_ne=True):
        self.fields = list(fields)
        self.fns = list(fns)
        self.lists = list(lists)
        self.nil_ne = nil_ne

    def sexp(self):
        return ("scheme",
                ("fields",) + tuple((n.encode(), t, o) for n, t, o in self.fields),
                ("fns",) + tuple((n.encode(), lib) for n, lib in self.fns),
                ("lists",) + tuple((t, k) for t, k in self.lists),
                self.nil_ne)

    def field_index(self, name):
        for i, f in enumerate(self.fields):
            if f[0] == name:
                return i
        raise KeyError(name)

    def fn_index(self, name):
        for i, f in enumerate(self.fns):
            if f[0] == name:
                return i
        raise KeyError(name)

    def list_index(self, ty):
        for i, (t, _) in enumerate(self.lists):
            if t == ty:
                return i
        return None


def rich_scheme(nil_ne=True, lists=(("int", "set"), ("bytes", "set"), ("ip", "always"))):
    return Scheme(RICH_FIELDS, RICH_FNS, lists, nil_ne)


# ---------------------------------------------------------------- values

INT_POOL = [I64_MIN, I64_MIN + 1, -1, 0, 1, 2, 7, 255, 256, I64_MAX - 1, I64_MAX]
BYTES_POOL = [b"", b"a", b"A", b"ab", b"abc", b"abd", b"b", b"\x00", b"\xff", b"\xff\xfe", b"a\x00b",
              "é".encode(), b"hello world", b"Hello", b"x" * 17, b"abcabcabd"]
V4_POOL = [0, 1, 0x0A000001, 0x7F000001, 0xC0A80001, 0xFFFFFFFE, 0xFFFFFFFF]
# three of the eight are IPv4-mapped (::ffff:a.b.c.d): the addresses a "canonicalising" conversion would change
V6_POOL = [0, 1, 0xFFFF00000000 | 0x0A000001, 0xFFFF00000000, 0xFFFF00000000 | 0xFFFFFFFF, 1 << 64,
           (0x20010DB8 << 96) | 1, (1 << 128) - 1]
KEY_POOL = [b"", b"a", b"b", b"host", b"Host", "é".encode(), b"k1", b"k2"]
# patterns for the "regex" feature: no '"' inside a class, no trailing backslash, ASCII only (the
# model's regex subset, see C11)
REGEX_POOL = [b"a", b"a.b", b"^ab+c$", b"[a-c]+x", b"a|bc", b"(ab)*c", b"a\\d", b"\\x41", b"e+", b"", b"a\"b", b"[^x]y?"]
WILDCARD_POOL = [b"a*", b"*", b"", b"a*b*c", b"A\\*B", b"?x*", "é*".encode(), b"ab", b"\\\\*", b"\xffa*"]


def gen_prim(rng, t):
    if t == "bool":
        return ("b", rng.random() < 0.5)
    if t == "int":
        return ("i", rng.choice(INT_POOL) if rng.random() < 0.8 else rng.randrange(I64_MIN, I64_MAX + 1))
    if t == "bytes":
        if rng.random() < 0.8:
            return ("s", rng.choice(BYTES_POOL))
        return ("s", bytes(rng.randrange(256) for _ in range(rng.randrange(0, 9))))
    if t == "ip":
        if rng.random() < 0.55:
            return ("v4", rng.choice(V4_POOL) if rng.random() < 0.8 else rng.randrange(0, 1 << 32))
        return ("v6", rng.choice(V6_POOL) if rng.random() < 0.8 else rng.randrange(0, 1 << 128))
    raise ValueError(t)


def gen_value(rng, t, depth=0):
    if isinstance(t, str):
        return gen_prim(rng, t)
    kind, elt = t
    n = rng.choice([0, 1, 1, 2, 3, 4]) if depth < 2 else rng.choice([0, 1, 2])
    if kind == "array":
        return ("arr", elt) + tuple(gen_value(rng, elt, depth + 1) for _ in range(n))
    keys = sorted(set(rng.choice(KEY_POOL) for _ in range(n)))
    return ("map", elt) + tuple((k, gen_value(rng, elt, depth + 1)) for k in keys)


def gen_ctx(rng, sch, matchers=None, p_absent=0.3):
    vals = []
    for name, t, opt in sch.fields:
        if opt and rng.random() < p_absent:
            vals.append(None)
        else:
            vals.append(gen_value(rng, t))
    return make_ctx(sch, vals, matchers if matchers is not None else gen_matchers(rng, sch))


def gen_matchers(rng, sch):
    ms = []
    for t, k in sch.lists:
        if k == "always":
            ms.append("always")
        elif k == "never":
            ms.append("never")
        else:
            sets = []
            for name in [b"l1", b"l2.x", b"empty_1"]:
                if name == b"empty_1":
                    sets.append((name,))
                else:
                    sets.append((name,) + tuple(gen_prim(rng, t) for _ in range(rng.randrange(0, 6))))
            ms.append(("set",) + tuple(sets))
    return ms


def make_ctx(sch, vals, matchers):
    return ("ctx", ("vals",) + tuple(vals), ("lists",) + tuple(matchers))


# ---------------------------------------------------------------- literal rendering (canonical forms; C06 covers the others)

def is_utf8(b):
    try:
        b.decode("utf-8")
        return True
    except UnicodeDecodeError:
        return False


def render_quoted(b, rng=None):
    """quoted form; with an rng the escape style varies per byte (\\xHH, \\OOO, literal)"""
    out = '"'
    text_ok = is_utf8(b)
    i = 0
    while i < len(b):
        c = b[i]
        style = rng.random() if rng is not None else 0.0
        if c == 0x22:
            out += '\\"' if style < 0.8 else "\\x22"
        elif c == 0x5C:
            out += "\\\\" if style < 0.8 else "\\134"
        elif 0x20 <= c < 0x7F:
            out += chr(c) if style < 0.85 else ("\\x%02x" % c if style < 0.93 else "\\%03o" % c)
        elif c >= 0xC2 and text_ok and rng is not None and style < 0.5:
            # a whole multi-byte character written literally
            n = 2 if c < 0xE0 else 3 if c < 0xF0 else 4
            out += b[i:i + n].decode("utf-8")
            i += n
            continue
        else:
            out += "\\x%02X" % c if style < 0.5 else ("\\x%02x" % c if style < 0.8 else "\\%03o" % c)
        i += 1
    return out + '"'


def raw_ok(b, n):
    """can b be written as a raw string with n hashes?"""
    if not is_utf8(b):
        return False
    needle = b'"' + b"#" * n
    return needle not in b


def render_bytes(b, fmt=None, rng=None):
    if fmt is None:
        return render_quoted(b, rng)
    if fmt == "byte":
        seps = [":", "-", "."]
        out = "%02x" % b[0] if rng is None or rng.random() < 0.5 else "%02X" % b[0]
        for c in b[1:]:
            out += (seps[0] if rng is None else rng.choice(seps)) + ("%02x" % c if rng is None or rng.random() < 0.5 else "%02X" % c)
        return out
    n = fmt[1]
    return "r" + "#" * n + '"' + b.decode("utf-8") + '"' + "#" * n


def choose_fmt(rng, b, allow_byte=True):
    """a format in which b can be written: None (quoted), "byte", ("raw", n)"""
    r = rng.random()
    if r < 0.5:
        return None
    if r < 0.7 and allow_byte and len(b) >= 2:
        return "byte"
    n = rng.choice([0, 0, 1, 2, 3])
    if raw_ok(b, n):
        return ("raw", n)
    return None


def lit_bytes(rng, b, allow_byte=True):
    f = choose_fmt(rng, b, allow_byte)
    return ("s", b) if f is None else ("s", b, f)


def render_ip(tag, n):
    if tag == "v4":
        return str(ipaddress.IPv4Address(n))
    return str(ipaddress.IPv6Address(n))


def render_rhs(r, rng=None):
    tag, v = r[0], r[1]
    if tag == "i":
        return str(v)
    if tag == "s":
        return render_bytes(v, r[2] if len(r) > 2 else None, rng)
    return render_ip(tag, v)


ALIASES = {
    "or": ["or", "||"], "xor": ["xor", "^^"], "and": ["and", "&&"], "not": ["not", "!"],
    "eq": ["eq", "=="], "ne": ["ne", "!="], "ge": ["ge", ">="], "le": ["le", "<="], "gt": ["gt", ">"],
    "lt": ["lt", "<"], "band": ["bitwise_and", "&"], "matches": ["matches", "~"],
}


class Layout:
    """Chooses aliases and white space.  rng=None: canonical (first alias, single spaces)."""

    def __init__(self, rng=None):
        self.rng = rng

    def alias(self, op):
        al = ALIASES[op]
        return al[0] if self.rng is None else self.rng.choice(al)

    def sp(self):
        """mandatory separation"""
        if self.rng is None:
            return " "
        return self.rng.choice([" ", " ", "  ", "\n", " \r\n ", "\r"])

    def wsp(self):
        """after a word operator: the lexer asks for no word boundary there, so none is a legal layout"""
        if self.rng is not None and self.rng.random() < 0.12:
            return ""
        return self.sp()

    def osp(self):
        """optional separation"""
        if self.rng is None:
            return ""
        return self.rng.choice(["", "", " ", "\n", "  "])


def render_index(i, lay):
    if i == "each":
        return "[" + lay.osp() + "*" + lay.osp() + "]"
    if i[0] == "a":
        return "[" + lay.osp() + str(i[1]) + lay.osp() + "]"
    return "[" + lay.osp() + render_bytes(i[1]) + lay.osp() + "]"


def render_iexpr(sch, e, lay):
    if e[0] == "field":
        return sch.fields[e[1]][0] + "".join(render_index(i, lay) for i in e[2:])
    name = sch.fns[e[1]][0]
    args = e[2]
    s = name + lay.osp() + "(" + lay.osp()
    s += (lay.osp() + "," + lay.osp()).join(render_arg(sch, a, lay) for a in args)
    s += lay.osp() + ")"
    return s + "".join(render_index(i, lay) for i in e[3:])


def render_arg(sch, a, lay):
    if a[0] == "ai":
        return render_iexpr(sch, a[1], lay)
    if a[0] == "lit":
        return render_rhs(a[1], lay.rng)
    return render_lexpr(sch, a[1], lay)


def is_word(tok):
    return tok[0].isalpha()


def render_cmp(sch, lhs, op, lay):
    l = render_iexpr(sch, lhs, lay)
    if op == "istrue":
        return l
    kind = op[0]
    if kind == "ord":
        o = lay.alias(op[1])
        # symbolic operators need no separation; word operators do
        pre = lay.sp() if is_word(o) else lay.osp()
        post = lay.wsp() if is_word(o) else lay.osp()
        return l + pre + o + post + render_rhs(op[2], lay.rng)
    if kind == "band":
        o = lay.alias("band")
        pre = lay.sp() if is_word(o) else lay.osp()
        post = lay.wsp() if is_word(o) else lay.osp()
        return l + pre + o + post + str(op[1])
    if kind == "contains":
        return l + lay.sp() + "contains" + lay.wsp() + render_bytes(op[1], op[2] if len(op) > 2 else None, lay.rng)
    if kind == "in-int":
        items = [(str(a) if a == b else "%d..%d" % (a, b)) for a, b in op[1]]
        return l + lay.sp() + "in" + lay.wsp() + "{" + lay.osp() + lay.sp().join(items) + lay.osp() + "}"
    if kind == "in-bytes":
        items = [render_bytes(b, None, lay.rng) if isinstance(b, bytes) else render_bytes(b[0], b[1], lay.rng)
                 for b in op[1]]
        return l + lay.sp() + "in" + lay.wsp() + "{" + lay.osp() + lay.sp().join(items) + lay.osp() + "}"
    if kind == "in-ip":
        items = []
        for it in op[1]:
            k, a, b = it
            if k in ("r4", "r6"):
                t = "v4" if k == "r4" else "v6"
                items.append(render_ip(t, a) + ".." + render_ip(t, b))
            else:
                t = "v4" if k == "c4" else "v6"
                host = (k == "c4" and b == 32) or (k == "c6" and b == 128)
                # a single address is a host CIDR block
                if host and (lay.rng is None or lay.rng.random() < 0.5):
                    items.append(render_ip(t, a))
                else:
                    items.append(render_ip(t, a) + "/" + str(b))
        return l + lay.sp() + "in" + lay.wsp() + "{" + lay.osp() + lay.sp().join(items) + lay.osp() + "}"
    if kind == "inlist":
        return l + lay.sp() + "in" + lay.wsp() + "$" + op[2].decode()
    if kind == "matches":
        # ("matches", pattern[, ("raw", n)]): a quoted regex literal only un-escapes \" (outside a class)
        o = lay.alias("matches")
        pre = lay.sp() if is_word(o) else lay.osp()
        post = lay.wsp() if is_word(o) else lay.osp()
        pat = op[1].decode("utf-8")
        if len(op) > 2:
            n = op[2][1]
            lit = "r" + "#" * n + '"' + pat + '"' + "#" * n
        else:
            lit = '"' + pat.replace('"', '\\"') + '"'
        return l + pre + o + post + lit
    if kind == "wildcard":
        # ("wildcard", strict, pattern[, fmt])
        word = "strict wildcard" if op[1] else "wildcard"
        return l + lay.sp() + word + lay.wsp() + render_bytes(op[2], op[3] if len(op) > 3 else None, lay.rng)
    raise ValueError(op)


def render_lexpr(sch, e, lay):
    k = e[0]
    if k == "comb":
        o = e[1]
        parts = [render_lexpr(sch, x, lay) for x in e[2:]]
        out = parts[0]
        for p in parts[1:]:
            a = lay.alias(o)
            if is_word(a):
                out += lay.sp() + a + lay.wsp() + p
            else:
                out += lay.osp() + a + lay.osp() + p
        return out
    if k == "cmp":
        return render_cmp(sch, e[1], e[2], lay)
    if k == "paren":
        return "(" + lay.osp() + render_lexpr(sch, e[1], lay) + lay.osp() + ")"
    if k == "not":
        a = lay.alias("not")
        inner = render_lexpr(sch, e[1], lay)
        return a + (lay.wsp() if is_word(a) else lay.osp()) + inner
    if k == "qi":
        return e[1] + lay.osp() + "(" + lay.osp() + render_iexpr(sch, e[2], lay) + lay.osp() + ")"
    if k == "ql":
        return e[1] + lay.osp() + "(" + lay.osp() + render_lexpr(sch, e[2], lay) + lay.osp() + ")"
    raise ValueError(e)


# ---------------------------------------------------------------- typed AST generation

def rhs_type(r):
    return {"i": "int", "s": "bytes", "v4": "ip", "v6": "ip"}[r[0]]


def ty_index(t, idx):
    for i in idx:
        if isinstance(t, str):
            return None
        kind, elt = t
        if i == "each" or (i[0] == "a" and kind == "array") or (i[0] == "k" and kind == "map"):
            t = elt
        else:
            return None
    return t


class Gen:
    """features: set of {"index", "each", "call", "quant", "inlist", "oneof", "vec"}"""

    def __init__(self, rng, sch, features=(), max_depth=3):
        self.rng = rng
        self.sch = sch
        self.f = set(features)
        self.max_depth = max_depth

    # ---- paths
    def paths_to(self, want_prim=None, allow_each=False, want_ty=None, tries=40):
        """random (field index, idx list, final type, each_count) with the requested final type"""
        rng = self.rng
        for _ in range(tries):
            fi = rng.randrange(len(self.sch.fields))
            name, t, opt = self.sch.fields[fi]
            idx = []
            n_each = 0
            while not isinstance(t, str):
                if want_ty is not None and t == want_ty and rng.random() < 0.7:
                    break
                if "index" not in self.f and "each" not in self.f:
                    break
                kind, elt = t
                r = rng.random()
                if allow_each and "each" in self.f and r < 0.45:
                    idx.append("each")
                    n_each += 1
                elif "index" in self.f:
                    if kind == "array":
                        idx.append(("a", rng.choice([0, 0, 1, 2, 3, 5, (1 << 32) - 1])))
                    else:
                        idx.append(("k", rng.choice(KEY_POOL)))
                else:
                    break
                t = elt
            if want_ty is not None:
                if t == want_ty:
                    return fi, idx, t, n_each
            elif want_prim is None or t == want_prim:
                if isinstance(t, str):
                    return fi, idx, t, n_each
        return None

    # ---- general value sources: field paths and function calls
    def index_further(self, t, allow_each, force_prim=False):
        """extend a path from type t; returns (idx, final type, n_each)"""
        rng = self.rng
        idx = []
        n_each = 0
        while not isinstance(t, str):
            if not force_prim and rng.random() < 0.35:
                break
            if "index" not in self.f and "each" not in self.f:
                break
            kind, elt = t
            if allow_each and "each" in self.f and rng.random() < 0.45:
                idx.append("each")
                n_each += 1
            elif "index" in self.f:
                idx.append(("a", rng.choice([0, 0, 1, 2, 3, 5, (1 << 32) - 1])) if kind == "array"
                           else ("k", rng.choice(KEY_POOL)))
            else:
                break
            t = elt
        return idx, t, n_each

    def gen_arg_for(self, kind, t, depth, mapped=False):
        """an argument expression for a parameter of kind/type; mapped: may use [*] (first argument only).
        returns (arg, used_each)"""
        rng = self.rng
        if kind in ("literal", "both") and isinstance(t, str) and t != "bool" and (kind == "literal" or rng.random() < 0.3):
            return ("lit", gen_prim(rng, t)), False
        if kind == "literal":
            return None
        if t == "bool" and rng.random() < 0.5:
            e = self.gen_logical(False, depth + 1)
            if e and arg_logical_ok(e) and not (e[0] == "cmp" and e[2] == "istrue"):
                return ("al", e), False
        if t == arr("bool") and rng.random() < 0.5 and "vec" in self.f:
            e = self.gen_logical(True, depth + 1)
            if e and arg_logical_ok(e) and not (e[0] == "cmp" and e[2] == "istrue"):
                return ("al", e), False
        for _ in range(4):
            r = self.gen_iexpr(lambda x: x == t, mapped, depth + 1)
            if r:
                ie, _, n_each = r
                if n_each > 0 and not mapped:
                    continue
                return ("ai", ie), n_each > 0
        return None

    def gen_call(self, depth):
        """returns (call iexpr without trailing idx, result type) or None"""
        rng = self.rng
        if not self.sch.fns:
            return None
        fi = rng.randrange(len(self.sch.fns))
        name, lib = self.sch.fns[fi]
        sig = LIB[lib]
        args = []
        mapped = False
        if sig is None:  # concat: >= 2 arguments of one type (Bytes or an array type)
            t = rng.choice(["bytes", "bytes", arr("bytes"), arr("int"), arr("bool")])
            n = rng.choice([2, 2, 3, 4])
            for i in range(n):
                a = self.gen_arg_for("both" if isinstance(t, str) else "field", t, depth, mapped=False)
                if a is None:
                    return None
                args.append(a[0])
            ret = t
        else:
            params, opts, ret = sig
            nopt = rng.randrange(0, len(opts) + 1)
            plist = list(params) + [(k, rhs_type(d)) for k, d in opts[:nopt]]
            for i, (kind, t) in enumerate(plist):
                a = self.gen_arg_for(kind, t, depth, mapped=(i == 0 and "each" in self.f and rng.random() < 0.4))
                if a is None:
                    return None
                args.append(a[0])
                if i == 0 and a[1]:
                    mapped = True
        rt = arr(ret) if mapped else ret
        return ("call", fi, tuple(args)), rt

    def gen_iexpr(self, pred, allow_each, depth=0, tries=None):
        """an index expression whose final type satisfies pred; returns (iexpr, type, n_each)"""
        rng = self.rng
        tries = tries or (25 if depth == 0 else 6)
        for _ in range(tries):
            if "call" in self.f and depth < self.max_depth and rng.random() < 0.35:
                c = self.gen_call(depth)
                if not c:
                    continue
                base, t0 = c
            else:
                fi = rng.randrange(len(self.sch.fields))
                base, t0 = ("field", fi), self.sch.fields[fi][1]
            idx, t, n_each = self.index_further(t0, allow_each)
            if pred(t):
                return base + tuple(idx), t, n_each
            # try to reach a primitive
            idx2, t2, n2 = self.index_further(t, allow_each, force_prim=True)
            if pred(t2):
                return base + tuple(idx) + tuple(idx2), t2, n_each + n2
        return None

    # ---- comparison operators for a primitive type
    def gen_op(self, t):
        rng = self.rng
        if t == "bool":
            return "istrue"
        ords = ["eq", "ne", "ge", "le", "gt", "lt"]
        r = rng.random()
        if t == "int":
            if r < 0.6:
                return ("ord", rng.choice(ords), gen_prim(rng, "int"))
            if r < 0.75:
                return ("band", gen_prim(rng, "int")[1])
            if "oneof" in self.f and r < 0.9:
                n = rng.randrange(0, 5)
                items = []
                for _ in range(n):
                    a, b = gen_prim(rng, "int")[1], gen_prim(rng, "int")[1]
                    if rng.random() < 0.4:
                        b = a
                    items.append((min(a, b), max(a, b)))
                return ("in-int", tuple(items))
            if "inlist" in self.f and self.sch.list_index("int") is not None:
                return ("inlist", self.sch.list_index("int"), rng.choice([b"l1", b"l2.x", b"empty_1", b"nope"]))
            return ("ord", rng.choice(ords), gen_prim(rng, "int"))
        if t == "bytes":
            if r < 0.55:
                return ("ord", rng.choice(ords), lit_bytes(rng, gen_prim(rng, "bytes")[1]))
            if r < 0.75:
                b = rng.choice([b"", b"a", b"ab", b"abc", b"bc", b"\xff", b"ca", b"abcabd", b"x" * 17, b"lo wo"])
                return ("contains",) + lit_bytes(rng, b)[1:]
            if "oneof" in self.f and r < 0.9:
                items = []
                for _ in range(rng.randrange(0, 5)):
                    l = lit_bytes(rng, gen_prim(rng, "bytes")[1])
                    items.append(l[1] if len(l) == 2 else (l[1], l[2]))
                return ("in-bytes", tuple(items))
            if "inlist" in self.f and self.sch.list_index("bytes") is not None and ("regex" not in self.f or r < 0.95):
                return ("inlist", self.sch.list_index("bytes"), rng.choice([b"l1", b"l2.x", b"empty_1", b"nope"]))
            if "regex" in self.f:
                # matches / wildcard / strict wildcard (feature "regex", used by C07)
                if rng.random() < 0.5:
                    pat = rng.choice(REGEX_POOL)
                    n = rng.choice([None, None, 0, 1, 2])
                    if n is not None and raw_ok(pat, n):
                        return ("matches", pat, ("raw", n))
                    return ("matches", pat)
                pat = rng.choice(WILDCARD_POOL)
                f = choose_fmt(rng, pat, allow_byte=False)
                return ("wildcard", rng.random() < 0.4, pat) + (() if f is None else (f,))
            return ("ord", rng.choice(ords), lit_bytes(rng, gen_prim(rng, "bytes")[1]))
        if t == "ip":
            if r < 0.7:
                return ("ord", rng.choice(ords), gen_prim(rng, "ip"))
            if "oneof" in self.f and r < 0.9:
                items = []
                for _ in range(rng.randrange(0, 4)):
                    if rng.random() < 0.5:
                        a, b = rng.choice(V4_POOL), rng.choice(V4_POOL)
                        if rng.random() < 0.5:
                            items.append(("r4", min(a, b), max(a, b)))
                        else:
                            n = rng.choice([0, 8, 16, 24, 31, 32])
                            items.append(("c4", (a >> (32 - n)) << (32 - n), n))
                    else:
                        a, b = rng.choice(V6_POOL), rng.choice(V6_POOL)
                        if rng.random() < 0.5:
                            items.append(("r6", min(a, b), max(a, b)))
                        else:
                            n = rng.choice([0, 8, 64, 96, 127, 128])
                            items.append(("c6", (a >> (128 - n)) << (128 - n), n))
                return ("in-ip", tuple(items))
            if "inlist" in self.f and self.sch.list_index("ip") is not None:
                return ("inlist", self.sch.list_index("ip"), rng.choice([b"l1", b"any"]))
            return ("ord", rng.choice(ords), gen_prim(rng, "ip"))
        raise ValueError(t)

    # ---- simple expressions (comparison / paren / not / quantifier)
    def gen_cmp(self, vec, depth=0):
        """a comparison of type Bool (vec=False) or Array(Bool) (vec=True)"""
        rng = self.rng
        for _ in range(30):
            if vec and rng.random() < 0.2:
                # bare container of booleans
                p = self.paths_to(want_ty=rng.choice([arr("bool"), mp("bool")] if "mapbool" in self.f else [arr("bool")]))
                if p and p[3] == 0:
                    return ("cmp", ("field", p[0]) + tuple(p[1]), "istrue")
                continue
            if "call" in self.f:
                want = rng.choice(PRIMS)
                r = self.gen_iexpr(lambda x: x == want, vec, depth)
                if not r:
                    continue
                ie, t, n_each = r
                if vec != (n_each > 0):
                    continue
                return ("cmp", ie, self.gen_op(t))
            p = self.paths_to(want_prim=rng.choice(PRIMS), allow_each=vec)
            if not p:
                continue
            fi, idx, t, n_each = p
            if vec != (n_each > 0):
                continue
            return ("cmp", ("field", fi) + tuple(idx), self.gen_op(t))
        return None

    def gen_simple(self, vec, depth):
        rng = self.rng
        r = rng.random()
        if depth < self.max_depth:
            if r < 0.15:
                inner = self.gen_logical(vec, depth + 1)
                if inner:
                    return ("paren", inner)
            elif r < 0.3:
                inner = self.gen_simple(vec, depth + 1)
                if inner:
                    return ("not", inner)
            elif r < 0.45 and not vec and "quant" in self.f:
                q = rng.choice(["any", "all"])
                if rng.random() < 0.3:
                    p = self.paths_to(want_ty=arr("bool"))
                    if p and p[3] == 0:
                        return ("qi", q, ("field", p[0]) + tuple(p[1]))
                inner = self.gen_logical(True, depth + 1)
                if inner and arg_logical_ok(inner):
                    if inner[0] == "cmp" and inner[2] == "istrue":
                        # `any(x)` with a bare value is an index-expression argument
                        if "each" in inner[1]:
                            return self.gen_cmp(vec, depth)
                        if inner[1][0] == "field" and ty_index(self.sch.fields[inner[1][1]][1], inner[1][2:]) == arr("bool"):
                            return ("qi", q, inner[1])
                        # a bare Map(Bool) (or a call result) is only a boolean array once parenthesised
                        return ("ql", q, ("paren", inner))
                    return ("ql", q, inner)
        return self.gen_cmp(vec, depth)

    def gen_logical(self, vec, depth=0):
        """expression in the parser's normal form: or-list of xor-lists of and-lists of simples"""
        rng = self.rng

        def and_list():
            n = rng.choice([1, 1, 1, 2, 2, 3])
            items = [self.gen_simple(vec, depth) for _ in range(n)]
            if any(x is None for x in items):
                return None
            return items[0] if n == 1 else ("comb", "and") + tuple(items)

        def xor_list():
            n = rng.choice([1, 1, 1, 1, 2, 3])
            items = [and_list() for _ in range(n)]
            if any(x is None for x in items):
                return None
            return items[0] if n == 1 else ("comb", "xor") + tuple(items)

        n = rng.choice([1, 1, 1, 2, 2, 3])
        items = [xor_list() for _ in range(n)]
        if any(x is None for x in items):
            return None
        return items[0] if n == 1 else ("comb", "or") + tuple(items)

    def gen_filter(self):
        for _ in range(50):
            e = self.gen_logical(False, 0)
            if e is not None:
                return e
        raise RuntimeError("could not generate a filter")


def leftmost_simple(e):
    while e[0] == "comb":
        e = e[2]
    return e


def arg_logical_ok(e):
    """A logical expression used as an argument of any()/all()/a function is parsed as a whole only if it is a
    single comparison or starts with '(' / not / a quantifier (FunctionCallArgExpr::lex_with)."""
    if e[0] == "cmp":
        return True
    return leftmost_simple(e)[0] in ("paren", "not", "ql", "qi")


def count_nodes(e, kinds):
    if not isinstance(e, tuple):
        return 0
    n = 1 if (e and e[0] in kinds) else 0
    for x in e[1:]:
        n += count_nodes(x, kinds)
    return n


def exec_case(sch, ast, ctxs, lay=None, kind="exec"):
    text = (render_lexpr if kind == "exec" else render_iexpr)(sch, ast, lay or Layout())
    return to_sexp((kind, sch.sexp(), text.encode(), ast) + tuple(ctxs)), text


# ---------------------------------------------------------------- shrinking on the AST

def ast_variants(e):
    """smaller variants of an AST node (same syntactic category)"""
    if not isinstance(e, tuple) or not e:
        return
    k = e[0]
    if k == "comb":
        items = e[2:]
        for i in range(len(items)):
            yield items[i]
        if len(items) > 2:
            for i in range(len(items)):
                yield e[:2] + items[:i] + items[i + 1:]
        for i in range(len(items)):
            for v in ast_variants(items[i]):
                yield e[:2] + items[:i] + (v,) + items[i + 1:]
    elif k in ("paren", "not"):
        yield e[1]
        for v in ast_variants(e[1]):
            yield (k, v)
    elif k == "ql":
        for v in ast_variants(e[2]):
            yield (k, e[1], v)
    elif k == "qi":
        for v in ast_variants(e[2]):
            yield (k, e[1], v)
    elif k == "cmp":
        for v in ast_variants(e[1]):
            yield (k, v, e[2])
        op = e[2]
        if isinstance(op, tuple) and op[0] in ("in-int", "in-ip", "in-bytes") and len(op[1]) > 0:
            for i in range(len(op[1])):
                yield (k, e[1], (op[0], op[1][:i] + op[1][i + 1:]))
    elif k == "field":
        idx = e[2:]
        for i in range(len(idx)):
            yield e[:2] + idx[:i] + idx[i + 1:]
    elif k == "call":
        args = e[2]
        idx = e[3:]
        for i in range(len(idx)):
            yield e[:3] + idx[:i] + idx[i + 1:]
        for i in range(len(args)):
            a = args[i]
            if a[0] == "ai":
                yield a[1]  # the argument itself replaces the call
                for v in ast_variants(a[1]):
                    yield e[:2] + (args[:i] + (("ai", v),) + args[i + 1:],) + idx
            elif a[0] == "al":
                for v in ast_variants(a[1]):
                    yield e[:2] + (args[:i] + (("al", v),) + args[i + 1:],) + idx


def shrink_ast(ast, fails, budget=300):
    best = ast
    tried = 0
    progress = True
    while progress and tried < budget:
        progress = False
        for v in ast_variants(best):
            tried += 1
            if tried >= budget:
                break
            try:
                if fails(v):
                    best = v
                    progress = True
                    break
            except Exception:
                pass
    return best
