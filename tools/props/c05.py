"""C05 — parsing is total: any input yields an AST or a well-formed error, never a crash."""
import langgen as lg
from props.c13 import parse_case

ALPHABET = list(" \n\r\t()[]{}\"\\*$#,.:-+&|!~<>=/_") + list("0123456789abcdefxyzrANDornotinallanyXé€𝄞")
TOKENS = ["and", "or", "xor", "not", "&&", "||", "^^", "!", "==", "!=", "<", "<=", ">", ">=", "eq", "ne", "lt", "le",
          "gt", "ge", "&", "bitwise_and", "contains", "matches", "~", "wildcard", "strict wildcard", "in", "{", "}",
          "(", ")", "[", "]", "[*]", ",", "$", "$l1", "any", "all", "num", "str", "ip.src", "tt", "bools", "strs",
          "hdr", "grid", "echo", "lower", "len", "concat", "show", "1", "-1", "0x1F", "017", "1..5", "\"a\"", "\"\\x41\"",
          "r\"a\"", "r#\"a\"#", "01:02", "1.2.3.4", "::1", "10.0.0.0/8", "1.2.3.4..1.2.3.9", "\"", "r#\"", "\\", " ", "\n"]


def mutate_text(rng, b):
    b = bytearray(b)
    for _ in range(rng.choice([1, 1, 1, 2, 3])):
        if not b:
            break
        k = rng.randrange(6)
        i = rng.randrange(len(b))
        ch = rng.choice(ALPHABET).encode()
        if k == 0:
            del b[i]
        elif k == 1:
            b[i:i] = ch
        elif k == 2:
            b[i:i + 1] = ch
        elif k == 3:
            b = b[:i]
        elif k == 4:
            b[i:i] = b[i:i + rng.randrange(1, 6)]
        else:
            b[i:i] = rng.choice(TOKENS).encode()
    return bytes(b)


def valid_utf8(b):
    try:
        b.decode("utf-8")
        return True
    except UnicodeDecodeError:
        return False


def gen(rng, tier):
    out = []
    sch = lg.rich_scheme()
    g = lg.Gen(rng, sch, features=("index", "each", "quant", "oneof", "call", "vec", "mapbool", "inlist"), max_depth=3)
    n = 2500 if tier == "quick" else 70000
    for i in range(n):
        e = g.gen_filter()
        text = lg.render_lexpr(sch, e, lg.Layout(rng)).encode()
        m = mutate_text(rng, text)
        if valid_utf8(m):
            out.append(parse_case(sch, m, 128))
    # token soups
    for _ in range(n // 2):
        k = rng.randrange(1, 14)
        sep = rng.choice(["", " ", " ", "\n"])
        t = sep.join(rng.choice(TOKENS) for _ in range(k))
        out.append(parse_case(sch, t, rng.choice([128, 128, 3])))
    # random characters
    for _ in range(n // 4):
        t = "".join(rng.choice(ALPHABET) for _ in range(rng.randrange(0, 30)))
        out.append(parse_case(sch, t, 128))
        out.append(parse_case(sch, t, 128, kind="parse-value"))
    # multi-line inputs: error line / column arithmetic
    for _ in range(n // 8):
        e = g.gen_filter()
        text = lg.render_lexpr(sch, e, lg.Layout(rng)).encode()
        m = mutate_text(rng, text.replace(b" ", b"\n", rng.randrange(0, 5)))
        pre = rng.choice([b"", b"\n", b"\n\n ", b" \r\n"])
        post = rng.choice([b"", b"\n", b" \n\n"])
        if valid_utf8(m):
            out.append(parse_case(sch, pre + m + post, 128))
    return out


def stress_inputs(tier):
    """very long flat chains and very deep nestings: run on the implementation only (worker processes)"""
    n = 20000 if tier == "quick" else 100000
    return [
        ("flat-and", " and ".join(["tt"] * n)),
        ("flat-or-cmp", " or ".join(["num == 1"] * (n // 2))),
        ("deep-paren", "(" * n + "tt" + ")" * n),
        ("deep-not", "not " * n + "tt"),
        ("deep-bang", "!" * n + "tt"),
        ("deep-call", "echo(" * n + "str" + ")" * n + " == \"a\""),
        ("deep-index", "grid" + "[0]" * n),
        ("deep-any", "any(" * n + "bools" + ")" * n),
        ("long-list", "num in {" + " ".join(str(i) for i in range(n)) + "}"),
        ("long-string", "str == \"" + "a" * (10 * n) + "\""),
        ("unclosed-deep", "(" * n),
        ("brackets", "[" * n),
    ]


def post(ctx):
    """size stress: the real parser in fresh worker processes with a small stack must return Ok/Err (no crash)"""
    import os
    import subprocess
    import vp
    sch = lg.rich_scheme()
    res = []
    viol = []
    for name, text in stress_inputs(ctx["tier"]):
        line = parse_case(sch, text, 128)
        for stack_kb in (8192, 256):
            cmd = "ulimit -s %d; exec %s" % (stack_kb, vp.harness_bin())
            p = subprocess.run(["bash", "-c", cmd], input=(line + "\n").encode(), stdout=subprocess.PIPE,
                               stderr=subprocess.PIPE, timeout=600)
            outl = p.stdout.decode("utf-8", "replace").strip()
            ok = p.returncode == 0 and (outl.startswith("(ok") or outl.startswith("(err"))
            res.append({"input": name, "len": len(text), "stack_kb": stack_kb, "rc": p.returncode,
                        "answer": outl[:60]})
            if not ok:
                rec = {"property": "C05", "verdict": "the parser crashed or did not answer on a large input",
                       "input": name, "length": len(text), "stack_kb": stack_kb, "rc": p.returncode,
                       "stderr": p.stderr.decode("utf-8", "replace")[-400:],
                       "rerun": "python3 -c \"...\" see tools/props/c05.py stress_inputs"}
                viol.append(("stress", vp.write_replay("C05", rec), ""))
    return {"coverage": {"stress": res}, "violations": viol}


def nontrivial(line):
    return True


def distribution(lines):
    return {"cases": len(lines), "parse_value": sum(l.startswith("(parse-value") for l in lines)}


PROP = {
    "id": "C05",
    "prop_file": "theories/Props/C05.v",
    "proof_files": [],
    "gen": gen,
    "compare_spec": False,
    "post": post,
    "nontrivial": nontrivial,
    "distribution": distribution,
    "rule": "valid filters with 1-3 character/token insertions, deletions, replacements, duplications, truncations; token "
            "soups over the language's vocabulary; random strings over its alphabet incl. multi-byte characters; multi-line "
            "inputs; compared with the parser model on Ok(AST) / Err(kind, line, column, length) (Display is also rendered "
            "on the implementation side and must not panic). Size stress (1e5 operands / nestings / list items) on the "
            "implementation only, in worker processes with 8 MiB and 256 KiB stacks.",
}
