"""C05 — parsing is total: any input yields an AST or a well-formed error, never a crash."""
import langgen as lg
from props.c13 import parse_case

ALPHABET = list(" \n\r\t()[]{}\"\\*$#,.:-+&|!~<>=/_") + list("0123456789abcdefxyzrANDornotinallanyXé€𝄞") + ["\u00a0", "\u0085", "\u2003", "\u3000", "\u200b", "\u1680"]
TOKENS = ["and", "or", "xor", "not", "&&", "||", "^^", "!", "==", "!=", "<", "<=", ">", ">=", "eq", "ne", "lt", "le",
          "gt", "ge", "&", "bitwise_and", "contains", "matches", "~", "wildcard", "strict wildcard", "in", "{", "}",
          "(", ")", "[", "]", "[*]", ",", "$", "$l1", "any", "all", "num", "str", "ip.src", "tt", "bools", "strs",
          "hdr", "grid", "echo", "lower", "len", "concat", "show", "1", "-1", "0x1F", "017", "1..5", "\"a\"", "\"\\x41\"",
          "r\"a\"", "r#\"a\"#", "01:02", "1.2.3.4", "::1", "10.0.0.0/8", "1.2.3.4..1.2.3.9", "\"", "r#\"", "\\", " ", "\n"]


def mutate_text(rng, b):
    b = bytearray(b)
    for _ in range(rng.choice([1, 1, 1, 2, 3])):
        if not b:
            break
        k = rng.randrange(6)
        i = rng.randrange(len(b))
        ch = rng.choice(ALPHABET).encode()
        if k == 0:
            del b[i]
        elif k == 1:
            b[i:i] = ch
        elif k == 2:
            b[i:i + 1] = ch
        elif k == 3:
            b = b[:i]
        elif k == 4:
            b[i:i] = b[i:i + rng.randrange(1, 6)]
        else:
            b[i:i] = rng.choice(TOKENS).encode()
    return bytes(b)


def valid_utf8(b):
    try:
        b.decode("utf-8")
        return True
    except UnicodeDecodeError:
        return False


def gen(rng, tier):
    out = []
    sch = lg.rich_scheme()
    g = lg.Gen(rng, sch, features=("index", "each", "quant", "oneof", "call", "vec", "mapbool", "inlist"), max_depth=3)
    # with `matches` / `wildcard` comparisons: only for the families that leave the literals as generated (a
    # mutated regex literal leaves the regex subset of the model, see C11)
    g_re = lg.Gen(rng, sch, features=("index", "each", "quant", "oneof", "call", "vec", "mapbool", "inlist", "regex"),
                  max_depth=3)
    n = 2500 if tier == "quick" else 70000
    # every well-formed filter cut after each of its tokens (an operator, an opening bracket, a comma ... followed
    # by the end of the input), with and without trailing white space
    for i in range(n // 10):
        e = g_re.gen_filter()
        toks = lg.render_lexpr(sch, e, lg.Layout()).split(" ")
        for k in range(1, len(toks)):
            cut = " ".join(toks[:k])
            out.append(parse_case(sch, (cut + rng.choice(["", "", " ", "\n", " \r\n "])).encode(), "default"))
    for op in ("==", "!=", "<", "<=", ">", ">=", "eq", "ne", "lt", "le", "gt", "ge", "&", "bitwise_and", "contains",
               "matches", "~", "wildcard", "strict wildcard", "strict", "in", "in {", "in $", "in $l1.", "and", "or",
               "xor", "&&", "||", "^^"):
        for lhs in ("str", "num", "ip.src", "strs[0]", "hdr[\"a\"]", "lower(str)", "tt"):
            for tail in ("", " ", "\n"):
                out.append(parse_case(sch, lhs + " " + op + tail, "default"))
                out.append(parse_case(sch, "tt and\n(" + lhs + " " + op + tail, "default"))
    for i in range(n):
        e = g.gen_filter()
        text = lg.render_lexpr(sch, e, lg.Layout(rng)).encode()
        m = mutate_text(rng, text)
        if valid_utf8(m):
            out.append(parse_case(sch, m, rng.choice([128, "default"])))
    # wildcard literals whose source text mixes string escapes with multi-byte characters and ends in
    # something the pattern syntax rejects: where the error points must be a place of the SOURCE text
    units = ['\\"', "\\\\", "\\x2a", "\\x5c", "\\052", "*", "**", "a", "?", "\u00e9", "\u20ac", "\U0001d11e", "[", "]",
             "(", "{", "+"]
    for _ in range(n // 5):
        body = "".join(rng.choice(units) for _ in range(rng.randrange(1, 9)))
        op = rng.choice(["wildcard", "strict wildcard"])      # (regex bodies: only the modelled subset, see C11)
        lit = rng.choice(['"%s"', '"%s"', 'r"%s"', 'r#"%s"#']) % body
        pre = rng.choice(["", "", "tt and ", "(", "not "])
        out.append(parse_case(sch, pre + "str " + op + " " + lit, rng.choice(["default", 128])))
    # counters near the limits of narrow integer types: runs of 254..300 `#` around raw strings, 255..257 nested
    # indexes / escapes / list items, very long identifiers
    for k in (254, 255, 256, 257, 300, 511, 512):
        h = "#" * k
        for t in ('str == r"a"' + h, "str == r" + h + '"a"' + h, "str == r" + h + '"a"' + "#" * (k - 1),
                  'str == r#"a"' + h + '"#', 'str matches r"a"' + h, 'str wildcard r#"a"' + h,
                  "str == \"" + "\\x41" * k + "\"", "num in {" + " ".join(["1"] * k) + "}",
                  "strs" + "[0]" * 2 + " == \"a\"", "x" * k + " == 1", "str == " + ":".join(["41"] * k)):
            out.append(parse_case(sch, t, "default"))
    # nested calls within the nesting limit whose innermost argument fails (unknown name, wrong type, cut off): the
    # error must come back at once - a parser that tries an argument twice on failure needs 2^depth steps
    for depth in (8, 12, 16, 20):
        for fn in ("lower", "echo"):
            for inner in ("nosuchfield", "num", "str ==", "str, str", ""):
                t = (fn + "(") * depth + inner + ")" * depth + ' == "a"'
                out.append(parse_case(sch, t, "default"))
                out.append(parse_case(sch, (fn + " (") * depth + inner, "default"))
    # the same far below the surface: a few cases only (each one costs the idle limit when the parser is exponential)
    for depth, fn, inner in ((40, "lower", "nosuchfield"), (127, "echo", "num"), (100, "lower", "")):
        out.append(parse_case(sch, (fn + "(") * depth + inner + ")" * depth + ' == "a"', "default"))
    # token soups
    for _ in range(n // 2):
        k = rng.randrange(1, 14)
        sep = rng.choice(["", " ", " ", "\n"])
        t = sep.join(rng.choice(TOKENS) for _ in range(k))
        out.append(parse_case(sch, t, rng.choice([128, 128, 3])))
    # random characters
    for _ in range(n // 4):
        t = "".join(rng.choice(ALPHABET) for _ in range(rng.randrange(0, 30)))
        out.append(parse_case(sch, t, "default"))
        out.append(parse_case(sch, t, "default", kind="parse-value"))
    # multi-line inputs: error line / column arithmetic
    for _ in range(n // 8):
        e = g.gen_filter()
        text = lg.render_lexpr(sch, e, lg.Layout(rng)).encode()
        m = mutate_text(rng, text.replace(b" ", b"\n", rng.randrange(0, 5)))
        pre = rng.choice([b"", b"\n", b"\n\n ", b" \r\n", "\u00a0\n".encode(), "\t\u2003 ".encode(), "\u3000".encode()])
        post = rng.choice([b"", b"\n", b" \n\n", "\u2028".encode(), " \u0085\t".encode(), "\u205f\u00a0".encode()])
        if valid_utf8(m):
            out.append(parse_case(sch, pre + m + post, 128))
    return out


def stress_families():
    """very long flat chains and very deep nestings, as functions of the size n"""
    return [
        ("flat-and", lambda n: " and ".join(["tt"] * n)),
        ("flat-or-cmp", lambda n: " or ".join(["num == 1"] * (n // 2))),
        ("deep-paren", lambda n: "(" * n + "tt" + ")" * n),
        ("deep-not", lambda n: "not " * n + "tt"),
        ("deep-bang", lambda n: "!" * n + "tt"),
        ("deep-call", lambda n: "echo(" * n + "str" + ")" * n + " == \"a\""),
        ("deep-index", lambda n: "grid" + "[0]" * n),
        ("deep-any", lambda n: "any(" * n + "bools" + ")" * n),
        ("long-list", lambda n: "num in {" + " ".join(str(i) for i in range(n)) + "}"),
        ("long-string", lambda n: "str == \"" + "a" * (10 * n) + "\""),
        ("unclosed-deep", lambda n: "(" * n),
        # nesting inside a regex literal is bounded by the regex parser's own nest limit, not by the filter's
        ("deep-regex-groups", lambda n: "str matches \"" + "(" * n + "a" + ")" * n + "\""),
        ("deep-regex-raw", lambda n: "str matches r#\"" + "(?:" * n + "a" + ")" * n + "\"#"),
        ("long-regex-alternation", lambda n: "str matches \"" + "|".join("a" + str(i % 10) for i in range(n)) + "\""),
        ("long-wildcard", lambda n: "str wildcard \"" + "a*" * (n // 2) + "\""),
        ("brackets", lambda n: "[" * n),
    ]


def stress_inputs(tier):
    n = 20000 if tier == "quick" else 100000
    return [(name, f(n)) for name, f in stress_families()]


def post(ctx):
    """size stress: the stack the real parser needs must not grow with the input.  For each family the smallest
       stack (a power of two of KiB) that parses an instance of size 400 - already beyond the nesting limit of 128 -
       is measured in fresh worker processes; the instance of size 2e4 / 1e5 must then return Ok/Err with twice that
       stack (and with the default 8 MiB)."""
    import subprocess
    import vp
    sch = lg.rich_scheme()
    res = []
    viol = []

    def run(text, stack_kb):
        line = parse_case(sch, text, "default")     # the property is about default settings
        cmd = "ulimit -s %d; exec %s" % (stack_kb, vp.harness_bin())
        p = subprocess.run(["bash", "-c", cmd], input=(line + "\n").encode(), stdout=subprocess.PIPE,
                           stderr=subprocess.PIPE, timeout=600)
        outl = p.stdout.decode("utf-8", "replace").strip()
        ok = p.returncode == 0 and (outl.startswith("(ok") or outl.startswith("(err"))
        return ok, p, outl

    n = 20000 if ctx["tier"] == "quick" else 100000
    for name, fam in stress_families():
        small = fam(400)
        need = None
        kb = 64
        while kb <= 8192:
            ok, p, outl = run(small, kb)
            if ok:
                need = kb
                break
            kb *= 2
        if need is None:
            rec = {"property": "C05", "verdict": "the parser crashed or did not answer on a small input even with 8 MiB of stack",
                   "input": name, "length": len(small), "rc": p.returncode,
                   "stderr": p.stderr.decode("utf-8", "replace")[-400:], "text": small}
            viol.append(("stress", vp.write_replay("C05", rec), ""))
            continue
        big = fam(n)
        for stack_kb in (2 * need, 8192):
            ok, p, outl = run(big, stack_kb)
            res.append({"input": name, "len": len(big), "stack_kb": stack_kb, "stack_kb_needed_at_size_400": need,
                        "rc": p.returncode, "answer": outl[:60]})
            if not ok:
                rec = {"property": "C05",
                       "verdict": "stack use grows with the input: size 400 parses with %d KiB, size %d crashes or does not "
                                  "answer with %d KiB" % (need, n, stack_kb),
                       "input": name, "length": len(big), "stack_kb": stack_kb, "rc": p.returncode,
                       "stderr": p.stderr.decode("utf-8", "replace")[-400:],
                       "rerun": "see tools/props/c05.py stress_families()['%s'](%d)" % (name, n)}
                viol.append(("stress", vp.write_replay("C05", rec), ""))
    return {"coverage": {"stress": res}, "violations": viol}



def property_oracle(line, impl_out):
    """C05 at the level of the property text: the answer is an AST or an error whose line is a line of the input and
       whose column range lies inside that line; anything else (panic, crash, no answer) violates it"""
    import re
    o = impl_out.strip()
    if o.startswith("(ok"):
        return "ok"
    m = re.match(r"^\(err ([A-Za-z]+) (\d+) (\d+) (\d+) #([0-9a-f]*)\)$", o)
    if not m:
        return "violates: " + o[:80]
    mt = re.search(r" #([0-9a-f]*)\)\s*$", line)
    if not mt:
        return None
    text = bytes.fromhex(mt.group(1))
    ln, col, n = int(m.group(2)), int(m.group(3)), int(m.group(4))
    rows = text.split(b"\n")
    if ln >= len(rows):
        return "violates: line %d of %d" % (ln, len(rows))
    if col + n > len(rows[ln]):
        return "violates: columns %d+%d in a line of %d bytes" % (col, n, len(rows[ln]))
    if bytes.fromhex(m.group(5)) != rows[ln]:
        return "violates: the line kept by the error is not line %d of the input" % ln
    if col + n > len(bytes.fromhex(m.group(5))):
        return "violates: columns outside the line kept by the error"
    return "ok"


def nontrivial(line):
    return True


def distribution(lines):
    return {"cases": len(lines), "parse_value": sum(l.startswith("(parse-value") for l in lines)}


PROP = {
    "id": "C05",
    "prop_file": "theories/Props/C05.v",
    "proof_files": ["theories/Proofs/ParserClosed.v", "theories/Proofs/FuelProofs.v", "theories/Proofs/ParserProofs.v", "theories/Proofs/LexFacts.v", "theories/Proofs/TypingProofs.v"],
    "gen": gen,
    "compare_spec": False,
    "post": post,
    "property_oracle": property_oracle,
    "nontrivial": nontrivial,
    "distribution": distribution,
    "rule": "valid filters with 1-3 character/token insertions, deletions, replacements, duplications, truncations; token "
            "soups over the language's vocabulary; random strings over its alphabet incl. multi-byte characters; multi-line "
            "inputs; compared with the parser model on Ok(AST) / Err(kind, line, column, length) (Display is also rendered "
            "on the implementation side and must not panic). Size stress (2e4 / 1e5 operands, nestings, list items) on "
            "the implementation only, in fresh worker processes: the stack needed must not grow with the input (twice the "
            "stack that suffices at size 400 must suffice at full size).",
}
