"""C11 — regex and wildcard operators: generators and wiring.

Cases (the #text is the source text between the quotes of the literal):
  (wildcard <strict> <star-limit|none> <quoted|(raw n)> #text (#value ...))
  (regex <quoted|(raw n)> #text <compiled-limit|none> <dfa-limit|none> (#value ...))
Answers: (ok #pattern <fmt> b ...) | (err Kind [Sub]) and, model only,
  (outside-subset [#pattern fmt]) | (either-too-big (ok ...)) | (size-unmodelled) | (unmodelled)
which `normalize` turns into what can be compared (see there)."""
import itertools
from vp import to_sexp, Sym, parse_sexp

WALPHA = [0x61, 0x41, 0x2A, 0x5C, 0x3F]          # a A * \ ?
NONE = Sym("none")
QUOTED = Sym("quoted")


def raw(n):
    return (Sym("raw"), n)


def wcase(strict, limit, form, text, values):
    return to_sexp((Sym("wildcard"), bool(strict), NONE if limit is None else limit, form, bytes(text),
                    [bytes(v) for v in values]))


def rcase(form, text, climit, dlimit, values):
    return to_sexp((Sym("regex"), form, bytes(text), NONE if climit is None else climit,
                    NONE if dlimit is None else dlimit, [bytes(v) for v in values]))


def quote_bytes(p):
    """source text of a quoted *bytes* literal (lex_quoted_string_as_vec) denoting the bytes p"""
    out = bytearray()
    for b in p:
        if b == 0x5C:
            out += b"\\\\"
        elif b == 0x22:
            out += b"\\\""
        elif b >= 0x80:
            out += b"\\x%02x" % b
        else:
            out.append(b)
    return bytes(out)


# ---------------------------------------------------------------- wildcard values
def wvalues_full():
    """every string over {a, A, b} of length <= 3, plus *, \\ and a non-UTF-8 byte in all positions of short strings"""
    vs = [b""]
    for n in (1, 2, 3):
        for t in itertools.product(b"aAb", repeat=n):
            vs.append(bytes(t))
    extra = [b"*", b"\\", b"?", b"\xff", b"a*", b"*a", b"a\\", b"\\a", b"a?", b"?A", b"a\xff", b"\xffA", b"\\*", b"**",
             b"a*a", b"A\\a", b"a\xffa", b"aaaa", b"aAaA", b"abab", b"aaaaa", b"aabaa", b"*a*a", b"a?a?", b"\\\\",
             b"aaaaaa", b"AAAAAAA", b"abaaba", b"a\\*?A"]
    return vs + extra


WVALUES = wvalues_full()
WVALUES_SMALL = [b"", b"a", b"A", b"*", b"aa", b"a*a"]


def escapes_ok(p):
    """sizing hint only (never an expected answer): does every backslash of p start \\* or \\\\ ?"""
    i = 0
    while i < len(p):
        if p[i] == 0x5C:
            if i + 1 >= len(p) or p[i + 1] not in (0x2A, 0x5C):
                return False
            i += 2
        else:
            i += 1
    return True


def wildcard_exhaustive(maxlen, full_upto=6):
    """all patterns over WALPHA up to maxlen.  Up to full_upto: every (strict, form) with no limit on the full
    value list, and every star limit 0..4 on a short value list.  Longer ones (thorough tier): quoted and raw form
    with alternating strictness, and the two star limits around the number of stars."""
    out = []
    for n in range(0, maxlen + 1):
        for k, t in enumerate(itertools.product(WALPHA, repeat=n)):
            p = bytes(t)
            q = quote_bytes(p)
            if not escapes_ok(p):
                vals = WVALUES_SMALL[:2]                   # rejected at parse time: values are never used
            elif n <= 4:
                vals = WVALUES
            else:
                vals = WVALUES[: 40 + 8 * (n % 3)] + WVALUES[-12:]
            if n <= full_upto:
                for strict in (False, True):
                    out.append(wcase(strict, None, QUOTED, q, vals))
                    out.append(wcase(strict, None, raw(n % 3), p, vals))
                for limit in range(0, 5):
                    # the limit only decides acceptance: both operators, alternating forms
                    strict = (limit + n) % 2 == 0
                    if limit % 2 == 0:
                        out.append(wcase(strict, limit, QUOTED, q, WVALUES_SMALL))
                    else:
                        out.append(wcase(strict, limit, raw(0), p, WVALUES_SMALL))
            else:
                strict = k % 2 == 0
                stars = p.count(b"*")
                vals = vals[:24] + vals[-8:] if len(vals) > 32 else vals
                out.append(wcase(strict, None, QUOTED, q, vals))
                out.append(wcase(not strict, None, raw(k % 3), p, vals))
                out.append(wcase(strict, max(0, stars - (k % 2)), QUOTED if k % 4 < 2 else raw(0),
                                 q if k % 4 < 2 else p, WVALUES_SMALL[:3]))
    return out


def wildcard_source_texts(maxlen):
    """quoted literals as SOURCE TEXT over {a, *, \\, quote, x, 4, 1}: the escapes of the bytes lexer
    (\\\\ \\quote \\xHH \\OOO), its errors, an early closing quote"""
    out = []
    alpha = [0x61, 0x2A, 0x5C, 0x22, 0x78, 0x34, 0x31]
    for n in range(0, maxlen + 1):
        for t in itertools.product(alpha, repeat=n):
            s = bytes(t)
            out.append(wcase(n % 2 == 0, None, QUOTED, s, WVALUES_SMALL + [b"A", b"\x41", b"4", b"a\x0c"]))
    return out


def wildcard_random(rng, count):
    out = []
    alpha = [0x61, 0x41, 0x62, 0x2A, 0x2A, 0x5C, 0x3F, 0xC3, 0xA9, 0x5A, 0x7A, 0x40, 0x5B, 0x60, 0x7B, 0x00, 0x0A]
    for _ in range(count):
        n = rng.choice([3, 5, 8, 12, 20])
        p = bytearray()
        while len(p) < n:
            r = rng.random()
            if r < 0.15:
                p += rng.choice([b"\\*", b"\\\\"])
            elif r < 0.18:
                p += b"\\" + bytes([rng.choice(alpha)])
            elif r < 0.22:
                p += b"\xc3\xa9"          # a two-byte character
            else:
                p.append(rng.choice([a for a in alpha if a < 0x80]))
        p = bytes(p)
        vals = []
        for vi in range(10):
            # values built from the pattern: stars replaced by random stuff, case flipped, one byte changed;
            # the first two are long (any length threshold of a shortcut lies below them) and otherwise exact
            long_v = vi < 2
            v = bytearray()
            i = 0
            while i < len(p):
                c = p[i]
                if c == 0x5C and i + 1 < len(p):
                    v.append(p[i + 1])
                    i += 2
                    continue
                if c == 0x2A:
                    v += bytes(rng.choice(alpha) for _ in range(rng.choice([31, 63, 64, 70, 130, 300] if long_v
                                                                           else [0, 0, 1, 2, 5])))
                else:
                    v.append(c ^ 0x20 if not long_v and rng.random() < 0.3 and chr(c).isalpha() else c)
                i += 1
            if v and not (long_v and vi == 0) and rng.random() < 0.3:
                v[rng.randrange(len(v))] = rng.choice(alpha)
            if rng.random() < 0.15:
                v += bytes([rng.choice(alpha)])
            vals.append(bytes(v))
        vals += [b"", p]
        limit = rng.choice([None, None, 0, 1, 2, 3, 4, 20])
        strict = rng.random() < 0.5
        try:
            p.decode("utf-8")
            utf8 = True
        except UnicodeDecodeError:
            utf8 = False
        if utf8 and b'"' not in p and rng.random() < 0.5:
            out.append(wcase(strict, limit, raw(rng.choice([0, 1, 2])), p, vals))
        else:
            out.append(wcase(strict, limit, QUOTED, quote_bytes(p), vals))
    return out


# ---------------------------------------------------------------- regex: AST -> text
LIT_PLAIN = b"abcAB01 _\"]}#&~-:,<>=!%@'`/;"
META = b"\\.+*?()|[]{}^$#&-~"


def gen_ast(rng, depth):
    r = rng.random()
    if depth <= 0 or r < 0.30:
        k = rng.random()
        if k < 0.45:
            return ("lit", rng.choice(LIT_PLAIN))
        if k < 0.55:
            return ("lit", rng.choice(META))             # rendered escaped
        if k < 0.65:
            return ("dot",)
        if k < 0.85:
            return gen_class(rng)
        if k < 0.90:
            return ("hex", rng.choice([0x00, 0x0A, 0x41, 0x61, 0x7F, 0x80, 0xFF, 0x22, 0x5C]))
        if k < 0.95:
            return ("perl", rng.choice(b"dswDSW"))
        return ("special", rng.choice(b"aftnrv"))
    if r < 0.50:
        return ("seq", [gen_ast(rng, depth - 1) for _ in range(rng.choice([2, 2, 3, 4]))])
    if r < 0.62:
        alts = [gen_ast(rng, depth - 1) for _ in range(rng.choice([2, 2, 3]))]
        if rng.random() < 0.15:
            alts.insert(rng.randrange(len(alts) + 1), ("empty",))
        return ("alt", alts)
    if r < 0.82:
        return (rng.choice(["star", "plus", "opt"]), gen_ast(rng, depth - 1), rng.random() < 0.2)
    if r < 0.90:
        return ("group", gen_ast(rng, depth - 1), rng.random() < 0.4)
    if r < 0.95:
        return ("start",)
    return ("end",)


def gen_class(rng):
    items = []
    for _ in range(rng.choice([1, 1, 2, 3, 4])):
        k = rng.random()
        if k < 0.45:
            items.append(("c", rng.choice(b"abcxyzABC019 _.\"]\\[^-&~$*")))
        elif k < 0.75:
            lo, hi = sorted((rng.choice(b"abcdmxyz"), rng.choice(b"abcdmxyz")))
            if rng.random() < 0.3:
                lo, hi = sorted((rng.choice(b"0359"), rng.choice(b"0359")))
            if rng.random() < 0.15:
                lo, hi = rng.choice([(0x00, 0x1F), (0x80, 0xFF), (0x7F, 0x80), (0x22, 0x5C)])
            items.append(("r", lo, hi))
        elif k < 0.85:
            items.append(("perl", rng.choice(b"dswDSW")))
        else:
            items.append(("hex", rng.choice([0x00, 0x0A, 0x22, 0x5C, 0x5D, 0x80, 0xFF])))
    return ("cls", rng.random() < 0.3, items, rng.random())


def class_endpoint(e):
    if e >= 0x7F or e < 0x20 or e in b"\\]\"[^-":
        return b"\\x%02x" % e
    return bytes([e])


def render_class(node):
    _, neg, items, style = node
    out = bytearray(b"[")
    if neg:
        out += b"^"
    first = True
    for it in items:
        if it[0] == "c":
            c = it[1]
            if c == 0x5D:                                  # ]
                out += b"]" if (first and style < 0.5) else b"\\]"
            elif c == 0x2D:                                # -
                out += b"-" if first else b"\\-"
            elif c == 0x5E:                                # ^
                out += b"\\^" if first or style < 0.5 else b"^"
            elif c in b"\\[&~":
                out += b"\\" + bytes([c])
            elif c == 0x22:
                out += b"\\\"" if style < 0.3 else b"\""
            else:
                out.append(c)
        elif it[0] == "r":
            out += class_endpoint(it[1]) + b"-" + class_endpoint(it[2])
        elif it[0] == "perl":
            out += b"\\" + bytes([it[1]])
        else:
            out += b"\\x%02x" % it[1]
        first = False
    if style > 0.9:
        out += b"-"                                        # a dash before the closing bracket
    out += b"]"
    return bytes(out)


def is_atom(node):
    return node[0] in ("lit", "dot", "cls", "hex", "perl", "special", "group", "start", "end")


def render(node, rng):
    k = node[0]
    if k == "lit":
        c = node[1]
        if c in b"\\.+*?()|[{^$":
            return b"\\" + bytes([c])
        if c in b"]}#&-~:,=!%@'`/; _" and rng.random() < 0.15:
            return b"\\" + bytes([c])                      # superfluous escape of punctuation
        return bytes([c])
    if k == "dot":
        return b"."
    if k == "cls":
        return render_class(node)
    if k == "hex":
        return (b"\\x%02x" if rng.random() < 0.5 else b"\\x%02X") % node[1]
    if k in ("perl", "special"):
        return b"\\" + bytes([node[1]])
    if k == "start":
        return b"^"
    if k == "end":
        return b"$"
    if k == "empty":
        return b""
    if k == "seq":
        parts = []
        for x in node[1]:
            s = render(x, rng)
            parts.append(b"(?:" + s + b")" if x[0] == "alt" else s)
        return b"".join(parts)
    if k == "alt":
        return b"|".join(render(x, rng) for x in node[1])
    if k in ("star", "plus", "opt"):
        inner = node[1]
        s = render(inner, rng)
        if not is_atom(inner) and inner[0] not in ("star", "plus", "opt"):
            s = (b"(" if rng.random() < 0.5 else b"(?:") + s + b")"
        if inner[0] == "empty":
            s = b"()"
        return s + {"star": b"*", "plus": b"+", "opt": b"?"}[k] + (b"?" if node[2] else b"")
    if k == "group":
        return (b"(?:" if node[2] else b"(") + render(node[1], rng) + b")"
    raise ValueError(k)


def sample(node, rng):
    """a string the node matches (anchors ignored)"""
    k = node[0]
    if k == "lit":
        return bytes([node[1]])
    if k == "dot":
        return bytes([rng.choice([0x61, 0x00, 0xFF, 0x20, 0x0D])])
    if k == "cls":
        neg, items = node[1], node[2]
        if neg or not items:
            return bytes([rng.choice([0x71, 0x0A, 0xFF, 0x51])])
        it = rng.choice(items)
        if it[0] == "c":
            return bytes([it[1]])
        if it[0] == "r":
            return bytes([rng.choice([it[1], it[2], (it[1] + it[2]) // 2])])
        if it[0] == "hex":
            return bytes([it[1]])
        return sample(("perl", it[1]), rng)
    if k == "hex":
        return bytes([node[1]])
    if k == "perl":
        return bytes([{0x64: 0x37, 0x73: 0x0B, 0x77: 0x5F, 0x44: 0x61, 0x53: 0x61, 0x57: 0x0A}[node[1]]])
    if k == "special":
        return bytes([{0x61: 7, 0x66: 12, 0x74: 9, 0x6E: 10, 0x72: 13, 0x76: 11}[node[1]]])
    if k in ("start", "end", "empty"):
        return b""
    if k == "seq":
        return b"".join(sample(x, rng) for x in node[1])
    if k == "alt":
        return sample(rng.choice(node[1]), rng)
    if k == "star":
        return b"".join(sample(node[1], rng) for _ in range(rng.choice([0, 1, 2, 3])))
    if k == "plus":
        return b"".join(sample(node[1], rng) for _ in range(rng.choice([1, 1, 2, 3])))
    if k == "opt":
        return sample(node[1], rng) if rng.random() < 0.6 else b""
    if k == "group":
        return sample(node[1], rng)
    raise ValueError(k)


def scanner_inverse(pat):
    """source text of a QUOTED regex literal that the scanner turns into `pat`; None when there is none
    (\\quote outside a scanner class, a lone trailing backslash, an unclosed class)"""
    out = bytearray()
    in_class = False
    i = 0
    while i < len(pat):
        c = pat[i]
        if c == 0x5C:
            if i + 1 >= len(pat):
                return None
            if pat[i + 1] == 0x22 and not in_class:
                return None
            out += pat[i:i + 2]
            i += 2
            continue
        if c == 0x22:
            out += b"\"" if in_class else b"\\\""
        else:
            if c == 0x5B and not in_class:
                in_class = True
            elif c == 0x5D and in_class:
                in_class = False
            out.append(c)
        i += 1
    if in_class:
        return None
    return bytes(out)


def raw_hashes(pat, rng):
    """a hash count n such that no quote of the pattern is followed by n hashes"""
    need = 0
    i = 0
    while i < len(pat):
        if pat[i] == 0x22:
            j = i + 1
            while j < len(pat) and pat[j] == 0x23:
                j += 1
            need = max(need, j - i)
        i += 1
    return need + rng.choice([0, 0, 1])


RVALUES = [b"", b"a", b"\n", b"\xff", b"ab", b"A", b"\"", b"]", b"a\nb", b"0", b" "]


def regex_values(ast, rng):
    vals = set()
    for _ in range(5):
        s = sample(ast, rng)
        vals.add(s)
        vals.add(bytes(rng.choice(b"ab\n\xffq") for _ in range(rng.choice([0, 1, 2]))) + s +
                 bytes(rng.choice(b"ab\n\xffq") for _ in range(rng.choice([0, 1, 2]))))
        if s:
            m = bytearray(s)
            m[rng.randrange(len(m))] = rng.choice(b"aqZ\n\xff\x00")
            vals.add(bytes(m))
            vals.add(s[:-1])
            vals.add(s[1:])
    vals |= set(rng.sample(RVALUES, 4))
    vals.add(b"")
    return sorted(v for v in vals if len(v) <= 24)[:14]


def regex_from_ast(rng, count):
    out = []
    for i in range(count):
        ast = gen_ast(rng, rng.choice([1, 2, 2, 3, 3, 4]))
        if rng.random() < 0.25:
            ast = ("seq", [("start",), ast]) if rng.random() < 0.5 else ("seq", [ast, ("end",)])
            if rng.random() < 0.4:
                ast = ("seq", [("start",), ast[1][0], ("end",)]) if ast[1][0][0] != "start" else \
                      ("seq", [("start",), ast[1][1], ("end",)])
        pat = render(ast, rng)
        if len(pat) > 80:
            continue
        vals = regex_values(ast, rng)
        r = rng.random()
        climit = None if r < 0.6 else (1 << 20 if r < 0.8 else rng.choice([10, 16, 0]))
        dlimit = rng.choice([None, None, None, 0, 10, 4096])
        src = scanner_inverse(pat)
        if src is not None and rng.random() < 0.6:
            out.append(rcase(QUOTED, src, climit, dlimit, vals))
        else:
            out.append(rcase(raw(raw_hashes(pat, rng)), pat, climit, dlimit, vals))
    return out


MALFORMED = [b"(", b")", b"a)", b"(a", b"((a)", b"[a", b"[", b"[^", b"[]", b"[^]", b"[]a", b"*", b"+a", b"?", b"a|*",
             b"(*)", b"(?:*)", b"(|+)", b"\\", b"a\\", b"\\x", b"\\x4", b"\\xg0", b"\\x4g", b"\\1", b"\\0", b"\\e", b"\\c",
             b"\\q", b"[z-a]", b"[\\d-z]", b"[a-\\d]", b"[\\x", b"[a-", b"[a-]", b"[-a]", b"[--a]", b"[a--b]", b"[a&&b]",
             b"[a~~b]", b"[a&b]", b"[[a]]", b"[[:alpha:]]", b"[a[b]", b"a{", b"a{2", b"a{2}", b"{", b"}", b"]", b"a]",
             b"(?i)a", b"(?P<n>a)", b"(?<n>a)", b"(?", b"(?)", b"(?=a)", b"\\pL", b"\\b", b"\\B", b"\\A", b"\\z",
             b"\\<", b"\\>", b"\\u0041", b"\\x{41}", b"a**", b"a*?+", b"^*", b"$+", b"()*", b"(?:)+", b"a||b", b"|",
             b"\xc3\xa9", b"[\xc3\xa9]", b"a\xc3\xa9*"]


def regex_malformed(rng, count):
    out = []
    vals = [b"", b"a", b"aa", b"ab", b"\xc3\xa9", b"\xe9", b"]", b"}", b"{", b"A", b"a{2}", b"aab"]
    for m in MALFORMED:
        for climit in (None, 10):
            out.append(rcase(raw(1), m, climit, None, vals))
        src = scanner_inverse(m)
        if src is not None:
            out.append(rcase(QUOTED, src, None, None, vals))
    junk = b"()[]*+?|\\{}^$-a."
    for _ in range(count):
        ast = gen_ast(rng, rng.choice([1, 2, 3]))
        pat = bytearray(render(ast, rng))
        for _ in range(rng.choice([1, 1, 2])):
            r = rng.random()
            pos = rng.randrange(len(pat) + 1)
            if r < 0.5:
                pat.insert(pos, rng.choice(junk))
            elif pat and r < 0.85:
                del pat[min(pos, len(pat) - 1)]
            elif pat:
                pat[min(pos, len(pat) - 1)] = rng.choice(junk)
        pat = bytes(pat)
        if b'"' in pat:
            n = raw_hashes(pat, rng)
        else:
            n = rng.choice([0, 1])
        out.append(rcase(raw(n), pat, rng.choice([None, None, 10]), None, regex_values(ast, rng)))
    return out


def scanner_texts(maxlen):
    """quoted regex literals as SOURCE TEXT, exhaustively over {a, quote, backslash, [, ], ^}"""
    out = []
    alpha = [0x61, 0x22, 0x5C, 0x5B, 0x5D, 0x5E]
    vals = [b"", b"a", b"\"", b"\\", b"[", b"]", b"^", b"a\"", b"aa", b"]a", b"\\\"", b"b"]
    for n in range(0, maxlen + 1):
        for t in itertools.product(alpha, repeat=n):
            out.append(rcase(QUOTED, bytes(t), None, None, vals))
    return out


def wildcard_both_modes(rng, count):
    """the same pattern compiled as `wildcard` and as `strict wildcard` one after the other in the same process
    (both orders), run on values that differ from a match only in letter case: whatever a process remembers about
    a pattern must not carry over from one operator to the other"""
    out = []
    words = [b"static", b"Example", b"COM", b"cdn", b"Img", b"x", b"Path", b"api", b"V2", b"www"]
    for i in range(count):
        n = rng.choice([3, 8, 15, 16, 17, 24, 32, 33, 64])
        p = bytearray()
        while len(p) < n:
            p += rng.choice([b"*", b".", b"/", b"?", b"-"]) + rng.choice(words)
        p = bytes(p[:n]).rstrip(b"\\")
        exact = p.replace(b"*", rng.choice([b"", b"ab", b"Zz9"]))
        vals = [exact, exact.upper(), exact.lower(), exact.swapcase(), exact + b"x", b"", p]
        first = i % 2 == 0
        src = quote_bytes(p)
        out.append(wcase(first, None, QUOTED, src, vals))
        out.append(wcase(not first, None, QUOTED, src, vals))
        if i % 3 == 0:
            out.append(wcase(first, None, QUOTED, src, vals))
    return out


def scanner_texts_wide(rng, count):
    """quoted regex literals as SOURCE TEXT whose characters take 1 to 4 bytes: whatever the scanner does with an
    escaped quote, a class or a backslash, every other character must reach the engine byte for byte"""
    out = []
    units = [b"a", b"\"", b"\\\"", b"\\\\", b"[", b"]", b"^", b"\\d", "\u00e9".encode(), "\u20ac".encode(),
             "\U0001F600".encode(), "\u00ff".encode(), "\u0100".encode(), b"\\" + "\u00e9".encode()]
    vals = [b"", b"a", "\u00e9".encode(), b"\"" + "\u00e9".encode() + b"\"", "a\u20ac".encode(), b"\xe9", b"\xc3",
            "\U0001F600".encode(), b"\"a"]
    for _ in range(count):
        t = b"".join(rng.choice(units) for _ in range(rng.choice([1, 2, 3, 4, 5, 6, 8])))
        out.append(rcase(QUOTED, t, None, None, vals))
    return out


def gen(rng, tier):
    thorough = tier == "thorough"
    out = []
    out += wildcard_exhaustive(8 if thorough else 6)
    out += wildcard_source_texts(5 if thorough else 4)
    out += wildcard_random(rng, 20000 if thorough else 1500)
    out += scanner_texts(6 if thorough else 5)
    out += wildcard_both_modes(rng, 3000 if thorough else 300)
    out += scanner_texts_wide(rng, 20000 if thorough else 1500)
    out += regex_from_ast(rng, 100000 if thorough else 5000)
    out += regex_malformed(rng, 20000 if thorough else 1200)
    return out


# ---------------------------------------------------------------- comparison
_special = {}


def normalize(kind, out, case_line):
    """The model's verdicts that are not predictions are applied to the implementation's answer of the SAME case
    (run_property normalizes the model's line of a case first, then the others)."""
    if kind in ("model", "spec"):
        if out.startswith(("(either-too-big ", "(outside-subset", "(unmodelled)", "(size-unmodelled)")):
            _special[case_line] = out
        else:
            _special.pop(case_line, None)
        if out.startswith("(either-too-big "):
            return out[len("(either-too-big "):-1]
        return out
    m = _special.get(case_line)
    if m is None:
        return out
    if m in ("(unmodelled)", "(size-unmodelled)", "(outside-subset)"):
        return m                                           # nothing predicted: dropped from the comparison
    if m.startswith("(outside-subset "):
        # only the scanner is compared: the pattern (and format) that reached the engine, when it compiled
        if out.startswith("(err ParseRegex"):
            return m
        if out.startswith("(ok "):
            t = parse_sexp(out)
            return to_sexp([Sym("outside-subset"), t[1], t[2]])
        return out
    if m.startswith("(either-too-big "):
        inner = m[len("(either-too-big "):-1]
        if out == "(err ParseRegex CompiledTooBig)":
            return inner
        return out
    return out


def _head(line):
    return line[1:line.index(" ")]


def nontrivial(line):
    # at least one value and a pattern with a metacharacter or an escape
    t = line.split(" ")
    text = next((x for x in t if x.startswith("#")), "#")
    b = bytes.fromhex(text[1:])
    return line.count("#") >= 3 and any(c in b for c in b"*\\[(.|+?^$")


def distribution(lines):
    d = {"wildcard": 0, "regex": 0, "wildcard_quoted": 0, "wildcard_raw": 0, "regex_quoted": 0, "regex_raw": 0,
         "strict": 0, "non_strict": 0, "star_limit_set": 0, "compiled_limit_small": 0, "compiled_limit_1MiB": 0,
         "dfa_limit_set": 0, "values": 0}
    for l in lines:
        h = _head(l)
        d[h] += 1
        t = l.split(" ")
        if h == "wildcard":
            d["strict" if t[1] == "true" else "non_strict"] += 1
            if t[2] != "none":
                d["star_limit_set"] += 1
            d["wildcard_quoted" if t[3] == "quoted" else "wildcard_raw"] += 1
        else:
            d["regex_quoted" if t[1] == "quoted" else "regex_raw"] += 1
            k = 3 if t[1] == "quoted" else 4
            if t[k] != "none":
                d["compiled_limit_small" if int(t[k]) <= 16 else "compiled_limit_1MiB"] += 1
            if t[k + 1] != "none":
                d["dfa_limit_set"] += 1
        d["values"] += max(0, l.count("#") - 1)
    return d


def post(ctx):
    cov = {"model_outcomes": {}, "regex_outside_subset": 0, "regex_inside_subset": 0, "dropped_from_comparison": 0}
    mo = cov["model_outcomes"]
    impl = next(iter(ctx["impl"].values()))
    ok_true = ok_false = 0
    tiny_rejected = tiny_accepted = 0
    for line, m, io in zip(ctx["lines"], ctx["model"], impl):
        key = m[1:].split(" ")[0].rstrip(")")
        if key == "err":
            key = m.strip("()")
        mo[key] = mo.get(key, 0) + 1
        if _head(line) == "regex":
            if m.startswith("(outside-subset"):
                cov["regex_outside_subset"] += 1
            else:
                cov["regex_inside_subset"] += 1
        if m in ("(unmodelled)", "(size-unmodelled)", "(outside-subset)") or \
                (m.startswith("(outside-subset ") and io.startswith("(err ParseRegex")):
            cov["dropped_from_comparison"] += 1
        if m.startswith("(either-too-big"):
            if io.startswith("(err"):
                tiny_rejected += 1
            else:
                tiny_accepted += 1
        if m.startswith("(ok "):
            ok_true += m.count(" true")
            ok_false += m.count(" false")
    cov["answers_true"] = ok_true
    cov["answers_false"] = ok_false
    cov["tiny_limit_literal_only_rejected"] = tiny_rejected
    cov["tiny_limit_literal_only_accepted"] = tiny_accepted
    return {"coverage": cov, "violations": []}


PROP = {
    "id": "C11",
    "prop_file": "theories/Props/C11.v",
    "proof_files": ["theories/Proofs/MatchersProofs.v"],
    "gen": gen,
    "nontrivial": nontrivial,
    "distribution": distribution,
    "normalize": normalize,
    "post": post,
    "exhaustive": True,
    "rule": "EXHAUSTIVE (wildcard part): every wildcard pattern over the alphabet {a, A, *, \\, ?} of length <= 6 (quick) / "
            "<= 8 (thorough), each as a quoted literal (backslashes doubled) and as a raw string r\"..\" / r#\"..\"# / "
            "r##\"..\"##, under `wildcard` and `strict wildcard`, executed on every value over {a, A, b} of length <= 3 "
            "plus values with *, \\, ?, 0xff (non-UTF-8) and longer runs, and parsed under every star limit 0..4; "
            "every quoted SOURCE text of length <= 4 / <= 5 over {a, *, \\, quote, x, 4, 1} (escapes of the bytes lexer, "
            "its errors, an early closing quote); every quoted regex SOURCE text of length <= 5 / <= 6 over "
            "{a, quote, \\, [, ], ^} (the scanner with its class flag). SAMPLED: random long wildcard patterns with "
            "values derived from them (case flipped, one byte changed, multi-byte characters, 0x00, boundary letters "
            "@ [ ` {); regex patterns rendered from random syntax trees of the subset (literals incl. escaped "
            "metacharacters, ., classes with ranges / negation / escaped members / leading ] and - / quotes, \\xHH, "
            "\\d\\s\\w\\D\\S\\W, \\a\\f\\t\\n\\r\\v, groups, (?:), alternation incl. empty branches, ? * + with lazy "
            "markers, nested quantifiers, ^ $) in quoted form (through the inverse of the scanner) or raw form, with "
            "values sampled from the tree, near-misses, and \\n / 0xff / empty; compiled-size limit none / 2^20 / "
            "<= 16 bytes, DFA cache limit none / 0 / 10 / 4096; a malformed stream (fixed list + character-level "
            "mutations: unbalanced ( [ , dangling quantifiers, bad escapes, reversed ranges). A regex the model "
            "calls outside-subset is compared only by the pattern text that reached the engine (when it compiled) and "
            "is counted in coverage.regex_outside_subset. Non-trivial = a pattern with a metacharacter or escape and "
            "at least one value.",
    "vm_sample": (120, 1200),
    "assumptions": [
        "the wildcard crate (0.3.0) and regex-automata/regex-syntax are third-party: the model holds reference matchers "
        "and a parser for a SUBSET of regex-syntax; their agreement with the crates is validated only by these runs",
        "regex size limits are not modelled beyond: no limit / >= 2^20 bytes fits every subset pattern of <= 200 bytes; "
        "<= 16 bytes rejects every pattern that needs an NFA (repetition, anchor, empty match); a literal-only pattern "
        "may be served by a literal searcher without compiled size (either answer accepted)",
        "filter text = `f <op> <literal>`; the literal is rendered by the harness from the case's source text",
    ],
}
