"""C13 — the configurable nesting limit bounds every accepted filter."""
import itertools

import langgen as lg
from vp import to_sexp


EXPECT = {}     # case line -> nesting depth of the (well-typed) filter it carries


def ast_depth(e):
    """nesting of a langgen AST: parentheses, not, any/all, call argument lists"""
    k = e[0]
    if k == "comb":
        return max(ast_depth(x) for x in e[2:])
    if k == "cmp":
        return iexpr_depth(e[1])
    if k in ("paren", "not"):
        return 1 + ast_depth(e[1])
    if k == "qi":
        return 1 + iexpr_depth(e[2])
    if k == "ql":
        return 1 + ast_depth(e[2])
    raise ValueError(e)


def iexpr_depth(e):
    if e[0] == "field":
        return 0
    ds = [0]
    for a in e[2]:
        if a[0] == "ai":
            ds.append(iexpr_depth(a[1]))
        elif a[0] == "lit":
            ds.append(0)
        else:
            ds.append(ast_depth(a[1]))
    return 1 + max(ds)


def expect(line, depth):
    EXPECT[line] = depth
    return line


def parse_case(sch, text, depth=128, star=None, kind="parse"):
    return to_sexp((kind, sch.sexp(), ("settings", depth, star), text.encode() if isinstance(text, str) else text))


def nest(shape, leaf="tt", vec_leaf="bools"):
    """wrap a leaf in the given sequence of nesting constructs (outermost first):
       p = parentheses, n = not, q = any(...), f = function-call argument list"""
    # build inside-out; track whether the current expression is a boolean array
    inner = leaf
    for c in reversed(shape):
        if c == "p":
            inner = "(" + inner + ")"
        elif c == "n":
            inner = "not " + inner
        elif c == "q":
            # the argument must be a boolean array: use the array leaf at the innermost position only
            inner = "any(" + inner + ")"
        elif c == "f":
            inner = "echo_b(" + inner + ")"
    return inner


def shapes_text(shape):
    """a well-typed filter with exactly this nesting shape, or None if the shape cannot be typed"""
    # q needs a boolean-array argument: the expression inside `any(` must be an array; only p/n preserve that,
    # and the innermost leaf below a q must be the array leaf; f needs a Bool argument and returns Bool.
    # Walk from the outside in, tracking the type expected at each level.
    want = "bool"
    for c in shape:
        if c == "q":
            if want != "bool":
                return None
            want = "vec"
        elif c == "f":
            if want != "bool":
                return None
            want = "bool"
    leaf = "tt" if want == "bool" else "bools"
    return nest(shape, leaf, leaf)


def gen(rng, tier):
    out = []
    sch = lg.rich_scheme()
    maxlen = 7 if tier == "quick" else 9
    for n in range(0, maxlen + 1):
        for shape in itertools.product("pnqf", repeat=n):
            t = shapes_text(shape)
            if t is None:
                continue
            for d in range(0, 9):
                if abs(d - n) <= 2 or d in (0, 8):
                    out.append(expect(parse_case(sch, t, d), n))
    # large limits around d-1, d, d+1
    for d in (16, 64, 128, 129, 200):
        for k in (d - 1, d, d + 1):
            for _ in range(4 if tier == "quick" else 40):
                shape = []
                want = "bool"
                while len(shape) < k:
                    c = rng.choice("pnqf" if want == "bool" else "pn")
                    if c == "q":
                        want = "vec"
                    shape.append(c)
                t = shapes_text(shape)
                if t:
                    out.append(expect(parse_case(sch, t, d), k))
    # limits beyond one byte: the counter must not be narrower than the u16 setting
    for d in (255, 256, 257, 300):
        for k in (d - 1, d, d + 1):
            for c in "pn":
                out.append(expect(parse_case(sch, shapes_text([c] * k), d), k))
            mixed = [rng.choice("pn") for _ in range(k)]
            out.append(expect(parse_case(sch, shapes_text(mixed), d), k))
    # the deepest path runs through the 2nd / 3rd operand of a chain INSIDE parentheses (each level again)
    for d in range(0, 6):
        for k in range(0, 6):
            t = "tt"
            for _ in range(k):
                t = "(tt or " + t + ")"
            out.append(expect(parse_case(sch, t, d), k))
            t = "tt"
            for _ in range(k):
                t = "(tt and num == 1 xor " + t + ")"
            out.append(expect(parse_case(sch, t, d), k))
            t = "tt"
            for i in range(k):
                t = ("not (tt or " if i % 2 else "(tt and ") + t + ")"
            out.append(expect(parse_case(sch, t, d), k + sum(1 for i in range(k) if i % 2)))
    # the default limit (d = 128 by default): the library's own default, not a value we set
    for k in (126, 127, 128, 129, 130, 200):
        for c in "pnqf":
            shape = [c] * k if c in "pn" else ["p"] * (k - 1) + [c]
            t = shapes_text(shape)
            if t:
                out.append(expect(parse_case(sch, t, "default"), k))
    # deepest path in a function argument / quantifier argument / right operand of a chain
    for d in range(0, 7):
        for k in range(0, 7):
            deep = nest("p" * k, "tt")
            out.append(expect(parse_case(sch, "tt and num == 1 or " + deep, d), k))
            out.append(expect(parse_case(sch, "any(" + nest("p" * k, "bools") + " and bools)", d), 1 + k))
            out.append(expect(parse_case(sch, "join2(str, lower(" + nest("", "str") + ")) == \"a\" and echo_b(" + deep + ")", d),
                              max(2, 1 + k)))
            out.append(expect(parse_case(sch, "len(lower(echo(" + "echo(" * k + "str" + ")" * k + "))) == 1", d), 3 + k))
            out.append(expect(parse_case(sch, "len(" + "echo(" * k + "str" + ")" * k + ")", d, kind="parse-value"), 1 + k))
    # random well-typed filters under small limits
    g = lg.Gen(rng, sch, features=("index", "each", "quant", "oneof", "call", "vec", "mapbool"), max_depth=4)
    for _ in range(400 if tier == "quick" else 8000):
        e = g.gen_filter()
        text = lg.render_lexpr(sch, e, lg.Layout(rng))
        out.append(expect(parse_case(sch, text, rng.choice([0, 1, 2, 3, 4, 5, 6, 8, 128])), ast_depth(e)))
    return out


def property_oracle(line, impl_out):
    """C13 at the level of the property text: a well-typed filter of nesting n is accepted exactly when n <= d, and is
       otherwise rejected with an error (any error kind)"""
    import re
    if line not in EXPECT:
        return None
    m = re.search(r"\(settings (\d+|default) ", line)
    if not m:
        return None
    d, n = (128 if m.group(1) == "default" else int(m.group(1))), EXPECT[line]
    o = impl_out.strip()
    if o.startswith("(ok"):
        return "ok" if n <= d else "violates: accepted nesting %d under limit %d" % (n, d)
    if o.startswith("(err"):
        return "ok" if n > d else "violates: rejected nesting %d under limit %d: %s" % (n, d, o[:60])
    return "violates: " + o[:80]


def nontrivial(line):
    return True


def distribution(lines):
    return {"cases": len(lines)}


PROP = {
    "id": "C13",
    "prop_file": "theories/Props/C13.v",
    "proof_files": ["theories/Proofs/ParserClosed.v", "theories/Proofs/LimitProofs.v", "theories/Proofs/ParserProofs.v", "theories/Proofs/LexFacts.v", "theories/Proofs/TypingProofs.v"],
    "gen": gen,
    "compare_spec": False,
    "property_oracle": property_oracle,
    "nontrivial": nontrivial,
    "distribution": distribution,
    "exhaustive": True,
    "rule": "every sequence of the four nesting constructs (parentheses, not, any(), call argument list) up to depth 7/9 "
            "that can be typed, against limits d in 0..8 around its depth; random shapes at depth d-1, d, d+1 for d in "
            "{16,64,128,129,200}; deepest path in a function argument, a quantifier argument, the right operand of a chain; "
            "random well-typed filters under small limits. Compared: Ok(AST) / Err(kind, line, column, length) of the real "
            "parser vs the parser model.",
}
