"""C09 — set membership `in {...}`: generators and wiring."""
import itertools
from vp import to_sexp, some

I64_MIN, I64_MAX = -(1 << 63), (1 << 63) - 1
DOM_INT = [I64_MIN, I64_MIN + 1, -1, 0, 1, I64_MAX - 1, I64_MAX]
V4_MAX, V6_MAX = (1 << 32) - 1, (1 << 128) - 1
DOM_V4 = [0, 1, 0x7FFFFFFF, 0x80000000, V4_MAX - 1, V4_MAX]
DOM_V6 = [0, 1, (1 << 127) - 1, 1 << 127, V6_MAX - 1, V6_MAX]


def ranges_over(dom):
    return [(a, b) for a in dom for b in dom if a <= b]


def case(kind, items, probes):
    return to_sexp((kind, list(items), list(probes)))


def probes_int(dom):
    return [some(v) for v in dom] + [None]


def cidrs(bits, dom):
    """all well-formed CIDR items whose network address or last address touches the domain."""
    out = set()
    for v in dom:
        for n in [0, 1, 2, bits // 2, bits - 2, bits - 1, bits]:
            h = bits - n
            out.add(((v >> h) << h, n))
    return sorted(out)


def ip_items_small():
    its = []
    for a, b in ranges_over([0, 1, V4_MAX - 1, V4_MAX]):
        its.append(("r4", a, b))
    for a, n in cidrs(32, [0, 0x80000000, V4_MAX]):
        its.append(("c4", a, n))
    for a, b in ranges_over([0, 1, V6_MAX]):
        its.append(("r6", a, b))
    for a, n in cidrs(128, [0, V6_MAX]):
        its.append(("c6", a, n))
    return its


def ip_probes():
    return [some(("v4", v)) for v in DOM_V4] + [some(("v6", v)) for v in DOM_V6] + [None]


def near(rng, pool, lo, hi):
    v = rng.choice(pool) + rng.choice([-2, -1, 0, 0, 1, 2, rng.randrange(-1000, 1000)])
    return max(lo, min(hi, v))


# boundaries of narrower integer widths: a table specialised to i8 / i16 / i32 / u32 must not clamp or wrap
WIDTHS = [w for k in (7, 8, 15, 16, 31, 32) for w in (-(1 << k) - 1, -(1 << k), (1 << k) - 1, 1 << k)]


def width_int_case(rng):
    """all bounds inside one narrow width (edges included), probes on both sides of the edges and far beyond"""
    k = rng.choice([7, 8, 15, 16, 31, 32])
    lo, hi = -(1 << k), (1 << k) - 1
    n = rng.choice([1, 2, 3, 5])
    items = []
    for _ in range(n):
        a = rng.choice([lo, lo + 1, -1, 0, 1, hi - 1, hi, rng.randrange(lo, hi)])
        b = rng.choice([a, hi, rng.randrange(a, hi + 1)])
        items.append((a, b))
    if rng.random() < 0.7:
        items.append((rng.choice([0, hi - 1, hi]), hi))
    if rng.random() < 0.5:
        items.append((lo, rng.choice([lo, lo + 1, 0])))
    probes = {lo - 1, lo, lo + 1, hi - 1, hi, hi + 1, hi + 2, 5 * (hi + 1), -5 * (hi + 1), I64_MIN, I64_MAX, 0,
              (hi + 1) * 2 + 0, (1 << 32) + hi, -(1 << 32) + lo}
    return case("in-int", items, [some(v) for v in sorted(probes)] + [None])


def random_int_case(rng):
    n = rng.choice([0, 1, 2, 3, 5, 8, 13, 25, 40])
    pool = list(DOM_INT) + WIDTHS + [rng.randrange(I64_MIN, I64_MAX) for _ in range(3)]
    items = []
    for _ in range(n):
        a = near(rng, pool, I64_MIN, I64_MAX)
        if rng.random() < 0.3:
            b = a
        elif rng.random() < 0.1:
            b = I64_MAX
        else:
            b = near(rng, pool + [a], I64_MIN, I64_MAX)
        if a > b:
            a, b = b, a
        items.append((a, b))
        pool += [a, b]
    probes = set()
    for a, b in items:
        for e in (a, b):
            for d in (-1, 0, 1):
                if I64_MIN <= e + d <= I64_MAX:
                    probes.add(e + d)
    probes |= {I64_MIN, I64_MAX, 0}
    pl = sorted(probes)
    rng.shuffle(pl)
    return case("in-int", items, [some(v) for v in pl[:24]] + [None])


def random_ip_case(rng):
    n = rng.choice([0, 1, 2, 3, 5, 8, 13, 25, 40])
    items = []
    pool4 = list(DOM_V4) + [rng.randrange(0, V4_MAX) for _ in range(3)]
    # IPv4-mapped IPv6 addresses (::ffff:a.b.c.d) of the IPv4 pool: a range between two of them is an IPv6 range
    pool6 = (list(DOM_V6) + [rng.randrange(0, V6_MAX) for _ in range(3)] + [0xFFFF00000000 + rng.randrange(0, V4_MAX)]
             + [0xFFFF00000000 + v for v in pool4])
    for _ in range(n):
        fam6 = rng.random() < 0.4
        bits, pool, mx = (128, pool6, V6_MAX) if fam6 else (32, pool4, V4_MAX)
        if rng.random() < 0.4:
            plen = rng.choice([0, 1, 7, 8, bits // 2, bits - 8, bits - 1, bits, rng.randrange(0, bits + 1)])
            h = bits - plen
            a = (near(rng, pool, 0, mx) >> h) << h
            items.append(("c6" if fam6 else "c4", a, plen))
            pool += [a, a + (1 << h) - 1]
        else:
            a = near(rng, pool, 0, mx)
            b = a if rng.random() < 0.3 else near(rng, pool + [a], 0, mx)
            if a > b:
                a, b = b, a
            items.append(("r6" if fam6 else "r4", a, b))
            pool += [a, b]
    probes = []
    for p, mx, tag in ((pool4, V4_MAX, "v4"), (pool6, V6_MAX, "v6")):
        s = set()
        for e in p:
            for d in (-1, 0, 1):
                if 0 <= e + d <= mx:
                    s.add(e + d)
        sl = sorted(s)
        rng.shuffle(sl)
        probes += [some((tag, v)) for v in sl[:14]]
    # the same numeric value in the other family must never match; neither must the IPv4 address an
    # IPv4-mapped IPv6 item embeds, nor the mapped form of an IPv4 item
    for it in items[:6]:
        if it[0] in ("r4", "c4"):
            probes.append(some(("v6", it[1])))
            probes.append(some(("v6", 0xFFFF00000000 + it[1])))
        else:
            if it[1] <= V4_MAX:
                probes.append(some(("v4", it[1])))
            if 0xFFFF00000000 <= it[1] <= 0xFFFFFFFFFFFF:
                probes.append(some(("v4", it[1] - 0xFFFF00000000)))
                probes.append(some(("v6", it[1])))
                if it[0] == "r6" and 0xFFFF00000000 <= it[2] <= 0xFFFFFFFFFFFF:
                    mid = (it[1] + it[2]) // 2
                    probes.append(some(("v6", mid)))
                    probes.append(some(("v4", mid - 0xFFFF00000000)))
    return case("in-ip", items, probes + [None])


def random_bytes_case(rng):
    alpha = [b"", b"a", b"ab", b"abc", b"abd", b"b", b"\x00", b"\xff", b"\xff\x00", b"a\x00", bytes(range(256))]
    n = rng.choice([0, 1, 2, 4, 8, 20, 40])
    items = []
    for _ in range(n):
        r = rng.random()
        if r < 0.5:
            items.append(rng.choice(alpha))
        elif r < 0.8 and items:
            b = rng.choice(items)
            items.append(b + bytes([rng.randrange(256)]) if rng.random() < 0.5 else b[:-1])
        else:
            items.append(bytes(rng.randrange(256) for _ in range(rng.randrange(0, 12))))
    probes = set(items[:10]) | set(rng.sample(alpha, 4))
    for b in list(probes)[:6]:
        probes.add(b + b"\x00")
        probes.add(b[:-1])
    return case("in-bytes", items, [some(p) for p in sorted(probes)] + [None])


def gen(rng, tier):
    out = []
    rs = ranges_over(DOM_INT)
    k = 3 if tier == "thorough" else 2
    for n in range(0, k + 1):
        for items in itertools.product(rs, repeat=n):
            out.append(case("in-int", items, probes_int(DOM_INT)))
    # sampled lists one size up
    for _ in range(3000 if tier == "quick" else 60000):
        items = [rng.choice(rs) for _ in range(k + 1)]
        out.append(case("in-int", items, probes_int(DOM_INT)))
    ips = ip_items_small()
    pr = ip_probes()
    for n in range(0, 3 if tier == "thorough" else 2):
        for items in itertools.product(ips, repeat=n):
            out.append(case("in-ip", items, pr))
    for _ in range(2000 if tier == "quick" else 40000):
        items = [rng.choice(ips) for _ in range(rng.choice([2, 3, 4]))]
        out.append(case("in-ip", items, pr))
    nr = 700 if tier == "quick" else 14000
    for _ in range(nr):
        out.append(random_int_case(rng))
        out.append(random_ip_case(rng))
        out.append(width_int_case(rng))
    for _ in range(nr // 2):
        out.append(random_bytes_case(rng))
    return out


def nontrivial(line):
    # at least two items, or an extreme / absent probe with at least one item
    return line.count("(") >= 5


def distribution(lines):
    d = {"in-int": 0, "in-ip": 0, "in-bytes": 0, "items_0": 0, "items_1_3": 0, "items_4_plus": 0}
    for l in lines:
        kind = l[1:l.index(" ")]
        d[kind] = d.get(kind, 0) + 1
        # items list is the first nested list
        depth = 0
        n = 0
        i = l.index(" ") + 1
        for ch in l[i:]:
            if ch == "(":
                depth += 1
                if depth == 2:
                    n += 1
            elif ch == ")":
                depth -= 1
                if depth == 0:
                    break
        if kind == "in-bytes":
            n = l[i:].split(")")[0].count("#")
        d["items_0" if n == 0 else "items_1_3" if n <= 3 else "items_4_plus"] += 1
    return d


PROP = {
    "id": "C09",
    "prop_file": "theories/Props/C09.v",
    "proof_files": ["theories/Proofs/RangeSetProofs.v", "theories/Proofs/C09Proofs.v"],
    "gen": gen,
    "nontrivial": nontrivial,
    "distribution": distribution,
    "exhaustive": True,
    "rule": "exhaustive: every list of <=2 (quick) / <=3 (thorough) ranges over the 7-point i64 domain "
            "{MIN,MIN+1,-1,0,1,MAX-1,MAX} x every probe incl. absent, and every list of <=1 / <=2 items over a small "
            "IPv4/IPv6 domain (explicit ranges and CIDR blocks of both families) x 13 probes; sampled lists one size up; "
            "random lists of <=40 items with endpoints drawn around each other and the type extremes, probes at every "
            "endpoint and its neighbours; byte-string sets with shared prefixes, empty string, duplicates. "
            "Each case = one list and all its probes, run through scheme.parse/compile/execute. "
            "Non-trivial = the list has at least two items; distinct = distinct case line.",
    "vm_sample": (160, 1600),
    "assumptions": ["filter text is rendered by the harness (decimal integers, std Display of addresses, \\xHH bytes)"],
}
