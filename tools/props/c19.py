"""C19 — the panic catcher: generators and wiring.

Programs are forests over the step alphabet
  enable | disable | install | (fallback continue) | (fallback abort) | backtrace | level | (panic k) | (catch ...)
whose length is the number of nodes (a catch counts 1 plus its body).  Panic messages are numbered
1, 2, ... in program order, so every panic of a program has its own text."""
import itertools
import subprocess
from concurrent.futures import ThreadPoolExecutor
from functools import lru_cache

import vp

LEAVES = ["enable", "disable", "install", "(fallback continue)", "(fallback abort)", "backtrace", "level", "P"]
LEAVES_NO_ABORT = [l for l in LEAVES if l != "(fallback abort)"]


def make_enum(leaves):
    leaves = tuple(leaves)

    @lru_cache(maxsize=None)
    def forests(n):
        """all forests with exactly n nodes, as tuples of trees; a tree is a leaf string or ('catch', forest)."""
        if n == 0:
            return ((),)
        out = []
        for k in range(1, n + 1):
            for t in trees(k):
                for rest in forests(n - k):
                    out.append((t,) + rest)
        return tuple(out)

    @lru_cache(maxsize=None)
    def trees(k):
        out = []
        if k == 1:
            out.extend(leaves)
        for body in forests(k - 1):
            out.append(("catch", body))
        return tuple(out)

    return forests


FORESTS = make_enum(LEAVES)
FORESTS_NA = make_enum(LEAVES_NO_ABORT)


def render(forest, first=0):
    """s-expression text of a forest, numbering the panics in program order (from first + 1)."""
    counter = [first]

    def r_tree(t):
        if isinstance(t, tuple):
            return "(catch" + "".join(" " + r_tree(x) for x in t[1]) + ")"
        if t == "P":
            counter[0] += 1
            return "(panic %d)" % counter[0]
        return t

    return "(" + " ".join(r_tree(t) for t in forest) + ")"


def ticks(forest):
    """number of atomic steps of the step machine when nothing panics (upper bound otherwise)."""
    n = 0
    for t in forest:
        n += 2 + ticks(t[1]) if isinstance(t, tuple) else 1
    return n


def random_forest(rng, n, leaves):
    """a random forest with exactly n nodes (not uniform: catch is favoured to get nesting)."""
    out = []
    while n > 0:
        if rng.random() < 0.35:
            k = rng.randrange(0, n)  # body size
            out.append(("catch", random_forest(rng, k, leaves)))
            n -= 1 + k
        else:
            # panics and enable are what makes a program interesting
            out.append(rng.choice(leaves + ["P", "P", "enable"]))
            n -= 1
    return tuple(out)


def single(forest, rng=None, size=99, rate=0.0):
    """`probe` = confirm an abort outcome for real in a child process (0.5 s each): every program of
    length <= 3 and a sample of the programs that set fallback Abort before a panic."""
    r = render(forest)
    a = r.find("(fallback abort)")
    probe = size <= 3 or (a >= 0 and r.find("(panic ", a) >= 0 and rng is not None and rng.random() < rate)
    return "(panic-prog %s%s)" % (r, " probe" if probe else "")


def two(fa, fb, sched):
    return "(panic-2threads %s %s (%s))" % (render(fa), render(fb), " ".join(str(x) for x in sched))


def interleavings(na, nb):
    for pos in itertools.combinations(range(na + nb), na):
        s = [1] * (na + nb)
        for i in pos:
            s[i] = 0
        yield s


def gen(rng, tier):
    out = []
    # directed: the situations of the four unit tests of the repo, and the deepest shapes
    out.append("(panic-prog (install (fallback abort) enable (catch (panic 1)) disable) probe)")
    out.append("(panic-prog (install (fallback abort) enable (catch (catch (panic 1)) (panic 2)) disable) probe)")
    out.append("(panic-prog (install (fallback abort) enable (catch (catch (panic 1)) (panic 2)) disable (panic 3)) probe)")
    out.append("(panic-prog (install (panic 1)))")
    out.append("(panic-prog (install enable disable (panic 1)))")
    out.append("(panic-prog (enable (catch (catch (catch (catch (catch (catch level (panic 1)) level) level) "
               "disable (catch (panic 2)) level) backtrace) level) level backtrace (panic 3)))")
    # nesting far beyond anything a narrow counter holds: the innermost frame is the one that catches
    for depth in (127, 128, 129, 255, 256, 257, 300) if tier == "quick" else (127, 128, 129, 255, 256, 257, 300, 1000):
        for inner in ("level (panic 1)", "(panic 1) level", "level"):
            body = inner
            for _ in range(depth):
                body = "(catch %s)" % body
            out.append("(panic-prog (enable %s level backtrace (catch (panic 2)) disable))" % body)
    full = 5 if tier == "quick" else 6
    rate = 0.005 if tier == "quick" else 0.003
    for n in range(0, full + 1):
        for f in FORESTS(n):
            out.append(single(f, rng, n, rate))
    if tier == "thorough":
        for _ in range(60000):
            out.append(single(random_forest(rng, 7, LEAVES), rng, 7, rate))
        for _ in range(5000):
            out.append(single(random_forest(rng, rng.choice([8, 10, 12, 16, 24]), LEAVES), rng, 8, rate))
    else:
        for _ in range(3000):
            out.append(single(random_forest(rng, rng.choice([6, 7, 8]), LEAVES), rng, 6, rate))
    # two real threads in lock-step; Abort mode is left out (it would end the process)
    small = 1 if tier == "quick" else 2
    progs = [f for n in range(0, small + 1) for f in FORESTS_NA(n)]
    for fa in progs:
        for fb in progs:
            for s in interleavings(ticks(fa), ticks(fb)):
                out.append(two(fa, fb, s))
    pool3 = [f for n in range(1, 4) for f in FORESTS_NA(n)]
    for _ in range(2500 if tier == "quick" else 60000):
        fa, fb = rng.choice(pool3), rng.choice(pool3)
        na, nb = ticks(fa), ticks(fb)
        s = [0] * na + [1] * nb
        rng.shuffle(s)
        out.append(two(fa, fb, s))
    # (in thorough) all interleavings of a sample of pairs of length-3 programs
    if tier == "thorough":
        for _ in range(1500):
            fa, fb = rng.choice(pool3), rng.choice(pool3)
            for s in interleavings(ticks(fa), ticks(fb)):
                out.append(two(fa, fb, s))
    # threads released together and left to run freely: their steps (the hook and its backtrace capture included)
    # overlap in time for real.  Same-shaped programs make the panics coincide; mixed shapes shift them.
    shapes = [f for n in range(2, 6) for f in FORESTS_NA(n)
              if any(isinstance(t, tuple) and "P" in t[1] for t in f)]
    for i in range(24 if tier == "quick" else 300):
        k = [2, 4, 8, 16][i % 4]
        if i % 3 == 2:
            progs = [("enable",) + rng.choice(shapes) for _ in range(k)]
        else:
            progs = [("enable",) + rng.choice(shapes)] * k
        out.append("(panic-free %s)" % " ".join(render(p, 100 * j) for j, p in enumerate(progs)))
    # the child-process probes are slow: spread them over the shards
    rng.shuffle(out)
    return out


def nontrivial(line):
    # a catch_panic and a panic in the same program
    return "(catch" in line and "(panic " in line


def nest_depth(line):
    """(deepest nesting of catch, whether some panic is lexically inside a catch)"""
    d = best = 0
    i = 0
    stack = []
    inside = False
    while i < len(line):
        if line.startswith("(catch", i):
            stack.append(True)
            d += 1
            best = max(best, d)
            i += 6
            continue
        if line.startswith("(panic ", i) and d > 0:
            inside = True
        if line[i] == "(":
            stack.append(False)
        elif line[i] == ")":
            if stack and stack.pop():
                d -= 1
        i += 1
    return best, inside


def distribution(lines):
    d = {"single": 0, "two_threads": 0, "free_threads": 0, "with_catch": 0, "with_panic": 0, "panic_inside_catch": 0,
         "with_fallback_abort": 0, "with_disable_after_enable": 0}
    depth = {}
    length = {}
    for l in lines:
        kind = "single" if l.startswith("(panic-prog") else ("free_threads" if l.startswith("(panic-free") else "two_threads")
        d[kind] += 1
        if "(catch" in l:
            d["with_catch"] += 1
        if "(panic " in l:
            d["with_panic"] += 1
        if "(fallback abort)" in l:
            d["with_fallback_abort"] += 1
        if "enable" in l and "disable" in l and l.index("enable") < l.rindex("disable"):
            d["with_disable_after_enable"] += 1
        nd, inside = nest_depth(l)
        depth[nd] = depth.get(nd, 0) + 1
        if inside:
            d["panic_inside_catch"] += 1
        if kind == "single":
            n = sum(l.count(w) for w in ("enable", "disable", "install", "(fallback", "backtrace", "level",
                                         "(panic ", "(catch"))
            length[n] = length.get(n, 0) + 1
    d["catch_nesting_depth"] = {str(k): v for k, v in sorted(depth.items())}
    d["single_program_length"] = {str(k): v for k, v in sorted(length.items())}
    return d


def post(ctx):
    """outcome distribution, from the specification's answers."""
    o = {"returned": 0, "unwound": 0, "abort": 0, "two": 0, "two-abort": 0, "err_with_message": 0,
         "err_unknown": 0, "prev_hook_calls": 0, "ok_results": 0}
    for s in ctx["spec"] or ctx["model"]:
        head = s[1:].split(" ", 1)[0].rstrip(")")
        o[head] = o.get(head, 0) + 1
        o["err_with_message"] += s.count("(err ")
        o["err_unknown"] += s.count("(err)")
        o["prev_hook_calls"] += s.count("(prev ")
        o["ok_results"] += s.count(" ok") + s.count("(ok")
    race = install_race_real(400 if ctx["tier"] == "quick" else 4000)
    res = {"coverage": {"outcomes": o, "install_race_real_code": race}}
    if race["lost"] > 0:
        known = [k for k in vp.load_known().get("known", [])
                 if k.get("property") == "C19" and k.get("tag") == "install-race"]
        if known:
            print("KNOWN-FINDING: property=C19 %s (this run: previous hook lost in %d of %d fresh processes)"
                  % (known[0].get("what", "install-race"), race["lost"], race["runs"]))
        else:
            rec = {"property": "C19",
                   "verdict": "genuine defect observed on the real code: racing first calls of "
                              "panic_catcher_set_hook() lose the previously installed panic hook "
                              "(Coq: C19_install_race_refuted_previous_hook_lost; fixed design: C19_Fixed_install_once_benign)",
                   "reproducer": "harness/target/debug/wfh --c19-install-race 2   (fresh process: sentinel hook, 2 threads "
                                 "released by a barrier each call wirefilter::panic_catcher_set_hook(), then "
                                 "panic!() on a fresh thread at level 0 with fallback Continue; prints (lost) when the "
                                 "sentinel, i.e. the previous hook, was not called)",
                   "observed": race}
            res["violations"] = [("install-race", vp.write_replay("C19", rec), "")]
    return res


def install_race_real(runs):
    """Witness 2 of the Coq refutation, tried on the real code in fresh processes (harness mode
    --c19-install-race).  `(lost)` is printed only when the sentinel hook did not see a panic raised
    outside catch_panic after the racing installations; anything else counts as kept/invalid."""
    exe = vp.harness_bin(False)

    def one(i):
        try:
            p = subprocess.run([exe, "--c19-install-race", str(2 + (i % 3) * 3)], stdout=subprocess.PIPE,
                               stderr=subprocess.DEVNULL, timeout=60)
            return p.stdout.decode().strip()
        except Exception:  # the exploration never breaks the check
            return "(error)"
    with ThreadPoolExecutor(max_workers=8) as ex:
        outs = list(ex.map(one, range(runs)))
    return {"runs": runs, "lost": outs.count("(lost)"), "kept": outs.count("(kept)"),
            "invalid": runs - outs.count("(lost)") - outs.count("(kept)")}


PROP = {
    "id": "C19",
    "prop_file": "theories/Props/C19.v",
    "proof_files": ["theories/Proofs/PanicProofs.v"],
    "gen": gen,
    "nontrivial": nontrivial,
    "distribution": distribution,
    "post": post,
    "exhaustive": True,
    "vm_sample": (200, 1500),
    "shrink_budget": 80,
    "rule": "exhaustive: every program (forest) with <=5 (quick) / <=6 (thorough) nodes over {enable, disable, install, "
            "(fallback continue), (fallback abort), backtrace, level, (panic k), (catch ...)}, a catch counting 1 plus "
            "its body, panics numbered in program order so each has a unique text; plus sampled programs of length "
            "6-8 (quick) / 7 (60000) and 8-24 (5000) (thorough).  Each program runs on a fresh std::thread in the "
            "harness process after a silent sentinel hook and then wirefilter's hook were installed once per process "
            "(so `install` is the no-op re-installation); observations: the value returned by every API call, the "
            "level hook, (prev k) appended by the sentinel hook on the panicking thread, Ok/Err of every catch_panic "
            "with the set of program messages found in the text, how the thread's program ended (returned / unwound "
            "with message k), and level and last backtrace after the program on both paths.  Abort outcomes: the "
            "harness does not issue a panic at observed level 0 (verif hook) with fallback Abort in-process, it stops "
            "the program there and answers (abort ...); for every program of length <=3, the directed cases and a "
            "0.5% (quick) / 0.3% (thorough) sample of the programs that set Abort before a panic (marker `probe`) it "
            "also re-runs the case unguarded in a child process and keeps the answer only if the child died with "
            "SIGABRT.  "
            "Two-thread cases (no Abort mode): every pair of programs with <=1 (quick) / <=2 (thorough) nodes under "
            "every interleaving of their atomic steps, 2500 / 60000 sampled pairs of programs with <=3 nodes under a "
            "random interleaving, and (thorough) all interleavings of 1500 sampled pairs; two real threads driven in "
            "lock-step through channels (a catch_panic whose body spans several steps keeps the thread inside the "
            "closure between steps); and 24 / 300 cases of 2, 4, 8 or 16 threads released by a barrier and left to run freely (two thirds "
            "with the same program on every thread, so that the panics and the hook's backtrace captures coincide in "
            "time), whose answer is each thread's answer when run alone (C19_interleaving_matches_alone).  Non-trivial = the case contains both a catch_panic and a panic; distinct = "
            "distinct case line.",
    "assumptions": [
        "real unwinding, catch_unwind, std::panic::set_hook/take_hook and thread_local! are trusted (modelled, tied "
        "by the correspondence only)",
        "the returned backtrace text is reduced to the set of program messages occurring in it",
        "the hook is already installed when a case starts; the first installation racing with other threads is "
        "analysed in the model (theorems C19_install_race_refuted*, C19_Fixed_install_once_benign): the steps "
        "between take_hook and set_hook cannot be scheduled from outside in the real code; the lost-previous-hook "
        "witness is additionally tried on the real code in 400 (quick) / 4000 (thorough) fresh processes "
        "(coverage.install_race_real_code) and reported as a finding when observed",
        "u64 overflow of the nesting counter (2^64 nested catch_panic) is modelled as an abort and excluded from "
        "C19_model_is_spec by level + depth <= u64::MAX; it is not exercised for real",
    ],
}
