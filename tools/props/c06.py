"""C06 — literal forms: generators and wiring.

case: (lit KIND PAREN #text #suffix)       -> (ok <literal>) | (err Kind)
      (lit-span KIND PAREN #text #suffix)  -> (ok <literal>) | (err Kind line start len)
The text is embedded by both sides in  i == T | i in {T} | i in $T | s == T | s in {T} |
p == T | p in {T} | a[T] == 1 | m[T] == 1, after "(" / "( " when PAREN is 1 / 2, followed by the suffix."""
import ipaddress
import re
from vp import to_sexp

I64_MIN, I64_MAX = -(1 << 63), (1 << 63) - 1

# what may follow a literal: (paren, suffix).  Only `t` ever follows a combining operator.
FOLLOW_OK = [(0, b""), (0, b" and t"), (0, b" or t"), (0, b" xor t"), (0, b" && t"), (0, b"||t"), (0, b" ^^ t"),
             (0, b"  "), (0, b"\n"), (0, b"\r\n and t"), (0, b"\t"), (1, b")"), (2, b" )"), (1, b") and t"),
             (1, b" and t)"), (0, "  ".encode()), (0, "　".encode())]
FOLLOW_ODD = [(0, b"and t"), (0, b"or t"), (0, b"xor t"), (0, b"&& t"), (0, b")"), (1, b""), (1, b"))"), (0, b"}"),
              (0, b"]"), (0, b";"), (0, b","), (0, b" t"), (0, b"x"), (0, b"g"), (0, b"a"), (0, b"f"), (0, b"F"), (0, b"."),
              (0, b".."), (0, b":"), (0, b"/"), (0, b"-"), (0, b"+"), (0, b"#"), (0, b'"'), (0, b"\\"), (0, b"0"),
              (0, b"8"), (0, b"_"), (0, "é".encode()), (0, " x".encode()), (0, b"\tand t"), (0, b" and t "),
              (0, b" and"), (0, b" &&"), (0, b"\x0b"), (0, b"\x0c"), (0, b" \x00")]
FOLLOWS = FOLLOW_OK + FOLLOW_ODD


def case(kind, text, suffix=b"", paren=0, span=False):
    if isinstance(text, str):
        text = text.encode()
    if isinstance(suffix, str):
        suffix = suffix.encode()
    return to_sexp(("lit-span" if span else "lit", kind, paren, bytes(text), bytes(suffix)))


def with_follows(out, kind, text, follows=FOLLOWS):
    for p, s in follows:
        out.append(case(kind, text, s, p))


# ------------------------------------------------------------------ integers
def radix_forms(v):
    """every way the value can be written"""
    f = [str(v)]
    if v >= 0:
        f += ["0x%x" % v, "0x%X" % v, "0%o" % v, "0x000%x" % v, "000%o" % v]
    else:
        f += ["-0%d" % -v, "-000%d" % -v]
    return f


INT_BOUNDARY = [I64_MIN, I64_MIN + 1, -(1 << 32), -(1 << 31) - 1, -(1 << 31), -256, -10, -9, -8, -1, 0, 1, 7, 8, 9, 10, 15,
                16, 63, 64, 255, 256, (1 << 31) - 1, 1 << 31, (1 << 32) - 1, 1 << 32, (1 << 62), I64_MAX - 1, I64_MAX]
INT_OUT = [I64_MAX + 1, I64_MIN - 1, 1 << 64, (1 << 64) - 1, -(1 << 64), 10 ** 30, -10 ** 30]
INT_ODD = ["", "-", "--1", "- 1", "+1", "-+1", "0x", "0x-1", "-0x1", "0X1F", "0xg", "0xfg", "0b1", "0o7", "08", "09", "019",
           "0_1", "1_000", "1e3", "1a", "a1", "ff", "0xff", "00", "-0", "-00", "-08", "-0x", "1.0", "1.", ".1", "1..2",
           "١", "１", "1١", "0x١", " 1", "1 ", "1\t", "１", "0x8000000000000000", "0xffffffffffffffff",
           "0x7fffffffffffffff", "01000000000000000000000", "0777777777777777777777", "0x0000000000000000000001",
           "-9223372036854775808", "-9223372036854775809", "9223372036854775808", "0x1 2", "1and t", "1or t", "2and t",
           "0xand t", "1 and t"]


def gen_ints(rng, tier, out):
    vals = list(INT_BOUNDARY)
    n = 150 if tier == "quick" else 3000
    for _ in range(n):
        bits = rng.choice([1, 4, 8, 16, 31, 32, 33, 62, 63])
        v = rng.getrandbits(bits)
        vals.append(v if rng.random() < 0.6 else -v)
    forms = []
    for v in vals:
        forms += radix_forms(v)
    for v in INT_OUT:
        forms += [str(v)] + (["0x%x" % v, "0%o" % v] if v >= 0 else [])
    forms += INT_ODD
    for i, f in enumerate(forms):
        out.append(case("int-eq", f))
        out.append(case("int-in", f))
        if i < 400 or i % 7 == 0:
            out.append(case("arr-idx", f))
    # every follow after a decimal, a hex, an octal and a negative literal
    for f in ["78", "0x1f", "017", "-12", "0", "9223372036854775807", "0xe", "1a"]:
        with_follows(out, "int-eq", f)
        with_follows(out, "int-in", f)
        with_follows(out, "int-in", f + ".." + f)
    # ranges
    pool = INT_BOUNDARY + [rng.randrange(I64_MIN, I64_MAX) for _ in range(20)]
    nr = 300 if tier == "quick" else 6000
    for _ in range(nr):
        a, b = rng.choice(pool), rng.choice(pool)
        fa, fb = rng.choice(radix_forms(a)), rng.choice(radix_forms(b))
        out.append(case("int-in", "%s..%s" % (fa, fb)))
    for a in INT_BOUNDARY:
        for d in (-1, 0, 1):
            b = a + d
            if I64_MIN <= b <= I64_MAX:
                out.append(case("int-in", "%d..%d" % (a, b)))
    for t in ["", " ", "1 2 3", "1  2", " 1 ", "1,2", "1..2 3..4", "1..2..3", "1...2", "1.. 2", "1 ..2", "..2", "1..",
              "1-2", "1 -2", "1--2", "0x10..0x20", "010..020", "-5..-1", "-1..-5", "1..1", "2..1", "0x2..1", "1\n2",
              "1\t2", "1}", "1 2}", "{1}", "1 \"a\"", "1 1.2.3.4", "1..a", "a..1", "1..0x", "0x..1", "1;2", "$a", "1 $a",
              "9223372036854775807..9223372036854775807", "-9223372036854775808..9223372036854775807",
              "9223372036854775807..-9223372036854775808", "1..9223372036854775808", "0..00", "00..0", "-0..0", "0..-0",
              "0x0A..0xa", "12 0x12 012", "1and", "1 and t"]:
        with_follows(out, "int-in", t, FOLLOW_OK[:4] + [(0, b"}"), (0, b" }"), (1, b")")])
        out.append(case("int-in", t, span=True))
    for f in forms[::5] + INT_ODD:
        out.append(case("int-eq", f, span=True))
        out.append(case("int-eq", f, b" and t", span=True))


# ------------------------------------------------------------------ byte strings
HEXU = "0123456789ABCDEF"
HEXL = "0123456789abcdef"


def esc_forms(b):
    """every escape form of one byte inside a quoted string (as bytes)"""
    f = [b"\\x%02x" % b, b"\\x%02X" % b, b"\\%03o" % b]
    hx = "%02x" % b
    if hx[0].isalpha() and hx[1].isalpha():
        f.append(("\\x" + hx[0].upper() + hx[1]).encode())
        f.append(("\\x" + hx[0] + hx[1].upper()).encode())
    if b < 128 and b not in (34, 92):
        f.append(bytes([b]))
    if b == 34:
        f.append(b'\\"')
    if b == 92:
        f.append(b"\\\\")
    return f


UTF8_SAMPLES = ["é", "ß", "€", "𝄞", "日本", "\u0080", "߿", "ࠀ", "￿", "\U00010000", "\U0010ffff", "á"]


def quoted(bs, rng):
    t = b'"'
    for b in bs:
        t += rng.choice(esc_forms(b))
    return t + b'"'


def raw_ok_body(rng, n):
    """a valid UTF-8 body without a quote followed by >= n hashes"""
    parts = []
    for _ in range(rng.randrange(0, 8)):
        r = rng.random()
        if r < 0.35 and n > 0:
            parts.append('"' + "#" * rng.choice([0, max(0, n - 1), rng.randrange(0, n)]))
            parts.append(rng.choice(["a", " ", "\\", "é", "x#"]))
        elif r < 0.5:
            parts.append("#" * rng.randrange(0, n + 3))
        elif r < 0.6:
            parts.append(rng.choice(UTF8_SAMPLES))
        else:
            parts.append(rng.choice(["a", "bc", "\\", "\\x41", "\\\"" if n > 0 else "\\'", "\n", "r", " ", "\t", "\x00", "''"]))
    body = "".join(parts)
    if n == 0:
        body = body.replace('"', "'")
    return body


def raw(body, n, m=None):
    return "r" + "#" * n + '"' + body + '"' + "#" * (n if m is None else m)


BAD_ESCAPES = ['"\\n"', '"\\t"', '"\\r"', '"\\0"', '"\\00"', '"\\0 0"', '"\\8"', '"\\9"', '"\\08"', '"\\008"', '"\\400"',
               '"\\777"', '"\\378"', '"\\1777"', '"\\x"', '"\\x0"', '"\\x0g"', '"\\xg0"', '"\\X41"', '"\\u0041"',
               '"\\u{41}"', '"\\\'"', '"\\ "', '"\\é"', '"\\€"', '"\\x4é"', '"\\xé1"', '"\\04é"', '"\\0é1"', '"\\a"',
               '"\\x 1"', '"\\x1 "', '"\\x-1"', '"\\x+1"', '"\\x+f"', '"\\x+F"', '"\\x++"', '"\\x+"', '"\\+77"', '"\\0+7"',
               '"\\00+"', '"\\-01"', '"\\x0x"', '"\\x"x', '"\\', '"abc\\', '"abc\\"', '"abc', '"', '"\\x4', '"\\x', '"\\0',
               '"\\04', '"\\x41', '"\\101', '"a\\"', '"\\\\\\"', '""', '"" ""', '"a""b"', '"a" "b"', "'a'", "`a`", '"\n"',
               '"a\nb"', '"\\\n"', '"\x00"', '"\x7f"', '"\\x00\\000"', '"é"', '"\\xc3\\xa9"', 'r', 'r#', 'r"', 'r#"', 'r#"a"',
               'r#"a"#', 'r#"a"##', 'r##"a"#', 'r##"a"#"##', 'rx', 'r "a"', 'r# "a"#', 'R"a"', 'r\'a\'', 'r#a', 'r"a', 'r"a"b',
               'r""', 'r#""#', 'r"\\"', 'r"\\""', 'r#"\\""#', 'r"é"', 'r#"é"#é', 'r"\n"', 'rr"a"', 'r"a"r"b"', 'b"a"', 'é',
               '€1:02', '1', '01', '0', '', '01:', '01:0', '01:0g', '01:g0', '01::02', '01 :02', '01: 02', '0102', '01:02:',
               '01:02.', '01:02-', '1:2', '001:02', '01:002', '01:02:3', '+f:0a', '0f:+a', '+f:+a', '-f:0a', '0f:-a', '+1:+2',
               '0f:0+', ' f:0a', 'f :0a', '0x01:02', 'ab:cd', 'AB-CD.ef', 'aB:Cd', 'ff:ff:ff:ff:ff:ff', 'de.ad.be.ef',
               'de-ad-be-ef', '01:02 03:04', '01:02"a"', '"a"01:02', '01:02r"a"', 'r"a"01:02', '01:02and t', '01:0é',
               '0é:01', 'é1:01', '01é02', '01:02é', '00:00', 'g0:00', '0g:00', '00;00', '00_00', '00/00', '00 00']


def gen_bytes(rng, tier, out):
    # all 256 bytes in every escape form, alone and in context, as value, list item and map key
    for b in range(256):
        for f in esc_forms(b):
            out.append(case("bytes-eq", b'"' + f + b'"'))
            out.append(case("bytes-in", b'"a' + f + b'b" "' + f + b'"'))
            out.append(case("map-idx", b'"' + f + f + b'"'))
        # hex pairs: the byte first / last, upper / lower case, every separator
        for sep in ":-.":
            out.append(case("bytes-eq", "%02x%s%02X" % (b, sep, b)))
        out.append(case("bytes-in", "00:%02x %02X.ff" % (b, b)))
        # octal escapes of the values 256..511 are rejected, as are 8 and 9 digits
        out.append(case("bytes-eq", '"\\%03o"' % (256 + b)))
    # every hash count 0..255 and beyond
    for n in list(range(0, 258)) + [300, 511, 512, 1000]:
        body = raw_ok_body(rng, n)
        out.append(case("bytes-eq", raw(body, n)))
        if n > 0:
            out.append(case("bytes-eq", raw('a"' + "#" * (n - 1) + "b", n)))        # one hash short inside
            out.append(case("bytes-eq", raw('"' + "#" * (n - 1), n)))               # ... right before the end
            out.append(case("bytes-eq", raw("a", n, n - 1)))                        # closing run too short
        out.append(case("bytes-eq", raw("a", n, n + 1)))                            # one hash too many: left over
        out.append(case("bytes-in", raw(body, n) + raw("x", n) + ' ""'))
    nq = 400 if tier == "quick" else 8000
    for _ in range(nq):
        ln = rng.choice([0, 1, 2, 3, 5, 8, 20])
        bs = bytes(rng.randrange(256) for _ in range(ln))
        p, s = rng.choice(FOLLOW_OK)
        out.append(case("bytes-eq", quoted(bs, rng), s, p))
        out.append(case("bytes-in", quoted(bs, rng) + rng.choice([b"", b" "]) + quoted(bs[::-1], rng), s, p))
        if len(bs) >= 2:
            t = "%02x" % bs[0]
            for b in bs[1:]:
                t += rng.choice(":-.") + rng.choice(["%02x", "%02X"]) % b
            out.append(case("bytes-eq", t, s, p))
            out.append(case("bytes-in", t + " " + t, s, p))
        n = rng.choice([0, 1, 1, 2, 3, 7, 40, 255])
        body = raw_ok_body(rng, n)
        out.append(case("bytes-eq", raw(body, n), s, p))
        out.append(case("bytes-in", raw(body, n) + " " + raw(body, n), s, p))
    for t in BAD_ESCAPES:
        out.append(case("bytes-eq", t))
        out.append(case("bytes-in", t))
        out.append(case("map-idx", t))
        out.append(case("bytes-eq", t, span=True))
        out.append(case("bytes-in", t, b" and t", span=True))
    for t in ['"ab"', '"\\x41"', '"\\101"', 'r"ab"', 'r#"a"b"#', '01:02', 'ab:cd-ef', '""', 'r""', '"é"']:
        with_follows(out, "bytes-eq", t)
        with_follows(out, "bytes-in", t)
    for u in UTF8_SAMPLES:
        out.append(case("bytes-eq", '"' + u + '"'))
        out.append(case("bytes-eq", 'r#"' + u + '"#'))
        out.append(case("map-idx", '"' + u + '"'))


# ------------------------------------------------------------------ IP addresses
V6_ODD = ["::", "::1", "1::", "1:2:3:4:5:6:7::", "::2:3:4:5:6:7:8", "1:2:3:4:5:6:7:8", "1:2:3:4:5:6:7:8:9", "1:2:3:4:5:6:7",
          "1:2:3:4:5:6:7:8::", "::1:2:3:4:5:6:7:8", "1::2:3:4:5:6:7:8", "1:2:3:4::5:6:7:8", "1:2:3::4:5:6:7:8", ":::", "::::",
          "1:::2", "1::2::3", ":1", "1:", ":1:2:3:4:5:6:7:8", "1:2:3:4:5:6:7:8:", "::ffff:1.2.3.4", "::1.2.3.4", "1.2.3.4::",
          "::ffff:1.2.3", "::ffff:1.2.3.4.5", "::ffff:01.2.3.4", "::ffff:1.2.3.256", "::ffff:1.2.3.4:5", "::1.2.3.4:ffff",
          "1:2:3:4:5:6:1.2.3.4", "1:2:3:4:5:6:7:1.2.3.4", "1:2:3:4:5:1.2.3.4", "1:2:3:4:5::1.2.3.4", "1:2:3:4:5:6::1.2.3.4",
          "::1:2:3:4:5:6:1.2.3.4", "::1:2:3:4:5:1.2.3.4", "1.2.3.4:5::", "a:1.2.3.4::", "64:ff9b::192.0.2.33", "12345::",
          "::12345", "0000::", "00000::", "::0000", "::00001", "g::", "::g", "::G", "FFFF::", "AbCd::eF01", "1::1.2.3",
          "::1.", "::.1", "::1.2.3.", "1:2:3:4:5:6:7:", "::ffff:1.2.3.04", "::ffff:1.2.3.4/96", "::/0", "::/128", "::/129",
          "::1/128", "::1/127", "1::/16", "1::/15", "ffff:ffff:ffff:ffff:ffff:ffff:ffff:ffff", "::ffff:255.255.255.255",
          "::255.255.255.256", "::12.3", "::123.1", "::1234.1.1.1", "1:2:3:4:5:6:7.8.9.10", "1:2:3:4:5:6:77.8.9.10",
          "::a.b.c.d", "::1.2.3.a", "0:0:0:0:0:0:0:0", "0:0:0:0:0:0:0:0:0", "::0:0:0:0:0:0:0", "::0:0:0:0:0:0:0:0", "0::0",
          "0:0::0:0", "::0.0.0.0", "1::2:3.4.5.6", "1::3.4.5.6:2"]
V4_ODD = ["0.0.0.0", "255.255.255.255", "1.2.3.4", "01.2.3.4", "1.02.3.4", "1.2.3.04", "001.2.3.4", "1.2.3.256", "256.1.1.1",
          "1.2.3.1234", "1.2.3", "1.2", "1", "10", "0", "00", "10.1", "10.1.2", "255", "256", "1.256", "1.2.3.4.5", "1..2.3",
          "1.2.3.", ".1.2.3", ".", "..", "1.", ".1", "1.2.3.4.", ".1.2.3.4", "1.2.3.a", "a.b.c.d", "0x1.2.3.4", "1.2.3.0x4",
          "1.2.3.4/", "/8", "/", "1.2.3.4/8/8", "1.2.3.0/24/", "1.2.3.0//24", "1.2.3.0/024", "1.2.3.0/0024", "1.2.3.4/032",
          "1.2.3.4/33", "1.2.3.4/255", "1.2.3.4/256", "1.2.3.4/300", "1.2.3.4/99999999999999999999", "1.2.3.4/a", "1.2.3.4/-1",
          "1.2.3.4/+8", "10/8", "10.0/16", "10.1/16", "10.1/8", "10.0.0/24", "010/8", "00010.000.0/16", "16909060", "0/0",
          "0/1", "128/1", "128/0", "1.2.3.4/32", "1.2.3.4/31", "1.2.3.4/30", "0.0.0.0/0", "128.0.0.0/1", "255.255.255.255/32",
          "255.255.255.254/31", "255.255.255.255/31", "1.2.3.4 ", "1.2.3.4and t", "1.2.3.4or t", "1.2.3.4 and t",
          "1.2.3.4.5.6.7.8", "١.2.3.4", "1.2.3.４", "1.2.3.4é", "1.2.3.4:80", "[::1]", "::1%1", "1.2.3.4..1.2.3.5",
          "1.2.3.5..1.2.3.4", "1.2.3.4..1.2.3.4", "1.2.3.4..::1", "::1..1.2.3.4", "::1..::2", "::2..::1", "::..::",
          "1.2.3.4...1.2.3.5", "1.2.3.4..", "..1.2.3.4", "1.2.3.4..1.2.3.5..1.2.3.6", "1.2.3.0/24..1.2.4.0", "1.2.3.4..1.2.4.0/24",
          "1.2.3.4 ..1.2.3.5", "1.2.3.4.. 1.2.3.5", "1.2.3..1.2.3.5", "10..11", "1.2.3.4..01.2.3.5", "::ffff:1.2.3.4..::ffff:1.2.3.5",
          "0.0.0.0..255.255.255.255", "::..ffff:ffff:ffff:ffff:ffff:ffff:ffff:ffff"]


def v4_text(v):
    return str(ipaddress.IPv4Address(v))


def v6_forms(v, rng=None):
    a = ipaddress.IPv6Address(v)
    f = [a.compressed, a.exploded, a.exploded.upper(), ":".join("%x" % int(g, 16) for g in a.exploded.split(":"))]
    if rng is not None:
        # embedded IPv4 tail
        groups = a.exploded.split(":")
        v4 = v4_text(v & 0xFFFFFFFF)
        f.append(":".join("%x" % int(g, 16) for g in groups[:6]) + ":" + v4)
        if v >> 32 == 0:
            f.append("::" + v4)
        if v >> 32 == 0xFFFF:
            f.append("::ffff:" + v4)
    return f


def gen_ips(rng, tier, out):
    v4s = [0, 1, 255, 256, 0x7FFFFFFF, 0x80000000, 0xFFFFFFFE, 0xFFFFFFFF, 0x01020304, 0x0A000000, 0xC0A80101]
    v6s = [0, 1, 0xFFFF, 0x10000, (1 << 127) - 1, 1 << 127, (1 << 128) - 2, (1 << 128) - 1, 0xFFFF01020304,
           0x20010DB8 << 96, (0x20010DB8 << 96) + 1, 0x0001000200030004000500060007, 0x00010002000300040005000600070008,
           1 << 112, 1 << 96, 1 << 64, (1 << 64) - 1, (1 << 16) + (1 << 112), 0xFE80 << 112]
    n = 150 if tier == "quick" else 3000
    v4s += [rng.getrandbits(32) for _ in range(n)]
    for _ in range(n):
        # random groups with runs of zeros so that `::` compression shows up in every position
        gs = [rng.choice([0, 0, 0, 1, rng.getrandbits(16), rng.getrandbits(4)]) for _ in range(8)]
        v = 0
        for g in gs:
            v = (v << 16) | g
        v6s.append(v)
    for v in v4s:
        t = v4_text(v)
        out.append(case("ip-eq", t))
        out.append(case("ip-in", t))
    for v in v6s:
        for t in v6_forms(v, rng):
            out.append(case("ip-eq", t))
            out.append(case("ip-in", t))
    for t in V4_ODD + V6_ODD:
        out.append(case("ip-eq", t))
        out.append(case("ip-in", t))
        out.append(case("ip-in", t + " " + t))
        out.append(case("ip-eq", t, span=True))
        out.append(case("ip-in", t, b" and t", span=True))
    # every prefix length, network address and one host bit set
    for bits, fam in ((32, 4), (128, 6)):
        for plen in range(0, bits + 2):
            for _ in range(2):
                v = rng.getrandbits(bits)
                h = max(0, bits - plen)
                net = (v >> h) << h
                txt = v4_text(net) if fam == 4 else rng.choice(v6_forms(net))
                out.append(case("ip-in", "%s/%d" % (txt, plen)))
                out.append(case("ip-eq", "%s/%d" % (txt, plen)))
                if h > 0:
                    bad = net | (1 << rng.randrange(0, h))
                    txt = v4_text(bad) if fam == 4 else rng.choice(v6_forms(bad))
                    out.append(case("ip-in", "%s/%d" % (txt, plen)))
                    bad = net | 1
                    txt = v4_text(bad) if fam == 4 else rng.choice(v6_forms(bad))
                    out.append(case("ip-in", "%s/%d" % (txt, plen)))
    # ranges
    nr = 300 if tier == "quick" else 6000
    for _ in range(nr):
        fam6 = rng.random() < 0.5
        pool = v6s if fam6 else v4s
        a, b = rng.choice(pool), rng.choice(pool)
        r = rng.random()
        if r < 0.2:
            b = a
        elif r < 0.3:
            b = max(0, a - 1)
        ta = rng.choice(v6_forms(a, rng)) if fam6 else v4_text(a)
        if rng.random() < 0.1:
            tb = v4_text(rng.choice(v4s)) if fam6 else ipaddress.IPv6Address(rng.choice(v6s)).compressed
        else:
            tb = rng.choice(v6_forms(b, rng)) if fam6 else v4_text(b)
        out.append(case("ip-in", ta + ".." + tb))
        out.append(case("ip-eq", ta + ".." + tb))
    for t in ["1.2.3.4", "::1", "1::", "::ffff:1.2.3.4", "10.0.0.0/8", "::/0", "1.2.3.4..1.2.3.5", "::1..::2", "10"]:
        with_follows(out, "ip-eq", t)
        with_follows(out, "ip-in", t)


# ------------------------------------------------------------------ indexes, map keys, list names
UTF8_EDGE = [0x00, 0x41, 0x7F, 0x80, 0x8F, 0x90, 0x9F, 0xA0, 0xBF, 0xC0, 0xC1, 0xC2, 0xDF, 0xE0, 0xE1, 0xEC, 0xED, 0xEE,
             0xEF, 0xF0, 0xF1, 0xF3, 0xF4, 0xF5, 0xFF]


def key_of(bs):
    return '"' + "".join("\\x%02x" % b for b in bs) + '"'


def gen_index(rng, tier, out):
    vals = [0, 1, 2, 9, 10, (1 << 31) - 1, 1 << 31, (1 << 31) + 1, (1 << 32) - 2, (1 << 32) - 1, 1 << 32, (1 << 32) + 1,
            1 << 33, I64_MAX, I64_MAX + 1, -1, -2, -(1 << 31), -(1 << 32), I64_MIN, I64_MIN - 1]
    vals += [rng.getrandbits(rng.choice([8, 16, 31, 32, 33])) for _ in range(60 if tier == "quick" else 1500)]
    for v in vals:
        for f in ([str(v)] + (["0x%x" % v, "0%o" % v, "0x%X" % v] if v >= 0 else ["-0%d" % -v])):
            out.append(case("arr-idx", f))
            out.append(case("map-idx", f))
            out.append(case("arr-idx", " " + f + "  "))
    for t in ["", " ", "*", " * ", "**", "*1", "1*", "-0", "-00", "+1", "1 2", "1,2", "1.0", "1e3", "1..2", '"a"', '""', "r\"a\"",
              "01:02", "x", "é", "0x", "-", "1]", "1\n", "\n1", "1\t", "\t1", "'a'", '"a', 'a"', '"a"b', '"a" b', '"\\x41"',
              '"\\101"', '"é"', '"\\xc3\\xa9"', '"\\xc3"', '"\\xff"', '"a\\xffb"', '"\\xc0\\x80"', '"\\xed\\xa0\\x80"',
              '"\\xed\\x9f\\xbf"', '"\\xf4\\x8f\\xbf\\xbf"', '"\\xf4\\x90\\x80\\x80"', '"\\xe0\\x80\\x80"', '"\\xe0\\xa0\\x80"',
              '"\\xf0\\x80\\x80\\x80"', '"\\xf0\\x90\\x80\\x80"', '"\\xe2\\x82"', '"\\xe2\\x82\\xac"', '"\\x80"', '"\\xbf"',
              '"\\xf8\\x88\\x80\\x80\\x80"', '"\\000"', '"\\377"', '"\\303\\251"', '"]"', '"["', '"a]"]']:
        for k in ("arr-idx", "map-idx"):
            out.append(case(k, t))
            out.append(case(k, t, span=True))
    for t in ["5", '"k"', "0x10", "*"]:
        for k in ("arr-idx", "map-idx"):
            fl = FOLLOWS if t != "*" else [(0, b""), (0, b" "), (0, b"\n")]
            with_follows(out, k, t, fl)
    # UTF-8 acceptance of keys: every single byte, every pair and sampled triples / quadruples of edge bytes
    for b in range(256):
        out.append(case("map-idx", key_of([b])))
    for a in UTF8_EDGE:
        for b in UTF8_EDGE:
            out.append(case("map-idx", key_of([a, b])))
    nt = 1500 if tier == "quick" else 30000
    for _ in range(nt):
        ln = rng.choice([3, 3, 4, 4, 5, 6])
        out.append(case("map-idx", key_of([rng.choice(UTF8_EDGE) for _ in range(ln)])))
    for _ in range(nt // 5):
        s = "".join(rng.choice(UTF8_SAMPLES + ["a", "", "z"]) for _ in range(rng.randrange(0, 4)))
        bs = list(s.encode())
        if bs and rng.random() < 0.5:
            i = rng.randrange(len(bs))
            bs = bs[:i] + ([] if rng.random() < 0.5 else [rng.choice(UTF8_EDGE)]) + bs[i + 1:]
        out.append(case("map-idx", key_of(bs)))
    # list names
    for t in ["abc", "a", "a.b", "a.b.c", ".a", "a.", ".", "..", "a..b", "A", "aB", "Ab", "a-b", "a_b", "_", "_.", "._", "0",
              "0a", "9.9", "", " a", "a b", "é", "aé", "a$", "$a", "a{", "{a}", "a1_z.y2", "abcdefghijklmnopqrstuvwxyz0123456789_",
              "a.b.", "a\n", "a\t", "a.b)", "a."]:
        with_follows(out, "int-list", t)
        out.append(case("int-list", t, span=True))
    for t in ["a.b and t", "a.band t", "a.and t", "a.b) and t", "a.b&&t", "a.b||t", "a.bor t", "a.b or t"]:
        out.append(case("int-list", t))
        out.append(case("int-list", t, b")", 1))


# ------------------------------------------------------------------ systematic corruption
CORRUPT = ["-", "+", " ", "g", "x", "é", "€", '"', "\\", "#", ".", ":", "/", "0", "9", "f", "\n", "r", "_", "}", "]", ")"]
BASES = {
    "int-eq": ["78", "-12", "0x1f", "017", "9223372036854775807", "-9223372036854775808", "0"],
    "int-in": ["1..2", "-5..-1", "0x10..0x20", "1 2 3", "07..010"],
    "bytes-eq": ['"ab"', '"a\\x41b"', '"\\101\\"\\\\"', 'r"ab"', 'r#"a"b"#', 'r##"a"#b"##', "01:02", "ab-cd.ef"],
    "bytes-in": ['"a" "b"', "01:02 03:04", 'r#"a"# "b"'],
    "ip-eq": ["1.2.3.4", "::1", "1::", "1:2:3:4:5:6:7:8", "::ffff:1.2.3.4", "a:b::c:d"],
    "ip-in": ["1.2.3.0/24", "1.2.3.4..1.2.3.5", "::/0", "1::/16", "::1..::2", "10.0.0.0/8 ::1"],
    "arr-idx": ["5", "4294967295", "0x10", "010"],
    "map-idx": ['"key"', '"\\x41"', '"é"'],
    "int-list": ["abc", "a.b_1"],
}


def corruptions(text):
    chars = list(text)
    for i in range(len(chars) + 1):
        for c in CORRUPT:
            yield "".join(chars[:i]) + c + "".join(chars[i:])
    for i in range(len(chars)):
        yield "".join(chars[:i] + chars[i + 1:])
        for c in CORRUPT:
            yield "".join(chars[:i]) + c + "".join(chars[i + 1:])
        if i + 1 < len(chars):
            yield "".join(chars[:i] + [chars[i + 1], chars[i]] + chars[i + 2:])


def unsupported_text(kind, t):
    """texts whose continuation leaves the modelled part of the grammar"""
    if kind in ("arr-idx", "map-idx") and ("]" in t or "*" in t):
        return True
    return False


def gen_corrupt(rng, tier, out):
    for kind, bases in BASES.items():
        for base in bases:
            for i, t in enumerate(corruptions(base)):
                if unsupported_text(kind, t):
                    continue
                out.append(case(kind, t, span=(i % 3 == 0)))
                if i % 4 == 1:
                    out.append(case(kind, t, b" and t"))
                if i % 4 == 3:
                    out.append(case(kind, t, b")", 1))


def gen(rng, tier):
    out = []
    gen_ints(rng, tier, out)
    gen_bytes(rng, tier, out)
    gen_ips(rng, tier, out)
    gen_index(rng, tier, out)
    gen_corrupt(rng, tier, out)
    seen = set()
    res = []
    for l in out:
        if l not in seen:
            seen.add(l)
            res.append(l)
    return res


# ------------------------------------------------------------------ wiring
def case_text(line):
    m = re.match(r"\((lit|lit-span) ([a-z-]+) (\d) #([0-9a-f]*) #([0-9a-f]*)\)", line)
    if not m:
        return None
    return m.group(2), bytes.fromhex(m.group(4)), bytes.fromhex(m.group(5))


HEXD = b"0123456789abcdefABCDEF"


def plus_in_hex_byte_position(text):
    """a '+' where the first character of a two-character hex byte is expected: after `\\x`, or at the
    start of a hex pair (start of the text, after a separator or a space / brace)"""
    for j, ch in enumerate(text):
        if ch != 0x2B or j + 1 >= len(text) or text[j + 1] not in HEXD:
            continue
        if text[max(0, j - 2):j] == b"\\x":
            return True
        if j == 0 or text[j - 1] in b":-. {":
            return True
    return False


def classify(line, rec):
    ct = case_text(line)
    if not ct:
        return None
    _, text, _ = ct
    impls = list(rec["impl"].values())
    if (plus_in_hex_byte_position(text) and all(o.startswith("(ok ") for o in impls)
            and rec["model"].startswith("(err ")):
        return "F1-plus-sign-in-byte"
    return None


def nontrivial(line):
    ct = case_text(line)
    return bool(ct) and len(ct[1]) >= 2


def distribution(lines):
    d = {}
    for l in lines:
        k = l.split(" ")
        key = k[0].strip("(") + ":" + k[1]
        d[key] = d.get(key, 0) + 1
    return d


PROP = {
    "id": "C06",
    "prop_file": "theories/Props/C06.v",
    "proof_files": ["theories/Proofs/LexBase.v", "theories/Proofs/LexIntProofs.v", "theories/Proofs/LexBytesProofs.v",
                    "theories/Proofs/LexIpProofs.v", "theories/Proofs/LexMiscProofs.v", "theories/Proofs/LexSafeProofs.v",
                    "theories/Proofs/LexProofs.v"],
    "gen": gen,
    "nontrivial": nontrivial,
    "distribution": distribution,
    "classify": classify,
    "compare_spec": False,
    "exhaustive": True,
    "rule": "finite sweeps (exhaustive): every i64 boundary value in every radix form; all 256 byte values in every escape "
            "form (\\xhh, \\xHH, \\OOO, literal, \\\" \\\\) as value, list item and map key, and in every hex-pair position and "
            "separator; octal escapes 0o400..0o777; every raw-string hash count 0..257 with the closing run one shorter / "
            "equal / one longer and quote+hash runs one shorter than the delimiter inside the body; every CIDR prefix "
            "length 0..33 / 0..129 with the network address and with a host bit set; every literal kind followed by each of "
            "the 55 follow strings (end, spaces, combining operators with and without a space, parentheses, braces, "
            "other punctuation, characters that extend the literal, multi-byte characters); every single byte and every pair "
            "of UTF-8 edge bytes as a map key. Sampled: random values in each radix, random byte strings in every form with a "
            "random escape style per byte, random raw bodies, IPv6 texts from Python ipaddress (compressed, exploded, "
            "upper case, embedded IPv4) plus hand-made odd forms, random ranges incl. reversed and mixed family, random "
            "index values around 0, 2^31, 2^32, sampled UTF-8 edge triples/quadruples; and systematic corruption of "
            "47 base literals: at every position one character inserted / deleted / replaced (sign, space, non-digit, "
            "quote, backslash, separators, multi-byte characters) or swapped with its neighbour. lit-span cases also "
            "compare (line, span_start, span_len) of the ParseError. Non-trivial = the literal text has at least two bytes.",
    "vm_sample": (150, 1500),
    "assumptions": ["the lexers are private: they are driven through FilterParser::parse on nine filter templates; "
                    "the part of the parser around the literal is the mini parser Parse/LitCases.v",
                    "std IpAddr::from_str and cidr 0.2.3 IpCidr::from_str are modelled from their sources and validated "
                    "only by this correspondence",
                    "known finding F1 (leading '+' accepted in a two-character hex byte) is classified, not counted"],
}
