"""C14 — execution contexts survive serialization and reject bad JSON safely:
generators and wiring.

Case kinds (see coq/theories/Run/C14.v): ctx-roundtrip, ctx-roundtrip-exec,
ctx-json, value-roundtrip, value-json; entry points str | slice | reader |
value | capi."""
import re

import langgen as lg
import vp
from props.c15 import obj, raw, render, shaped_layers, ty_json
from vp import parse_sexp, to_sexp

ENTRIES = ["str", "slice", "reader", "value", "capi"]
VENTRIES = ["str", "slice", "reader", "value"]
F10_TAG = "F10-value-entry-lists-key-order"
F10_ERR = b"unknown field `data`, expected `type` or `data`"
LINE_CAP = 18000

# ---------------------------------------------------------------- values

BYTES_X = lg.BYTES_POOL + [
    b"\x80", b"\xc0\x80", b"\xc1\xbf", b"\xe0\x80\x80", b"\xed\xa0\x80", b"\xed\xbf\xbf", b"\xf4\x90\x80\x80",
    b"\xf5\x80\x80\x80", b"\xe2\x82", b"\xf0\x9f\x98", b"a\xffb", b"\xfe", b"\xff\xff\xff",
    "\U0001F600".encode(), "￿".encode(), "  ".encode(), "퟿".encode(), "\u0080߿ࠀ".encode(),
    "\U00010000\U0010ffff".encode(), "日本語".encode(), b'"', b"\\", b'q"\\/\b\f\n\r\t', b"\x00\x01\x1f\x7f", b"\x7f",
    b"null", b"[1,2]", b'{"a":1}', b"$lists", b"type", b" ", b"\xc2\x80", b"\xdf\xbf",
]
KEYS_X = lg.KEY_POOL + [b"\xff", b"\x00", b"\xc3", b"a\x80", "\U0001F600".encode(), b'"', b"\\", b"\n", b"$lists", b"type",
                        b"data", b"k\xfe", "é￿".encode(), b"\xed\xa0\x80", b"z" * 40]
V4_X = lg.V4_POOL + [0x01020304, 0x00000100, 0x64400001, 0xE0000001, 0x08080808]


def _g(*groups):
    v = 0
    for g in groups:
        v = (v << 16) | g
    return v


V6_X = lg.V6_POOL + [
    _g(0, 0, 0, 0, 0, 0xFFFF, 0xC0A8, 1), _g(0, 0, 0, 0, 0, 0xFFFF, 0, 0), _g(0, 0, 0, 0, 0, 0xFFFF, 0xFFFF, 0xFFFF),
    _g(0, 0, 0, 0, 0, 0, 0x0102, 0x0304), _g(0, 0, 0, 0, 0, 0xFFFE, 1, 2), _g(0, 0, 0, 0, 1, 0xFFFF, 1, 2),
    _g(1, 0, 0, 2, 0, 0, 0, 3), _g(1, 0, 0, 0, 2, 0, 0, 3), _g(1, 0, 0, 2, 3, 0, 0, 4), _g(1, 0, 2, 3, 4, 5, 6, 7),
    _g(1, 2, 3, 4, 5, 6, 7, 0), _g(0, 1, 2, 3, 4, 5, 6, 7), _g(1, 2, 3, 4, 5, 6, 0, 0), _g(0, 0, 1, 2, 3, 4, 5, 6),
    _g(1, 0, 0, 0, 0, 0, 0, 0), _g(0, 0, 0, 0, 0, 0, 0, 1), _g(0, 0, 0, 0, 0, 0, 1, 0), _g(0xFE80, 0, 0, 0, 0, 0, 0, 1),
    _g(0x2001, 0xDB8, 0, 0, 1, 0, 0, 1), _g(0xA, 0xB0, 0xC00, 0xD000, 0xF, 0x10, 0x100, 0x1000),
    _g(0, 1, 0, 1, 0, 1, 0, 1), _g(1, 0, 1, 0, 1, 0, 1, 0), _g(0, 0, 1, 0, 0, 0, 1, 0), _g(0x64, 0xFF9B, 0, 0, 0, 0, 0x0102, 0x0304),
]


def gen_prim(rng, t):
    if t == "bool":
        return ("b", rng.random() < 0.5)
    if t == "int":
        return ("i", rng.choice(lg.INT_POOL) if rng.random() < 0.7 else rng.randrange(lg.I64_MIN, lg.I64_MAX + 1))
    if t == "bytes":
        r = rng.random()
        if r < 0.75:
            return ("s", rng.choice(BYTES_X))
        if r < 0.9:
            return ("s", bytes(rng.randrange(256) for _ in range(rng.randrange(0, 9))))
        return ("s", "".join(rng.choice("aé中\U0001F600\"\\\n\x01 ") for _ in range(rng.randrange(0, 7))).encode())
    if t == "ip":
        r = rng.random()
        if r < 0.4:
            return ("v4", rng.choice(V4_X) if rng.random() < 0.7 else rng.randrange(0, 1 << 32))
        if r < 0.8:
            return ("v6", rng.choice(V6_X))
        if r < 0.9:
            # sparse groups: every pattern of zero groups
            return ("v6", _g(*[rng.choice([0, 0, 1, 0xABCD]) for _ in range(8)]))
        return ("v6", rng.randrange(0, 1 << 128))
    raise ValueError(t)


def gen_value(rng, t, depth=0):
    if isinstance(t, str):
        return gen_prim(rng, t)
    kind, elt = t
    n = rng.choice([0, 1, 1, 2, 3, 4]) if depth < 2 else rng.choice([0, 1, 2])
    if kind == "array":
        return ("arr", elt) + tuple(gen_value(rng, elt, depth + 1) for _ in range(n))
    pool = KEYS_X if rng.random() < 0.5 else lg.KEY_POOL      # the second pool is all UTF-8: object form
    keys = sorted(set(rng.choice(pool) for _ in range(n)))
    return ("map", elt) + tuple((k, gen_value(rng, elt, depth + 1)) for k in keys)


def gen_matchers(rng, sch):
    ms = []
    for t, k in sch.lists:
        if k in ("always", "never"):
            ms.append(k)
            continue
        names = sorted(set(rng.choice([b"l1", b"l2.x", b"empty_1", b"", "é".encode(), b'q"\\', b"Z", b"a b"])
                           for _ in range(rng.randrange(0, 5))))
        sets = []
        for nm in names:
            if nm == b"empty_1" or t not in ("int", "bytes", "ip"):      # SetVal::of: Int, Bytes, Ip only
                sets.append((nm,))
            else:
                sets.append((nm,) + tuple(gen_prim(rng, t) for _ in range(rng.randrange(0, 5))))
        ms.append(("set",) + tuple(sets))
    return ms


def gen_ctx(rng, sch, p_absent=0.3, all_optional_too=False):
    vals = []
    for name, t, opt in sch.fields:
        if (opt or all_optional_too) and rng.random() < p_absent:
            vals.append(None)
        else:
            vals.append(gen_value(rng, t))
    return lg.make_ctx(sch, vals, gen_matchers(rng, sch))


def rand_type(rng, maxd=3):
    t = rng.choice(lg.PRIMS)
    for _ in range(rng.choice([0, 0, 1, 1, 2, 2, 3][:maxd * 2 + 1])):
        t = (rng.choice(["array", "map"]), t)
    return t


def deep_ty(n, prim="int", layer="array"):
    t = prim
    for _ in range(n):
        t = (layer, t)
    return t


# ---------------------------------------------------------------- schemes

def schemes():
    rich = lg.rich_scheme()                                               # int set, bytes set, ip always
    nolists = lg.Scheme(lg.RICH_FIELDS, lg.RICH_FNS, [], True)
    other = lg.Scheme(lg.RICH_FIELDS, lg.RICH_FNS,
                      [("ip", "set"), (lg.arr("int"), "never"), ("bytes", "always"), (lg.mp(lg.arr("bytes")), "set"),
                       ("int", "never")], False)
    names = lg.Scheme([("", "int", True), (" ", "bytes", True), ("a.b", lg.mp("ip"), True), ("é", lg.arr("bytes"), True),
                       ('q"\\', "bool", True), ("type", "ip", True), ("data", lg.mp(lg.mp("bytes")), True),
                       ("$list", "int", True), ("$listss", "int", True), ("日本", lg.arr(lg.arr("ip")), True)],
                      [], [("bool", "set"), (deep_ty(33), "always")], True)
    return [rich, nolists, other, names]


SMALL = lg.Scheme([("n", "int", True), ("s", "bytes", True), ("ip", "ip", True), ("b", "bool", True),
                   ("ai", lg.arr("int"), True), ("ms", lg.mp("bytes"), True), ("mai", lg.mp(lg.arr("int")), True)],
                  [], [("int", "set"), ("ip", "always"), ("bytes", "never")], True)

# ---------------------------------------------------------------- python mirror of the writer (for mutants)


def is_utf8(b):
    try:
        b.decode("utf-8")
        return True
    except UnicodeDecodeError:
        return False


def bytes_json(b):
    return b.decode("utf-8") if is_utf8(b) else list(b)


def ip_text(tag, n):
    if tag == "v4":
        return ".".join(str((n >> s) & 255) for s in (24, 16, 8, 0))
    gs = [(n >> (16 * i)) & 0xFFFF for i in range(7, -1, -1)]
    if gs[:6] == [0, 0, 0, 0, 0, 0xFFFF]:
        return "::ffff:" + ip_text("v4", (gs[6] << 16) | gs[7])
    best, bl, cur, cl = 0, 0, 0, 0
    for i, g in enumerate(gs):
        if g == 0:
            if cl == 0:
                cur = i
            cl += 1
            if cl > bl:
                best, bl = cur, cl
        else:
            cl = 0
    hx = lambda l: ":".join("%x" % g for g in l)
    if bl > 1:
        return hx(gs[:best]) + "::" + hx(gs[best + bl:])
    return hx(gs)


def value_json(v):
    tag = v[0]
    if tag == "b":
        return v[1]
    if tag == "i":
        return v[1]
    if tag == "s":
        return bytes_json(v[1])
    if tag in ("v4", "v6"):
        return ip_text(tag, v[1])
    if tag == "arr":
        return [value_json(x) for x in v[2:]]
    items = v[2:]
    if all(is_utf8(k) for k, _ in items):
        return obj(*[(k.decode("utf-8"), value_json(x)) for k, x in items])
    return [[bytes_json(k), value_json(x)] for k, x in items]


def setval_json(v):
    if v[0] == "i":
        return obj(("I", v[1]))
    if v[0] == "s":
        return obj(("B", list(v[1])))
    return obj(("Ip", ip_text(v[0], v[1])))


def matcher_json(m):
    if m in ("always", "never"):
        return obj()
    return obj(("sets", obj(*[(s[0].decode("utf-8"), [setval_json(x) for x in s[1:]]) for s in m[1:]])))


def type_json(t):
    prim, layers = t, []
    while not isinstance(prim, str):
        layers.append(prim[0])
        prim = prim[1]
    return ty_json(prim, layers)


def ctx_json(sch, ctx):
    vals, ms = ctx[1][1:], ctx[2][1:]
    items = [(f[0], value_json(v)) for f, v in zip(sch.fields, vals) if v is not None]
    if sch.lists:
        items.append(("$lists", [obj(("type", type_json(t)), ("data", matcher_json(m))) for (t, _), m in zip(sch.lists, ms)]))
    return obj(*items)


# ---------------------------------------------------------------- tree surgery

def is_obj(j):
    return isinstance(j, dict) and "__obj__" in j


def paths(j, pre=()):
    yield pre
    if isinstance(j, list):
        for i, x in enumerate(j):
            yield from paths(x, pre + (i,))
    elif is_obj(j):
        for i, (_, x) in enumerate(j["__obj__"]):
            yield from paths(x, pre + (i,))


def get(j, path):
    for i in path:
        j = j[i] if isinstance(j, list) else j["__obj__"][i][1]
    return j


def put(j, path, new):
    if not path:
        return new
    i = path[0]
    if isinstance(j, list):
        return j[:i] + [put(j[i], path[1:], new)] + j[i + 1:]
    items = j["__obj__"]
    return obj(*(items[:i] + [(items[i][0], put(items[i][1], path[1:], new))] + items[i + 1:]))


def kind(j):
    if j is None:
        return "null"
    if isinstance(j, bool):
        return "bool"
    if isinstance(j, int):
        return "num"
    if isinstance(j, str):
        return "str"
    if isinstance(j, list):
        return "arr"
    return "obj" if is_obj(j) else "raw"


SWAPS = [None, True, False, 0, 1, -1, 255, 256, 1 << 63, -(1 << 63) - 1, (1 << 63) - 1, -(1 << 63), 1 << 64, 10 ** 30,
         "", "x", "1.2.3.4", "::1", "true", "0", [], [1], [[]], [0, 255], [256], [-1], ["a", 1], [[1, 2]], [["k", 1]],
         obj(), obj(("a", 1)), obj(("a", "b")), obj(("", [])), raw("1.5"), raw("-0"), raw("1e2"), raw("0.0"),
         raw("-1.0E+2"), raw("12345678901234567890.5")]


def mutate(rng, j):
    """one random mutation of the tree; returns (kind, tree)"""
    ps = list(paths(j))
    r = rng.random()
    if r < 0.4:                                   # type swap
        p = rng.choice(ps)
        old = get(j, p)
        for _ in range(20):
            new = rng.choice(SWAPS)
            if kind(new) != kind(old) or rng.random() < 0.2:
                return "swap", put(j, p, new)
        return "swap", put(j, p, None)
    if r < 0.55:                                  # nesting change
        p = rng.choice(ps)
        old = get(j, p)
        c = rng.random()
        if c < 0.3:
            return "wrap", put(j, p, [old])
        if c < 0.5:
            return "wrap", put(j, p, obj((rng.choice(["k", "", "0", "type"]), old)))
        if c < 0.6:
            return "wrap", put(j, p, [old, old])
        if isinstance(old, list) and old:
            return "unwrap", put(j, p, old[0])
        if is_obj(old) and old["__obj__"]:
            return "unwrap", put(j, p, old["__obj__"][0][1])
        return "wrap", put(j, p, [[old]])
    objs = [p for p in ps if is_obj(get(j, p)) and get(j, p)["__obj__"]]
    if not objs:
        return "swap", put(j, (), [])
    p = rng.choice(objs) if rng.random() < 0.6 else ()
    o = get(j, p)
    if not is_obj(o) or not o["__obj__"]:
        p = rng.choice(objs)
        o = get(j, p)
    items = list(o["__obj__"])
    i = rng.randrange(len(items))
    if r < 0.75:                                  # key renaming
        others = [k for k, _ in items if k != items[i][0]]
        new = rng.choice(["nope", "", "$lists", "$list", items[i][0] + "x", items[i][0].upper(), "Type", "I", "sets"]
                         + others[:3])
        items[i] = (new, items[i][1])
        return "rename", put(j, p, obj(*items))
    if r < 0.85:                                  # a repeated key
        k, v = items[i]
        v2 = rng.choice([v, rng.choice(SWAPS)])
        at = rng.randrange(len(items) + 1)
        items.insert(at, (k, v2))
        return "dup", put(j, p, obj(*items))
    if r < 0.93:                                  # member order
        rng.shuffle(items)
        return "order", put(j, p, obj(*items))
    del items[i]                                  # a missing member
    return "drop", put(j, p, obj(*items))


def has_raw(j):
    if isinstance(j, dict) and "__raw__" in j:
        return True
    if isinstance(j, list):
        return any(has_raw(x) for x in j)
    return is_obj(j) and any(has_raw(x) for _, x in j["__obj__"])


def has_dup(j):
    if isinstance(j, list):
        return any(has_dup(x) for x in j)
    if is_obj(j):
        ks = [k for k, _ in j["__obj__"]]
        return len(set(ks)) != len(ks) or any(has_dup(x) for _, x in j["__obj__"])
    return False


def raw_under(j, key, inside=False):
    """a float below a member called [key]: the data of a matcher may be ignored by its reader"""
    if isinstance(j, dict) and "__raw__" in j:
        return inside
    if isinstance(j, list):
        return any(raw_under(x, key, inside) for x in j)
    return is_obj(j) and any(raw_under(x, key, inside or k == key) for k, x in j["__obj__"])


def pick_entry(rng, j, entries):
    """A value tree drops the earlier of two members with the same key, and with it a float the text layer of the
       model would refuse: such documents do not go through `value`."""
    if has_raw(j) and has_dup(j):
        return rng.choice([e for e in entries if e != "value"])
    return rng.choice(entries)


def case_ctx_json(sch, text, entry):
    return "(ctx-json %s #%s %s)" % (to_sexp(sch.sexp()), text.encode("utf-8").hex(), entry)


def case_value_json(t, text, entry):
    return "(value-json %s #%s %s)" % (to_sexp(t), text.encode("utf-8").hex(), entry)


# ---------------------------------------------------------------- generators

def gen_roundtrips(rng, tier):
    out = []
    n = 110 if tier == "quick" else 2500
    for sch in schemes():
        for i in range(n):
            c = gen_ctx(rng, sch, p_absent=rng.choice([0.0, 0.3, 0.7, 1.0]), all_optional_too=(i % 5 == 4))
            for e in ENTRIES:
                line = to_sexp(("ctx-roundtrip", sch.sexp(), c, e))
                if len(line) <= LINE_CAP:
                    out.append(line)
    # every field alone, with forced shapes: empty containers, non-UTF-8 at every level
    sch = schemes()[1]
    for fi, (name, t, opt) in enumerate(sch.fields):
        for _ in range(3 if tier == "quick" else 40):
            vals = [None] * len(sch.fields)
            vals[fi] = gen_value(rng, t)
            out.append(to_sexp(("ctx-roundtrip", sch.sexp(), lg.make_ctx(sch, vals, []), rng.choice(ENTRIES))))
    return out


def gen_value_roundtrips(rng, tier):
    out = []
    for _ in range(1500 if tier == "quick" else 40000):
        t = rand_type(rng)
        out.append(to_sexp(("value-roundtrip", gen_value(rng, t), rng.choice(VENTRIES))))
    # every pool element, alone and as a map key
    for b in BYTES_X:
        out.append(to_sexp(("value-roundtrip", ("s", b), rng.choice(VENTRIES))))
    for k in KEYS_X:
        out.append(to_sexp(("value-roundtrip", ("map", "bool", (k, ("b", True))), rng.choice(VENTRIES))))
        out.append(to_sexp(("value-roundtrip", ("map", lg.mp("int"), (k, ("map", "int", (k, ("i", 1))))),
                            rng.choice(VENTRIES))))
    for a in V4_X:
        out.append(to_sexp(("value-roundtrip", ("v4", a), rng.choice(VENTRIES))))
    for a in V6_X:
        out.append(to_sexp(("value-roundtrip", ("v6", a), rng.choice(VENTRIES))))
    for pat in range(256):                        # every pattern of zero groups
        gs = [0 if (pat >> i) & 1 else rng.choice([1, 0xFFFF, 0xA0, 0x100]) for i in range(8)]
        out.append(to_sexp(("value-roundtrip", ("v6", _g(*gs)), VENTRIES[pat % 4])))
    for z in lg.INT_POOL:
        out.append(to_sexp(("value-roundtrip", ("i", z), rng.choice(VENTRIES))))
    # long byte strings around buffer-size thresholds, through every entry point: non-UTF-8 (array form),
    # ASCII (string form), multi-byte UTF-8; as a value and as a map key
    sizes = [255, 256, 257, 1023, 1025, 4095, 4096, 4097, 5000] if tier == "quick" else \
            [255, 256, 257, 1023, 1024, 1025, 4095, 4096, 4097, 5000, 8191, 8193, 16385, 32769, 65535, 65536, 65537]
    for n in sizes:
        nonutf = bytes((0x80 + (i * 7) % 0x7F) if i % 3 else 0xFF for i in range(n))
        ascii_ = bytes(0x61 + (i % 26) for i in range(n))
        multi = ("\u00e9" * (n // 2) + "a" * (n % 2)).encode()
        for e in VENTRIES:
            for b in (nonutf, ascii_, multi):
                out.append(to_sexp(("value-roundtrip", ("s", b), e)))
            if n <= 5000:
                out.append(to_sexp(("value-roundtrip", ("map", "bool", (nonutf, ("b", True))), e)))
                out.append(to_sexp(("value-roundtrip", ("arr", "bytes", ("s", nonutf), ("s", ascii_)), e)))
    return out


IP_TEXTS = [
    "1.2.3.4", "0.0.0.0", "255.255.255.255", "1.2.3", "1.2.3.4.5", "256.1.1.1", "01.2.3.4", "1.2.3.04", "1.2.3.4 ", " 1.2.3.4",
    "1.2.3.4/8", "1..3.4", ".1.2.3", "1.2.3.", "0x1.2.3.4", "1.2.3.4\n", "", "a", "1", "1.2.3.-4", "+1.2.3.4", "1.2.3.1000",
    "000.0.0.0", "00.0.0.0", "::", "::1", "1::", ":::", "::1::", "1::2::3", "1:2:3:4:5:6:7:8", "1:2:3:4:5:6:7:8:9", "1:2:3:4:5:6:7",
    "1:2:3:4:5:6:7::", "::2:3:4:5:6:7:8", "1:2:3:4:5:6:7:8::", "::1:2:3:4:5:6:7:8", "0:0:0:0:0:0:0:0", "0:0:0:0:0:0:0:1",
    "::FFFF:1.2.3.4", "::ffff:1.2.3.4", "::ffff:1.2.3", "::ffff:01.2.3.4", "::1.2.3.4", "::1.2.3.4.5", "1:2:3:4:5:6:1.2.3.4",
    "1:2:3:4:5:6:7:1.2.3.4", "1.2.3.4::", "::1.2.3.4:5", "1::1.2.3.4", "12345::", "0000::", "00000::", "g::", "G::1", "AbCd::Ef01",
    "fe80::1%eth0", "[::1]", "::1 ", " ::1", ":1", "1:", "1:2", "::ffff:256.0.0.1", "::ffff:1.2.3.4.5", "1::2:3:4:5:6:7",
    "1::2:3:4:5:6:7:8", "::0.0.0.0", "::255.255.255.255", "0::0", "1:0:0:2::3", "::ffff:c0a8:1", "::0:ffff:c0a8:1", "0:0::ffff:1.2.3.4",
]


def gen_value_docs(rng, tier):
    out = []
    for s in IP_TEXTS:
        for e in VENTRIES:
            out.append(case_value_json("ip", render(s), e))
    prims = {
        "int": [0, -1, 1, (1 << 63) - 1, -(1 << 63), 1 << 63, -(1 << 63) - 1, (1 << 64) - 1, 1 << 64, 10 ** 40, -10 ** 40,
                raw("1.0"), raw("1e0"), raw("-0"), raw("0.5"), raw("01"), raw("+1"), raw("0x10"), raw("1_0"), "1", True, None,
                [1], obj(("I", 1)), raw(" 7 "), raw("7 8"), raw("9223372036854775807"), raw("-9223372036854775808")],
        "bool": [True, False, 0, 1, "true", None, [], obj(), raw("TRUE"), raw("tru"), raw("truee"), raw(" false\n")],
        "bytes": ["", "abc", "é", "\U0001F600", "a\"b\\c/\b\f\n\r\t", "\x7f", [], [0], [255], [256], [-1], [1, 2, 3],
                  [1, "2"], [1, [2]], [raw("1.0")], [raw("-0")], [True], [None], None, 1, True, obj(), obj(("a", 1)),
                  raw('"\\u0041\\u00e9\\u4e2d\\ud83d\\ude00"'), raw('"\\u00ff"'), raw('"a\\/b"'), raw('"\\x41"'), raw('"abc'),
                  raw("[1,2"), raw("[1,,2]"), raw("[1 2]"), raw("[,]"), raw("[1,]"), raw(" [ 1 , 2 ] "), [1 << 64]],
        "ip": [1, None, True, [], [1, 2, 3, 4], obj(), ["1.2.3.4"]],
    }
    for t, docs in prims.items():
        for j in docs:
            for e in VENTRIES:
                out.append(case_value_json(t, render(j), e))
    # containers: both forms of a map, wrong element types, wrong pair shapes, repeated keys
    shapes = [
        (lg.arr("int"), [[], [1, 2], [1, "2"], [[1]], obj(), None, "x", 1, [1, None], [raw("1.5")], [1 << 63]]),
        (lg.arr("bytes"), [["a", [1, 2], ""], [[256]], ["a", 1], [["a"]], [[]], [[[]]]]),
        (lg.arr(lg.arr("bool")), [[[True], []], [[1]], [True], [[], [[]]], [[True, None]]]),
        (lg.mp("int"), [obj(), [], obj(("a", 1), ("b", 2)), obj(("b", 2), ("a", 1)), obj(("a", 1), ("a", 2)),
                        obj(("a", 1), ("a", "x")), obj(("a", "x"), ("a", 1)), obj(("a", "1")), [["a", 1]], [[[97], 1]],
                        [["a", 1], ["a", 2]], [["b", 1], ["a", 2]], [["a", 1], [[97], 3]], [["a"]], [["a", 1, 2]], [[]],
                        ["a", 1], [[1, 1]], [[None, 1]], [["a", "1"]], [[[256], 1]], [[[], 1]], [obj(("a", 1))],
                        [["a", 1], None], obj(("", 0)), obj(("\x00", 0)), obj(("é", 0)), [[[255, 254], -1]], None, 1, "a",
                        raw('{"a":1,}'), raw('{"a" 1}'), raw("{a:1}"), raw('{"a":1'), raw('{"\\u0061":1,"a":2}'),
                        raw('[["\\u0061",1],["a",2]]')]),
        (lg.mp(lg.mp("bytes")), [obj(("a", obj(("b", "c")))), obj(("a", [["b", "c"]])), [["a", obj(("b", [1]))]],
                                 [[[255], [[[254], [253]]]]], obj(("a", obj(("b", obj())))), obj(("a", [])), obj(("a", [[]])),
                                 obj(("a", obj(("b", "c"), ("b", [1]))))]),
        (lg.mp(lg.arr("ip")), [obj(("a", ["::1", "1.2.3.4"])), obj(("a", ["::1", "x"])), obj(("a", "::1")), [["a", []]]]),
    ]
    for t, docs in shapes:
        for j in docs:
            for e in VENTRIES:
                out.append(case_value_json(t, render(j), e))
    # mutated serializations of random values
    for _ in range(600 if tier == "quick" else 20000):
        t = rand_type(rng)
        j = value_json(gen_value(rng, t))
        for _ in range(rng.choice([1, 1, 2])):
            _, j = mutate(rng, j)
        style = rng.choice(["plain", "plain", "uall", "mixed"])
        text = render(j, style, rng, ws=rng.random() < 0.3)
        if rng.random() < 0.15 and len(text) > 1:
            text = text[:rng.randrange(1, len(text))]
        out.append(case_value_json(t, text, pick_entry(rng, j, VENTRIES)))
    return out


def lists_docs(sch):
    """hand-made list sections for SMALL (lists: int set, ip always, bytes never)"""
    ok_set = obj(("sets", obj(("a", [obj(("I", 1)), obj(("I", -5))]), ("b", []))))
    e = lambda t, d: obj(("type", t), ("data", d))
    docs = [
        [], [e("Int", ok_set)], [e("Ip", obj())], [e("Bytes", obj())], [e("Int", ok_set), e("Ip", obj()), e("Bytes", obj())],
        [e("Bytes", obj()), e("Int", ok_set)], [e("Int", ok_set), e("Int", obj(("sets", obj())))],
        # unknown / unregistered types
        [e("Bool", obj())], [e("Nope", obj())], [e(obj(("Array", "Int")), obj())], [e(None, obj())], [e(1, obj())],
        [e(obj(("Int", None)), ok_set)], [e(obj(("Int", 1)), ok_set)], [e(["Int"], ok_set)], [e("int", ok_set)],
        # key order / missing / extra members
        [obj(("data", ok_set), ("type", "Int"))], [obj(("type", "Int"))], [obj(("data", ok_set))], [obj()],
        [obj(("type", "Int"), ("data", ok_set), ("x", 1))], [obj(("type", "Int"), ("x", 1), ("data", ok_set))],
        [obj(("x", 1), ("type", "Int"), ("data", ok_set))], [obj(("type", "Int"), ("type", "Int"), ("data", ok_set))],
        [obj(("type", "Int"), ("data", ok_set), ("data", ok_set))], [obj(("Type", "Int"), ("data", ok_set))],
        [obj(("type", "Int"), ("Data", ok_set))], [["Int", ok_set]], ["Int"], [None], [1], [[]],
        [e("Int", ok_set), obj(("type", "Ip"))], [e("Ip", obj()), None],
        # the data of the built-in matchers
        [e("Ip", [])], [e("Ip", [1])], [e("Ip", None)], [e("Ip", 1)], [e("Ip", "x")], [e("Ip", obj(("x", 1), ("y", [obj()])))],
        [e("Ip", obj(("x", 1), ("x", 2)))], [e("Bytes", [])], [e("Bytes", [[]])], [e("Bytes", True)],
        # the data of the harness matcher
        [e("Int", obj())], [e("Int", obj(("sets", obj())))], [e("Int", obj(("sets", [])))], [e("Int", obj(("sets", None)))],
        [e("Int", obj(("sets", obj()), ("sets", obj())))], [e("Int", obj(("x", [1, obj(("y", None))]), ("sets", obj())))],
        [e("Int", obj(("Sets", obj())))], [e("Int", [obj(("a", []))])], [e("Int", [obj()])], [e("Int", [])],
        [e("Int", [obj(), obj()])], [e("Int", [[]])], [e("Int", None)], [e("Int", "sets")],
        [e("Int", obj(("sets", obj(("a", [obj(("I", "1"))])))))], [e("Int", obj(("sets", obj(("a", [obj(("I", 1 << 63))])))))],
        [e("Int", obj(("sets", obj(("a", [obj(("B", [1, 2]))])))))], [e("Int", obj(("sets", obj(("a", [obj(("B", "ab"))])))))],
        [e("Int", obj(("sets", obj(("a", [obj(("B", [256]))])))))], [e("Int", obj(("sets", obj(("a", [obj(("Ip", "::1"))])))))],
        [e("Int", obj(("sets", obj(("a", [obj(("Ip", "1.2.3"))])))))], [e("Int", obj(("sets", obj(("a", [obj(("Ip", 1))])))))],
        [e("Int", obj(("sets", obj(("a", ["I"])))))], [e("Int", obj(("sets", obj(("a", [obj()])))))],
        [e("Int", obj(("sets", obj(("a", [obj(("I", 1), ("B", []))])))))], [e("Int", obj(("sets", obj(("a", [obj(("X", 1))])))))],
        [e("Int", obj(("sets", obj(("a", [1])))))], [e("Int", obj(("sets", obj(("a", obj())))))],
        [e("Int", obj(("sets", obj(("a", [None])))))], [e("Int", obj(("sets", obj(("b", []), ("a", []), ("b", [obj(("I", 3))])))))],
        [e("Int", obj(("sets", obj(("a", [obj(("I", 1))]), ("a", "x")))))],
        [e("Int", obj(("sets", obj(("é\"\\\n", [obj(("I", 0)), obj(("I", 0))])))))],
    ]
    return docs


def gen_ctx_docs(rng, tier):
    out = []
    sch = SMALL
    # hand-made documents, every entry point
    hand = [
        obj(), [], None, 1, "x", True, obj(("n", 1)), obj(("n", 1), ("n", 2)), obj(("n", 1), ("n", "x")), obj(("n", "x"), ("n", 1)),
        obj(("N", 1)), obj(("n ", 1)), obj(("", 1)), obj(("x", 1)), obj(("n", None)), obj(("n", [1])), obj(("n", raw("1.0"))),
        obj(("n", 1 << 63)), obj(("n", -(1 << 63))), obj(("s", "é")), obj(("s", [195, 169])), obj(("s", [195])), obj(("s", [256])),
        obj(("s", 1)), obj(("ip", "1.2.3.4")), obj(("ip", "::ffff:1.2.3.4")), obj(("ip", "1.2.3")), obj(("ip", 16909060)),
        obj(("b", True)), obj(("b", 1)), obj(("b", "true")), obj(("ai", [])), obj(("ai", [1, 2, 3])), obj(("ai", [1, "2"])),
        obj(("ai", obj())), obj(("ms", obj())), obj(("ms", [])), obj(("ms", obj(("k", "v")))), obj(("ms", [["k", "v"]])),
        obj(("ms", [[[255], [254]]])), obj(("ms", obj(("k", 1)))), obj(("ms", obj(("k", "v"), ("k", "w")))),
        obj(("ms", [["k", "v"], ["k", "w"]])), obj(("ms", [["k", "v", "x"]])), obj(("ms", [["k"]])),
        obj(("mai", obj(("k", [1])))), obj(("mai", obj(("k", 1)))), obj(("mai", [["k", [1]], [[0], []]])),
        obj(("b", True), ("n", 5), ("s", "x"), ("ip", "::"), ("ai", [7]), ("ms", obj()), ("mai", [])),
        obj(("mai", []), ("ms", obj()), ("ai", [7]), ("ip", "::"), ("s", "x"), ("n", 5), ("b", True)),
        obj(("n", 1), ("x", 2)), obj(("x", 2), ("n", "bad")), obj(("n", "bad"), ("x", 2)),
        obj(("$lists", [])), obj(("$lists", obj())), obj(("$lists", None)), obj(("$lists", 1)), obj(("$lists", [])), obj(("$lists", []), ("$lists", [])),
        obj(("$list", [])), obj(("$Lists", [])), obj(("n", 1), ("$lists", []), ("s", "x")),
        raw('{"n":1} x'), raw('{"n":1}{}'), raw('{"n":1} \n'), raw(' \t{"n":1}'), raw('{"n":1,}'), raw('{"n" 1}'), raw("{n:1}"),
        raw('{"n":1'), raw('{"n":'), raw('{"n"'), raw("{"), raw(""), raw(" "), raw('{"\\u006e":1}'), raw('{"\\u006E":1,"n":2}'),
        raw('{"n":01}'), raw('{"n":1}}'), raw('{"n":1}]'), raw('{"n":1},'), raw("{'n':1}"), raw('{"n":1;"s":"x"}'),
        raw('{"$\\u006cists":[]}'), raw('{"ip":"\\u0031.2.3.4"}'), raw('{"s":"\\ud83d\\ude00"}'), raw('{"s":"a\\/b"}'),
        raw('{"ms":{"\\u00e9":"\\u00e9"}}'), raw('{"ms":[["\\u00e9",[195,169]]]}'),
    ]
    for j in hand:
        text = render(j)
        for e in ENTRIES:
            out.append(case_ctx_json(sch, text, e))
    for ls in lists_docs(sch):
        for j in (obj(("$lists", ls)), obj(("n", 1), ("$lists", ls), ("s", "x"))):
            text = render(j)
            for e in (ENTRIES if j["__obj__"][0][0] == "$lists" else [rng.choice(ENTRIES)]):
                out.append(case_ctx_json(sch, text, e))
    # deep type descriptors in the list section (F4, repaired: an error, never a panic) and the recursion limit
    for n in (1, 2, 31, 32, 33, 34, 35, 36, 64, 100, 120, 121, 122, 123, 124, 125, 126, 127, 128, 129, 200):
        for shape in ("array", "map", "alt0"):
            t = ty_json("int", shaped_layers(rng, n, shape))
            text = render(obj(("$lists", [obj(("type", t), ("data", obj()))])))
            for e in (ENTRIES if shape == "array" else [rng.choice(ENTRIES)]):
                out.append(case_ctx_json(sch, text, e))
    # the scheme with a list for a 33-layer type accepts exactly that descriptor
    names = schemes()[3]
    for n in (32, 33, 34):
        text = render(obj(("$lists", [obj(("type", ty_json("int", ["array"] * n)), ("data", obj()))])))
        for e in ENTRIES:
            out.append(case_ctx_json(names, text, e))
    # mutated serializations of generated contexts
    nmut = 500 if tier == "quick" else 12000
    pool = [SMALL] + schemes()
    for i in range(nmut):
        sch = pool[i % len(pool)] if i % 3 else SMALL
        c = gen_ctx(rng, sch, p_absent=rng.choice([0.3, 0.6, 0.9]), all_optional_too=True)
        j = ctx_json(sch, c)
        kinds = []
        for _ in range(rng.choice([0, 1, 1, 1, 2, 3])):
            k, j = mutate(rng, j)
            kinds.append(k)
        if raw_under(j, "data"):
            continue
        style = rng.choice(["plain", "plain", "plain", "uall", "mixed"])
        text = render(j, style, rng, ws=rng.random() < 0.3)
        r = rng.random()
        if r < 0.12 and len(text) > 1:
            text = text[:rng.randrange(1, len(text))]            # truncation
        elif r < 0.16:
            text = text + rng.choice([" ", "\n", " x", "{}", ",", "]", "}", " null"])
        line = case_ctx_json(sch, text, pick_entry(rng, j, ENTRIES))
        if len(line) <= LINE_CAP:
            out.append(line)
    return out


def gen_exec(rng, tier):
    out = []
    n = 150 if tier == "quick" else 6000
    for sch in schemes()[:3]:
        g = lg.Gen(rng, sch, features=("index", "each", "quant", "oneof", "call", "vec", "mapbool", "inlist"), max_depth=3)
        for _ in range(n):
            ast = g.gen_filter()
            text = lg.render_lexpr(sch, ast, lg.Layout(rng))
            c = gen_ctx(rng, sch, p_absent=rng.choice([0.0, 0.3, 0.6]))
            line = to_sexp(("ctx-roundtrip-exec", sch.sexp(), text.encode(), ast, c, rng.choice(ENTRIES)))
            if len(line) <= LINE_CAP:
                out.append(line)
    return out


def has_lists(line):
    return "(lists)" not in line.split("(ctx ")[0]


def f10_prone(line):
    h = vp.head_of(line)
    return h in ("ctx-roundtrip", "ctx-roundtrip-exec") and line.endswith(" value)") and has_lists(line)


def gen(rng, tier):
    """Cases that can only disagree through the known finding F10 (a round trip
       through a value tree when the scheme has a list) go last."""
    out = gen_value_roundtrips(rng, tier) + gen_value_docs(rng, tier) + gen_ctx_docs(rng, tier)
    rt = gen_roundtrips(rng, tier) + gen_exec(rng, tier)
    out += [l for l in rt if not f10_prone(l)]
    out += [l for l in rt if f10_prone(l)]
    return out


# ---------------------------------------------------------------- comparison

def normalize(kind, out, case):
    if kind != "impl":
        return out
    if out.startswith("(err #"):
        return "(err)"
    if out.startswith("(panic #"):
        return "(panic)"
    if case.startswith("(ctx-roundtrip-exec ") and out.startswith("(ok "):
        try:
            o = parse_sexp(out)
            c = parse_sexp(case)
            if o[1] != c[3]:
                return "(ast-mismatch %s)" % to_sexp(o[1])
            return to_sexp([o[0]] + o[2:])
        except Exception as ex:  # pragma: no cover
            return "(unparsable %r)" % (ex,)
    return out


def classify(line, rec):
    """Tag only the observed defect, exactly: a context with registered lists, written and read back through a
       serde_json::Value, is refused with `unknown field data` while model (faithful) refuses and spec accepts."""
    if not f10_prone(line):
        return None
    if rec["model"] != "(err)" or rec["spec"] is None or not rec["spec"].startswith("(ok "):
        return None
    for io in rec["impl"].values():
        try:
            t = parse_sexp(io)
        except Exception:
            return None
        if not (isinstance(t, list) and len(t) == 2 and t[0] == "err" and isinstance(t[1], bytes) and F10_ERR in t[1]):
            return None
    return F10_TAG


def post(ctx):
    """run_property classifies only the first 200 disagreements; look at all of them so that the known finding can
       never hide another disagreement."""
    known = {k.get("tag") for k in vp.load_known().get("known", []) if k.get("property") == "C14"}
    lines, model, spec, impls = ctx["lines"], ctx["model"], ctx["spec"], ctx["impl"]
    bad = 0
    hits = {}
    viol = []
    for i, line in enumerate(lines):
        ios = {k: v[i] for k, v in impls.items()}
        if all(normalize("impl", o, line) == model[i] for o in ios.values()) and (spec is None or spec[i] == model[i]):
            continue
        bad += 1
        rec = {"property": "C14", "case": line, "model": model[i], "spec": spec[i] if spec is not None else None,
               "impl": ios, "seed": ctx["seed"], "tier": ctx["tier"], "index": i}
        tag = classify(line, rec)
        if tag:
            hits[tag] = hits.get(tag, 0) + 1
            if tag in known:
                continue
        if bad > 200 and len(viol) < 3 and not tag:
            rec["verdict"] = "disagreement beyond the first 200 (found by the C14 post-scan)"
            viol.append(("impl!=spec", vp.write_replay("C14", rec), ""))
    return {"coverage": {"disagreements_total": bad, "finding_cases": hits}, "violations": viol}


def nontrivial(line):
    h = vp.head_of(line)
    if h in ("ctx-roundtrip", "ctx-roundtrip-exec"):
        return "(arr " in line or "(map " in line
    if h == "value-roundtrip":
        return "(arr " in line or "(map " in line or "(v6 " in line or len(line) > 40
    return len(line) > 60


def distribution(lines):
    d = {}
    for l in lines:
        h = vp.head_of(l)
        d[h] = d.get(h, 0) + 1
        e = l.rstrip(")").split(" ")[-1]
        d["entry_" + e] = d.get("entry_" + e, 0) + 1
    d["non_utf8_bytes_or_keys"] = sum(1 for l in lines if re.search(r"#(?:[0-9a-f]{2})*(?:ff|fe|c0|80)", l))
    d["with_list_state"] = sum(1 for l in lines if "(set (#" in l)
    return d


PROP = {
    "id": "C14",
    "prop_file": "theories/Props/C14.v",
    "proof_files": ["theories/Proofs/CtxSerdeProofs.v", "theories/Proofs/IpTextProofs.v"],
    "gen": gen,
    "nontrivial": nontrivial,
    "distribution": distribution,
    "normalize": normalize,
    "classify": classify,
    "post": post,
    "vm_sample": (60, 400),
    "shrink_budget": 25,
    "rule": "contexts of the C02 kind over four schemes (the rich scheme with Int/Bytes set lists and an Ip always-list; "
            "the same without lists; with other lists incl. container types; unusual field names and a list for a "
            "33-layer type): random nested values over every field type to depth 3 with forced non-UTF-8 / overlong / "
            "surrogate byte strings and map keys, empty containers, i64 extremes, IPv4 / IPv6 addresses with every "
            "pattern of zero groups and the v4-mapped forms, optional and mandatory fields unset, list-matcher state "
            "(named sets of Int / Bytes / Ip), written with to_string / to_vec / to_writer / to_value / the C API and read "
            "into a fresh context through from_str, from_slice, from_reader, serde_json::Value and the C API; the JSON "
            "text compared byte for byte with the model's compact writer, the context read back field by field and "
            "matcher by matcher, PartialEq and re-serialization checked in the harness, filters executed on both "
            "contexts; single values round-tripped and read from hand-made documents (every acceptance rule of i64, u8, "
            "bool, IpAddr, Bytes, Array, Map in both encodings); context documents hand-made and mutated by type "
            "swapping (string/number/array/object/bool/null/float), truncation, trailing text, key renaming, repeated "
            "keys, member order, nesting changes, list-section mutations (unknown type, type after data, extra and "
            "missing members, matcher data of every shape, type descriptors with 1..200 layers). Non-trivial = a "
            "container value / a document of more than a few bytes.",
    "assumptions": [
        "the text layer of serde_json (Sem/JsonText.v) is modelled, not proved; generated texts are valid UTF-8; a "
        "number with a fraction or an exponent and the literal -0 (all f64 for serde_json, refused by every numeric "
        "target reached here) are generated only where the value is not ignored",
        "serde_json's deserialize_bytes reads a JSON string leniently (lone surrogate escapes, raw control characters, "
        "non-UTF-8 bytes from a slice are accepted for a Bytes value or a pair-form map key through from_str / "
        "from_slice / from_reader, while a Value tree cannot hold them): such strings are outside the generators; "
        "likewise ignored members of the harness matchers' data nested beyond the recursion limit",
        "from_value is given serde_json::Value without the preserve_order feature (objects are BTreeMaps)",
        "the entry point `capi` is wirefilter_deserialize_json_to_execution_context: from_reader without "
        "Deserializer::end(), so text after the document is not looked at (modelled as such, reported as an observation)",
        "SetList / SetMatcher (harness/src/lang.rs) is the list definition with state; AlwaysList / NeverList are the "
        "engine's; matcher state is read back through its serialization",
        "the statement is proved at the level of JSON trees for all schemes with distinct field names different from "
        "\"$lists\" and one list per type, and all contexts of Rust values (i64, u8, u32/u128 addresses)",
    ],
}
