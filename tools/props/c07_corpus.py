"""Regenerates corpus/C07/directed.txt (the directed cases of C07): python3 tools/props/c07_corpus.py"""
import os
import sys
ROOT = os.path.dirname(os.path.dirname(os.path.dirname(os.path.abspath(__file__))))
sys.path.insert(0, os.path.join(ROOT, "tools"))
import langgen as lg
from vp import to_sexp
sch = lg.rich_scheme()
F = lambda n, *idx: ("field", sch.field_index(n)) + idx
tt = ("cmp", F("tt"), "istrue"); otf = ("cmp", F("otf"), "istrue")
num1 = lambda o="eq", v=1: ("cmp", F("num"), ("ord", o, ("i", v)))
out = []
def same(ast, *texts):
    out.append(to_sexp(("c07-same", sch.sexp(), ast) + tuple(t.encode() for t in texts)))
def one(text):
    out.append(to_sexp(("c07", sch.sexp(), text.encode() if isinstance(text, str) else text)))
def distinct(a1, t1, a2, t2):
    out.append(to_sexp(("c07-distinct", sch.sexp(), a1, t1.encode(), a2, t2.encode())))

out.append("; every operator alias: both spellings, tight and loose layouts, line breaks")
for op, (w, s) in [("and", ("and", "&&")), ("or", ("or", "||")), ("xor", ("xor", "^^"))]:
    same(("comb", op, tt, otf), "tt %s otf" % w, "tt %s otf" % s, "tt%sotf" % s, "tt\n%s\r\n  otf" % w, " tt \r%s\notf\n" % s)
same(("not", tt), "not tt", "!tt", "! tt", "not\ntt", "!\r\n tt")
same(("not", ("not", tt)), "not not tt", "!!tt", "not !tt", "! not tt")
for o, (w, s) in [("eq", ("eq", "==")), ("ne", ("ne", "!=")), ("ge", ("ge", ">=")), ("le", ("le", "<=")), ("gt", ("gt", ">")), ("lt", ("lt", "<"))]:
    same(num1(o, 5), "num %s 5" % w, "num %s 5" % s, "num%s5" % s, "num\n%s\n5" % w, "num  %s\r\n5" % s)
    same(("cmp", F("str"), ("ord", o, ("s", b"a"))), 'str %s "a"' % w, 'str%s"a"' % s)
    same(("cmp", F("ip.src"), ("ord", o, ("v4", 0x01020304))), 'ip.src %s 1.2.3.4' % w, 'ip.src%s1.2.3.4' % s)
same(("cmp", F("num"), ("band", 3)), "num bitwise_and 3", "num & 3", "num&3", "num\n&\n3", "num bitwise_and\r\n3")
same(("cmp", F("str"), ("matches", b"a.b")), 'str matches "a.b"', 'str ~ "a.b"', 'str~"a.b"', 'str\nmatches\n"a.b"')
same(("cmp", F("str"), ("matches", b"a\\d", ("raw", 1))), 'str matches r#"a\\d"#', 'str ~ r#"a\\d"#', 'str~r#"a\\d"#')
same(("cmp", F("str"), ("wildcard", False, b"a*")), 'str wildcard "a*"', 'str  wildcard\n"a*"')
same(("cmp", F("str"), ("wildcard", True, b"A*", ("raw", 0))), 'str strict wildcard r"A*"', 'str\nstrict wildcard\r\nr"A*"')
same(("cmp", F("str"), ("contains", b"x")), 'str contains "x"', 'str\ncontains\n"x"')

out.append("; chains are flattened into one node; parentheses are visible only as nesting")
a, b_, c = num1("eq", 1), num1("eq", 2), num1("eq", 3)
same(("comb", "or", a, b_, c), "num == 1 or num == 2 or num == 3", "num==1||num==2||num==3", "num eq 1 || num eq 2 or num eq 3")
same(("comb", "or", ("paren", ("comb", "or", a, b_)), c), "(num == 1 or num == 2) or num == 3", "( num==1||num==2 )||num==3")
same(("comb", "or", a, ("paren", ("comb", "or", b_, c))), "num == 1 or (num == 2 or num == 3)", "num==1||(num==2||num==3)")
same(("comb", "or", a, ("comb", "and", b_, c)), "num == 1 or num == 2 and num == 3", "num==1||num==2&&num==3")
same(("comb", "and", ("paren", ("comb", "or", a, b_)), c), "(num == 1 or num == 2) and num == 3", "(num==1||num==2)&&num==3")
same(("comb", "or", ("comb", "xor", ("comb", "and", a, b_), c), a), "num == 1 and num == 2 xor num == 3 or num == 1", "num==1&&num==2^^num==3||num==1")
same(("paren", ("paren", ("paren", a))), "(((num == 1)))", "( ( (num==1) ) )", "(\n(\n(num eq 1)\n)\n)")
same(("not", ("paren", ("comb", "and", tt, ("not", ("paren", otf))))), "not (tt and not (otf))", "!(tt&&!(otf))")
distinct(("comb", "or", a, b_, c), "num == 1 or num == 2 or num == 3", ("comb", "or", ("paren", ("comb", "or", a, b_)), c), "(num == 1 or num == 2) or num == 3")
distinct(("comb", "or", ("paren", ("comb", "or", a, b_)), c), "(num == 1 or num == 2) or num == 3", ("comb", "or", a, ("paren", ("comb", "or", b_, c))), "num == 1 or (num == 2 or num == 3)")
distinct(("comb", "or", a, ("comb", "and", b_, c)), "num == 1 or num == 2 and num == 3", ("comb", "and", ("paren", ("comb", "or", a, b_)), c), "(num == 1 or num == 2) and num == 3")
out.append("; redundant parentheses are not part of the structure: same document, same hash")
distinct(a, "num == 1", ("paren", a), "(num == 1)")
distinct(("not", tt), "not tt", ("not", ("paren", tt)), "not (tt)")

out.append("; literal kinds: integers (radix, sign, extremes)")
for t in ["num == 0", "num == -1", "num == 0x10", "num == 020", "num == 16", "num == 9223372036854775807", "num == -9223372036854775808",
          "num & 0xff", "num in {}", "num in {1}", "num in {1 2..5 -9223372036854775808..9223372036854775807}", "num in { -5..-1 0x10..0x20 }",
          "onum != 7", "echo_int(-7) == -7", "lit_only(127) == 127"]:
    one(t)
out.append("; byte strings: quoted / raw / hex pairs, UTF-8 and not, escapes of the JSON writer")
for t in ['str == "ab"', 'str == r"ab"', 'str == r#"ab"#', 'str == r##"a"#b"##', 'str == 61:62', 'str == 61-62.63', 'str == "\\x61\\142"',
          'str == ""', 'str == r""', 'str == "\\xff"', 'str == ff:fe', 'str == "\\xc3\\xa9"', 'str == "é"', 'str == c3:a9', 'str == "\\xc3"',
          'str == "\\x00\\x01\\x08\\x09\\x0a\\x0c\\x0d\\x1f\\x20\\x7f"', 'str == "\\"\\\\/"', 'str == r"\\n"', 'str == "\\xed\\xa0\\x80"', 'str == "\\xf0\\x9f\\x98\\x80"',
          'str == "\\xf4\\x90\\x80\\x80"', 'str == "\\xe2\\x82"', 'str contains "\\xff"', 'str contains r#"""#', 'str in {}', 'str in {"a" 61:62 r"x" "\\xff" ""}',
          'str in {"a"\n"b"\r\n"c"}', 'ostr < "a"']:
    one(t)
out.append("; addresses: IPv4, IPv6 compression rules, mapped addresses, CIDR blocks, ranges")
for t in ['ip.src == 0.0.0.0', 'ip.src == 255.255.255.255', 'ip.src == 1.2.3.4', 'ip.src == ::', 'ip.src == ::1', 'ip.src == 1::', 'ip.src == ::ffff:1.2.3.4',
          'ip.src == ::ffff:0:0', 'ip.src == ::fffe:1.2.3.4', 'ip.src == ::1.2.3.4', 'ip.src == 64:ff9b::1.2.3.4', 'ip.src == 2001:db8::1', 'ip.src == 1:0:0:2:0:0:0:3',
          'ip.src == 1:0:0:0:2:0:0:3', 'ip.src == 0:0:1:0:0:1:0:0', 'ip.src == 1:2:3:4:5:6:7:0', 'ip.src == 1:2:3:4:5:6:0:0', 'ip.src == 0:2:3:4:5:6:7:8',
          'ip.src == 0:0:3:4:5:6:7:8', 'ip.src == 1:0:3:0:5:0:7:0', 'ip.src == ABCD:EF01:2345:6789:abcd:ef01:2345:6789', 'ip.src == ffff:ffff:ffff:ffff:ffff:ffff:ffff:ffff',
          'ip.src == 0:0:0:0:0:ffff:0:1', 'ip.src == 10:100:1000:f:ff:fff:0:a0', 'ip.src in {}', 'ip.src in {1.2.3.4}', 'ip.src in {1.2.3.4/32}', 'ip.src in {10.0.0.0/8 0.0.0.0/0 192.168.0.0/16}',
          'ip.src in {1.1.1.1..1.1.1.9 0.0.0.0..255.255.255.255}', 'ip.src in {::1 ::/0 fe80::/10 ::1/128 2001:db8::/32}', 'ip.src in {::1..::2 ::..ffff:ffff:ffff:ffff:ffff:ffff:ffff:ffff}',
          'ip.src in {1.2.3.4 ::1 10.0.0.0/8 ::ffff:0:0/96 1.1.1.1..1.1.1.2}', 'ip.src in {10/8}', 'oip >= ::ffff:255.255.255.255', 'echo_ip(::1) == ::1', 'echo_ip(1.2.3.4) == 1.2.3.4']:
    one(t)
out.append("; regex / wildcard literals")
for t in ['str matches "a.b"', 'str ~ r"a\\d"', 'str matches "a\\"b"', 'str matches "[\\"]"', 'str matches r#"a"b"#', 'str matches ""', 'str wildcard "a*"', 'str wildcard r"a*"',
          'str strict wildcard r#"A*"#', 'str wildcard "\\xff*"', 'str wildcard "a\\\\*"', 'str strict wildcard ""']:
    one(t)
out.append("; list names")
for t in ['num in $l1', 'str in $l2.x', 'ip.src in $any', 'num in $a_b.c_9', 'any(nums[*] in $l1)']:
    one(t)
out.append("; indexes: array index, map key (with JSON escapes), [*]")
for t in ['nums[0] == 1', 'nums[4294967295] == 1', 'nums[0x10] == 1', 'hdr["host"] == "x"', 'hdr[""] == "x"', 'hdr["\\x22\\x5c\\x01é"] == "x"', 'hdr[ "a" ] == "x"', 'hdrs["a"][0] == "x"',
          'cube[0][1][2] == 1', 'deep["a"]["b"][0] == 1', 'any(cube[*][*][*] == 1)', 'any(cube[1][*][2] == 1)', 'all(hdr[*] == "x")', 'any(rows[*]["k"] == "x")', 'bools[0]', 'flags["k"]', 'grid[1][2]',
          'any(nums[ * ] == 1)', 'any(nums[\n*\n] == 1)']:
    one(t)
out.append("; quantifiers and boolean arrays")
for t in ['any(bools)', 'all(bools)', 'any((bools))', 'any(not bools)', 'all((bools and bools))', 'any(bools) or all(bools)', 'any((nums[*] == 1 or nums[*] == 2))', 'any(nums[*] == 1 or nums[*] == 2)', 'any(not (nums[*] == 1))',
          'all(grid[0])', 'any((grid[*][0]))', 'any((flags))', 'any(echo_ab(bools))', 'any (bools)', 'all\n(\nbools\n)']:
    one(t)
out.append("; function calls: argument kinds, literals, nested calls, map-each, defaults, indexes on results")
for t in ['lower(str) == "a"', 'lower ( str ) == "a"', 'lower(\nstr\n) == "a"', 'concat(str, "x") == "ax"', 'concat("1.2.3.4", str) == "ax"', 'concat(str,str,"a",r"b") == "x"', 'concat(strs, strs)[0] == "x"',
          'echo_int(5) == 5', 'echo_int(num) == 5', 'show(str) == "a"', 'show(str, 3) == "a"', 'show(str, 3, "q") == "a"', 'show(str, 3, ostr) == "a"', 'join2(str, "1.2.3.4") == "a"', 'join2(str, ff:fe) == "a"',
          'lower(strs[*])[0] == "a"', 'any(lower(strs[*])[*] == "a")', 'lit_only(0x7f) == 127', 'len(lower(echo(str))) == 1', 'echo_b(num == 1)', 'echo_b((num == 1))', 'echo_b(not tt)', 'echo_b(any(bools))', 'echo_ab(nums[*] == 1)[0]',
          'echo_ab(bools)[1]', 'echo_mb(flags)["k"]', 'count(strs) > 0', 'any(echo_ab((bools)))', 'len(hdr["a"]) == 0', 'echo_b(tt)', 'echo_b( tt )', 'echo_b(echo_b(tt))']:
    one(t)
out.append("; the notation of a literal that the document keeps: hex pairs vs strings; and what it drops: radix, raw vs quoted")
distinct(("cmp", F("str"), ("ord", "eq", ("s", b"ab"))), 'str == "ab"', ("cmp", F("str"), ("ord", "eq", ("s", b"ab", "byte"))), 'str == 61:62')
distinct(("cmp", F("str"), ("ord", "eq", ("s", b"ab"))), 'str == "ab"', ("cmp", F("str"), ("ord", "eq", ("s", b"ab", ("raw", 2)))), 'str == r##"ab"##')
distinct(("cmp", F("str"), ("ord", "eq", ("s", b"\xff\xfe"))), 'str == "\\xff\\xfe"', ("cmp", F("str"), ("ord", "eq", ("s", b"\xff\xfe", "byte"))), 'str == ff:fe')
distinct(("cmp", F("str"), ("matches", b"ab")), 'str matches "ab"', ("cmp", F("str"), ("matches", b"ab", ("raw", 0))), 'str ~ r"ab"')
distinct(num1("eq", 16), "num == 16", num1("eq", 16), "num == 0x10")
out.append("; one change: operator, literal, index, identifier, association")
distinct(num1("eq", 1), "num == 1", num1("ne", 1), "num != 1")
distinct(num1("ge", 1), "num >= 1", num1("gt", 1), "num > 1")
distinct(num1("eq", 1), "num == 1", num1("eq", -1), "num == -1")
distinct(num1("eq", 1), "num == 1", ("cmp", F("onum"), ("ord", "eq", ("i", 1))), "onum == 1")
distinct(num1("eq", 1), "num == 1", ("cmp", F("num"), ("band", 1)), "num & 1")
distinct(num1("eq", 1), "num == 1", ("cmp", F("num"), ("in-int", ((1, 1),))), "num in {1}")
distinct(("cmp", F("nums", ("a", 0)), ("ord", "eq", ("i", 1))), "nums[0] == 1", ("cmp", F("nums", ("a", 1)), ("ord", "eq", ("i", 1))), "nums[1] == 1")
distinct(("cmp", F("hdr", ("k", b"a")), ("ord", "eq", ("s", b"x"))), 'hdr["a"] == "x"', ("cmp", F("hdr", ("k", b"A")), ("ord", "eq", ("s", b"x"))), 'hdr["A"] == "x"')
distinct(("cmp", F("str"), ("ord", "eq", ("s", b"1.2.3.4"))), 'str == "1.2.3.4"', ("cmp", F("ip.src"), ("ord", "eq", ("v4", 0x01020304))), 'ip.src == 1.2.3.4')
distinct(("cmp", F("ip.src"), ("in-ip", (("c4", 0x0A000000, 8),))), 'ip.src in {10.0.0.0/8}', ("cmp", F("ip.src"), ("in-ip", (("r4", 0x0A000000, 0x0AFFFFFF),))), 'ip.src in {10.0.0.0..10.255.255.255}')
distinct(("cmp", F("ip.src"), ("in-ip", (("c4", 0x01020304, 32),))), 'ip.src in {1.2.3.4}', ("cmp", F("ip.src"), ("in-ip", (("r4", 0x01020304, 0x01020304),))), 'ip.src in {1.2.3.4..1.2.3.4}')
distinct(("cmp", F("str"), ("wildcard", False, b"a*")), 'str wildcard "a*"', ("cmp", F("str"), ("wildcard", True, b"a*")), 'str strict wildcard "a*"')
distinct(("cmp", F("str"), ("wildcard", False, b"a*")), 'str wildcard "a*"', ("cmp", F("str"), ("matches", b"a*")), 'str matches "a*"')
distinct(("cmp", F("str"), ("contains", b"a")), 'str contains "a"', ("cmp", F("str"), ("ord", "eq", ("s", b"a"))), 'str == "a"')
distinct(("ql", "any", ("cmp", F("nums", "each"), ("ord", "eq", ("i", 1)))), "any(nums[*] == 1)", ("ql", "all", ("cmp", F("nums", "each"), ("ord", "eq", ("i", 1)))), "all(nums[*] == 1)")
distinct(("qi", "any", F("bools")), "any(bools)", ("ql", "any", ("paren", ("cmp", F("bools"), "istrue"))), "any((bools))")
distinct(("comb", "and", tt, otf), "tt and otf", ("comb", "and", otf, tt), "otf and tt")
distinct(("comb", "and", tt, otf), "tt and otf", ("comb", "or", tt, otf), "tt or otf")
distinct(("comb", "xor", tt, otf), "tt xor otf", ("comb", "or", tt, otf), "tt or otf")
distinct(tt, "tt", ("not", tt), "not tt")
distinct(("not", tt), "not tt", ("not", ("not", tt)), "not not tt")
open(os.path.join(ROOT, 'corpus', 'C07', 'directed.txt'), 'w').write("\n".join(out)+"\n")
print(len([l for l in out if not l.startswith(";")]))
