"""C12 — uses() / uses_list() report field usage exactly.

Case:  (uses|uses-value  scheme  #text  (names #n ...)  oracle)
Answer (implementation, model, specification):  (ok (u l) ...)  one pair per name, u/l in true|false|err.

`oracle` is a fourth, parser-independent opinion: the answer computed here from the generator's own tree
(tools/langgen.py builds the tree first and renders it to text afterwards).  It travels inside the case line
(so corpus and replay files are self-contained), is ignored by implementation and model, and is compared with
the implementation's answer in `post`.  `none` = no expectation (hand-written corpus lines may omit it)."""
import langgen as lg
from vp import to_sexp, write_replay

A = lg.arr
M = lg.mp

LISTS = (("int", "set"), ("bytes", "set"), ("ip", "always"))

# a second scheme whose names are prefixes / case variants / dotted extensions of one another
CONF_FIELDS = [
    ("a", "int", False), ("a.b", "int", True), ("a.b.c", "bytes", False), ("ab", "bytes", True), ("A", "int", False),
    ("a_b", "bytes", False), ("ip", "ip", False), ("ip.src", "ip", True), ("anyx", A("bool"), True),
    ("inn", "int", False), ("b", A("bytes"), False), ("m", M("int"), True),
    ("m.m", M(A("bytes")), True), ("tt", "bool", False), ("x9", "bytes", False), ("9x", "int", False),
]
CONF_FNS = [("echo", "echo"), ("len", "len"), ("lower", "lower"), ("echo_int", "echo_int"), ("echo_b", "echo_b"),
            ("join2", "join2"), ("show", "show"), ("echo_ab", "echo_ab"), ("a.f", "echo"), ("concat", "concat"),
            ("echo_ip", "echo_ip")]

FIXED_NAMES = [b"", b"nope", b"l1", b"$l1", b"any", b"all", b"in", b"not", b"and", b"true", "é".encode(), b"*",
               b"num ", b" num", b"num\n", b"str[0]", b"echo(str)", b"0", b"ip.", b".src"]


def schemes():
    return [lg.Scheme(lg.RICH_FIELDS, lg.RICH_FNS, LISTS, True), lg.Scheme(CONF_FIELDS, CONF_FNS, LISTS, True)]


def wide_scheme():
    """a scheme of 290 fields: the rich fields sit at indexes 58..81 and once more (prefixed) at 250..273, so that
    the fields a filter uses have indexes on both sides of 63/64, 127/128 (fillers) and 255/256"""
    fields = [("w%d" % k, "int" if k % 2 else "bytes", k % 3 == 0) for k in range(58)]
    fields += list(lg.RICH_FIELDS)
    fields += [("w%d" % k, "int" if k % 2 else "bytes", k % 3 == 0) for k in range(len(fields), 250)]
    fields += [("zz." + n, t, o) for n, t, o in lg.RICH_FIELDS]
    fields += [("w%d" % k, "ip" if k % 2 else "bool", True) for k in range(len(fields), 290)]
    return lg.Scheme(fields, lg.RICH_FNS, LISTS, True)


# ---------------------------------------------------------------- the oracle (on the generator's tree)

def occ_l(e, acc, inlist, depth):
    k = e[0]
    if k == "comb":
        for x in e[2:]:
            occ_l(x, acc, inlist, depth)
    elif k == "cmp":
        il = inlist or (isinstance(e[2], tuple) and e[2][0] == "inlist")
        occ_i(e[1], acc, il, depth)
    elif k in ("paren", "not"):
        occ_l(e[1], acc, inlist, depth)
    elif k == "qi":
        occ_i(e[2], acc, inlist, depth)
    elif k == "ql":
        occ_l(e[2], acc, inlist, depth)
    else:
        raise ValueError(e)


def occ_i(e, acc, inlist, depth):
    if e[0] == "field":
        acc.append((e[1], inlist, depth))
        return
    for a in e[2]:
        if a[0] == "ai":
            occ_i(a[1], acc, inlist, depth + 1)
        elif a[0] == "al":
            occ_l(a[1], acc, inlist, depth + 1)


def occurrences(kind, ast):
    """[(field index, inside the lhs of an `in $list`, call depth)] of every identifier occurrence"""
    acc = []
    (occ_l if kind == "uses" else occ_i)(ast, acc, False, 0)
    return acc


def oracle(sch, kind, ast, names):
    occ = occurrences(kind, ast)
    used = {f for f, _, _ in occ}
    listed = {f for f, il, _ in occ if il}
    fidx = {}
    for i, f in enumerate(sch.fields):
        fidx.setdefault(f[0].encode(), i)
    out = []
    for n in names:
        if n in fidx:
            i = fidx[n]
            out.append((i in used, i in listed))
        else:
            out.append((lg_sym("err"), lg_sym("err")))
    return ("ok",) + tuple(out)


def lg_sym(s):
    from vp import Sym
    return Sym(s)


STATS = {}


def bump(k, n=1):
    STATS[k] = STATS.get(k, 0) + n


def classify_fields(sch, occ):
    """per field of the scheme: how it is used in this case (for the distribution report)"""
    per = {}
    for f, il, d in occ:
        per.setdefault(f, []).append((il, d))
    for i in range(len(sch.fields)):
        o = per.get(i)
        if not o:
            bump("field_never")
            continue
        bump("field_once" if len(o) == 1 else "field_several")
        if all(d >= 2 for _, d in o):
            bump("field_only_deep_in_nested_calls")
        if all(il for il, _ in o):
            bump("field_only_in_list_comparisons")
        elif not any(il for il, _ in o):
            bump("field_only_outside_list_comparisons")
        else:
            bump("field_inside_and_outside_list_comparisons")


# ---------------------------------------------------------------- cases

def confusable_names(rng, sch, k=6):
    out = []
    fs = [f[0] for f in sch.fields]
    for name in rng.sample(fs, min(k, len(fs))):
        out += [name.upper(), name.lower(), name[:-1], name + "x", name + ".x", name + ".", "." + name, name + "[0]",
                name.split(".")[0], name.replace(".", "_"), name.replace("_", ".")]
        if len(name) > 1:
            out.append(name[1:])
    return [n.encode() for n in out]


def names_for(rng, sch):
    names = [f[0].encode() for f in sch.fields] + [f[0].encode() for f in sch.fns]
    extra = confusable_names(rng, sch) + rng.sample(FIXED_NAMES, 8)
    seen = set(names)
    for n in extra:
        if n not in seen:
            seen.add(n)
            names.append(n)
    return names


def make_case(sch, kind, ast, names, lay=None, count=True):
    text = (lg.render_lexpr if kind == "uses" else lg.render_iexpr)(sch, ast, lay or lg.Layout())
    orc = oracle(sch, kind, ast, names)
    if count:
        occ = occurrences(kind, ast)
        classify_fields(sch, occ)
        bump("cases_" + kind)
        bump("queries", len(names))
        bump("cases_with_list_comparison" if any(il for _, il, _ in occ) else "cases_without_list_comparison")
    return to_sexp((kind, sch.sexp(), text.encode(), ("names",) + tuple(names), orc))


def directed(rng, sch0):
    """sole occurrences of a field forced into every child position of every node kind (rich scheme)"""
    F = sch0.field_index
    FN = sch0.fn_index

    def fld(name, *idx):
        return ("field", F(name)) + idx

    def call(fn, *args):
        return ("call", FN(fn), tuple(args))

    def ai(e):
        return ("ai", e)

    s_a = ("ord", "eq", ("s", b"a"))
    i_1 = ("ord", "eq", ("i", 1))
    inl_b = ("inlist", 1, b"l1")
    inl_i = ("inlist", 0, b"l2.x")
    inl_p = ("inlist", 2, b"any")
    # value expressions of type Bytes built around one field occurrence
    bytes_srcs = [
        fld("str"), fld("ostr"), fld("strs", ("a", 0)), fld("hdr", ("k", b"host")), fld("words", ("a", 0), ("a", 1)),
        fld("hdrs", ("k", b"a"), ("a", 2)), fld("rows", ("a", 0), ("k", b"k1")),
    ]
    wrapped = []
    for b in bytes_srcs:
        wrapped += [b, call("echo", ai(b)), call("lower", ai(call("echo", ai(b)))),
                    call("echo", ai(call("lower", ai(call("nonempty", ai(b)))))),
                    call("join2", ai(fld("ostr")), ai(b)), call("join2", ai(b), ("lit", ("s", b"z"))),
                    call("show", ai(fld("str")), ("lit", ("i", 3)), ai(b)),
                    call("concat", ai(b), ("lit", ("s", b"q"))), call("concat", ("lit", ("s", b"q")), ai(b), ai(fld("ostr")))]
    hosts = []
    for b in wrapped:
        hosts += [
            ("cmp", b, s_a), ("cmp", b, ("contains", b"a")), ("cmp", b, ("in-bytes", (b"a", b"b"))), ("cmp", b, inl_b),
            ("cmp", call("len", ai(b)), i_1), ("cmp", call("len", ai(b)), inl_i),
            ("cmp", call("echo_int", ai(call("len", ai(b)))), inl_i),
            ("cmp", call("echo_b", ("al", ("cmp", b, s_a))), "istrue"),
            ("cmp", call("echo_b", ("al", ("cmp", b, inl_b))), "istrue"),
            ("cmp", call("echo_b", ("al", ("not", ("cmp", b, inl_b)))), "istrue"),
            ("cmp", call("echo_b", ("al", ("paren", ("comb", "or", ("cmp", b, s_a), ("cmp", fld("num"), inl_i))))), "istrue"),
            # a comparison nested in the left-hand side of a list comparison (and the other way round)
            ("cmp", call("tagb", ("al", ("cmp", b, s_a))), inl_b),
            ("cmp", call("tagb", ("al", ("not", ("cmp", b, s_a)))), inl_b),
            ("cmp", call("tagb", ("al", ("paren", ("comb", "and", ("cmp", fld("tt"), "istrue"), ("cmp", b, s_a))))), inl_b),
            ("cmp", call("tagb", ("al", ("cmp", b, inl_b))), s_a),
            ("cmp", call("len", ai(call("tagb", ("al", ("cmp", b, ("contains", b"a")))))), inl_i),
            ("cmp", call("tagb", ("al", ("cmp", call("tagb", ("al", ("cmp", b, s_a))), inl_b))), s_a),
        ]
    # map-each and quantifiers
    vec_srcs = [fld("strs", "each"), fld("words", "each", "each"), fld("words", ("a", 1), "each"), fld("hdr", "each"),
                fld("hdrs", "each", "each"), fld("rows", "each", ("k", b"a")),
                call("lower", ai(fld("strs", "each"))) + ("each",),
                call("echo", ai(call("lower", ai(fld("hdr", "each"))) + ("each",))) + ("each",)]
    for v in vec_srcs:
        for q in ("any", "all"):
            hosts += [("ql", q, ("cmp", v, s_a)), ("ql", q, ("cmp", v, inl_b)), ("ql", q, ("cmp", v, ("in-bytes", (b"a",)))),
                      ("ql", q, ("not", ("cmp", v, inl_b))),
                      ("ql", q, ("paren", ("comb", "and", ("cmp", v, s_a), ("cmp", fld("nums", "each"), inl_i))))]
    hosts += [("qi", "any", fld("bools")), ("qi", "all", fld("grid", ("a", 0))), ("qi", "any", fld("mgrid", ("k", b"a"))),
              ("qi", "any", call("echo_ab", ai(fld("bools")))), ("ql", "any", ("paren", ("cmp", fld("flags"), "istrue"))),
              ("cmp", fld("ip.src"), inl_p), ("cmp", fld("ips", ("a", 0)), inl_p), ("cmp", call("echo_ip", ai(fld("oip"))), inl_p),
              ("cmp", fld("num"), inl_i), ("cmp", fld("cnt", ("k", b"a")), inl_i), ("cmp", fld("cube", ("a", 0), ("a", 0), ("a", 0)), inl_i),
              ("cmp", fld("deep", ("k", b"a"), ("k", b"b"), ("a", 0)), inl_i),
              ("cmp", fld("num"), ("in-int", ((1, 2),))), ("cmp", fld("ip.src"), ("in-ip", (("c4", 0, 8),))),
              ("cmp", fld("tt"), "istrue"), ("cmp", fld("bools", ("a", 0)), "istrue"),
              ("cmp", call("echo_b", ai(fld("otf"))), "istrue")]
    out = []
    d1 = ("cmp", fld("onum"), i_1)
    d2 = ("cmp", fld("otf"), "istrue")
    d3 = ("cmp", fld("onum"), inl_i)
    for h in hosts:
        ctxs = [h, ("comb", "and", d2, h), ("comb", "or", h, d1), ("comb", "xor", d2, h, d1), ("not", h), ("paren", h),
                ("not", ("paren", ("comb", "and", d2, ("paren", h)))), ("comb", "or", d3, ("comb", "and", h, d2)),
                ("comb", "and", h, h)]
        for c in rng.sample(ctxs, 3):
            out.append(("uses", c))
    # the same field inside and outside a list comparison, and only in one of them
    for a, b in [(fld("str"), fld("ostr")), (fld("strs", ("a", 0)), fld("str")), (call("echo", ai(fld("str"))), fld("str"))]:
        out += [("uses", ("comb", "and", ("cmp", a, inl_b), ("cmp", a, s_a))),
                ("uses", ("comb", "and", ("cmp", a, s_a), ("cmp", a, inl_b))),
                ("uses", ("comb", "or", ("cmp", a, inl_b), ("cmp", b, s_a))),
                ("uses", ("comb", "or", ("cmp", a, ("in-bytes", (b"l1",))), ("cmp", b, inl_b)))]
    for b in wrapped + [call("len", ai(wrapped[3])), call("echo_b", ("al", ("cmp", wrapped[2], inl_b))),
                        call("echo_int", ai(call("len", ai(call("echo", ai(fld("hdr", ("k", b"$l1")))))))),
                        fld("num"), fld("deep"), fld("deep", ("k", b"num")), call("echo_ab", ai(fld("bools"))),
                        call("lower", ai(fld("strs", "each"))), call("count", ai(fld("strs")))]:
        out.append(("uses-value", b))
    return out


def gen(rng, tier):
    STATS.clear()
    out = []
    rich, conf = schemes()
    for kind, ast in directed(rng, rich):
        out.append(make_case(rich, kind, ast, names_for(rng, rich), lg.Layout(rng) if rng.random() < 0.5 else None))
    bump("directed", len(out))
    n = 2400 if tier == "quick" else 40000
    feats = ("index", "each", "quant", "oneof", "call", "vec", "mapbool", "inlist")
    plan = [(rich, feats, 3, 0.4), (wide_scheme(), feats, 3, 0.05), (conf, feats, 3, 0.2), (rich, ("index", "each", "quant", "inlist", "vec"), 3, 0.1),
            (lg.Scheme([f for f in lg.RICH_FIELDS if isinstance(f[1], str)], [], LISTS, False), ("inlist", "oneof"), 4, 0.1)]
    for sch, fs, depth, share in plan:
        g = lg.Gen(rng, sch, features=fs, max_depth=depth)
        for _ in range(int(n * share)):
            ast = g.gen_filter()
            out.append(make_case(sch, "uses", ast, names_for(rng, sch), lg.Layout(rng)))
    # value expressions
    for sch in (rich, conf):
        g = lg.Gen(rng, sch, features=feats, max_depth=3)
        k = 0
        while k < int(n * 0.075):
            r = g.gen_iexpr(lambda t: True, False, 0)
            if not r or r[2] > 0:
                continue
            k += 1
            out.append(make_case(sch, "uses-value", r[0], names_for(rng, sch), lg.Layout(rng)))
    return out


def expected_of(line):
    """the oracle element of a case line (text), or None"""
    if line.endswith(" none)"):
        return None
    i = line.rfind("(ok")
    if i < 0:
        return None
    return line[i:-1]


def post(ctx):
    """fourth opinion: implementation vs the generator's own expectation"""
    bad = []
    checked = 0
    for i, line in enumerate(ctx["lines"]):
        exp = expected_of(line)
        if exp is None:
            continue
        checked += 1
        for mname, outs in ctx["impl"].items():
            if outs[i] != exp:
                bad.append((i, mname))
                break
    violations = []
    for i, mname in bad[:3]:
        rec = {"property": "C12", "case": ctx["lines"][i], "impl": {k: v[i] for k, v in ctx["impl"].items()},
               "model": ctx["model"][i], "spec": ctx["spec"][i] if ctx["spec"] else None,
               "oracle": expected_of(ctx["lines"][i]), "seed": ctx["seed"], "tier": ctx["tier"], "index": i,
               "verdict": "implementation differs from the source-level oracle (the expectation computed from the "
                          "generator's tree, independent of any parser)",
               "rerun": "./check --replay <this file>"}
        violations.append(("impl!=oracle", write_replay("C12", rec), ""))
    return {"coverage": {"oracle_checked": checked, "oracle_disagreements": len(bad)}, "violations": violations}


def nontrivial(line):
    # some field is used inside a list comparison, or at least two different fields are used
    return "(true true)" in line or line.count("(true false)") >= 2


def distribution(lines):
    d = dict(STATS)
    d["answers_true_true"] = sum(l.count("(true true)") for l in lines)
    d["answers_true_false"] = sum(l.count("(true false)") for l in lines)
    d["answers_false_false"] = sum(l.count("(false false)") for l in lines)
    d["answers_err"] = sum(l.count("(err err)") for l in lines)
    d["value_expression_cases"] = sum(l.startswith("(uses-value") for l in lines)
    return d


PROP = {
    "id": "C12",
    "prop_file": "theories/Props/C12.v",
    "proof_files": ["theories/Proofs/VisitorProofs.v", "theories/Proofs/VisitorSource.v"],
    "gen": gen,
    "post": post,
    "nontrivial": nontrivial,
    "distribution": distribution,
    "vm_sample": (16, 200),
    "rule": "filters of the C01-C03/C17 generators (scalar comparisons, index paths, [*], calls nested to depth 3 with "
            "field / literal / logical arguments, any/all, `in {..}`, `in $list` whose left-hand side is a field, an "
            "index path, a map-each path or a call) and value expressions, over the rich scheme and a scheme whose "
            "names are prefixes / case variants / dotted extensions of each other; directed cases put the sole "
            "occurrence of a field into every child position of every node kind (first/middle/last operand, "
            "parenthesis, not, both quantifier argument kinds, 1st/2nd/3rd call argument, logical call argument, "
            "nesting depth 1-3, inside / outside / both sides of a list comparison). Each case queries every field of "
            "the scheme, every function name and ~40 non-names (case variants, prefixes, extensions, dotted prefixes, "
            "list names, operators, empty, padded). Compared: implementation (real parser + FilterAst::uses/uses_list) "
            "= visitor model on the parser model's AST = specification (constituent enumeration) = oracle computed "
            "from the generator's tree. Non-trivial = a field used inside a list comparison or >= 2 used fields.",
    "assumptions": ["the generator renders its tree faithfully (the oracle is about the tree, the other three about the text)"],
}
