"""C16 — the scheme builder is a consistent registry: generators and wiring."""
import itertools
from vp import to_sexp

# names that collide in every way the property text lists: dotted prefixes and
# extensions, other case, `.`/`_`/nothing between the same letters
POOL = [b"x", b"x.y", b"x.y.z", b"X", b"xy", b"x_y"]
# looked up but never registered by the exhaustive part: prefixes with a
# trailing dot, a leading dot, a longer dotted name, a doubled letter
EXTRA = [b"x.", b"x.y.", b".x", b"x.y.z.w", b"xx"]
LOOKUPS = POOL + EXTRA
LIST_TYPES = ["int", "bytes", "ip"]


def alphabet():
    ops = []
    for n in POOL:
        ops.append(("field", n, "bool"))
        ops.append(("field", n, "int"))
        ops.append(("ofield", n, "bytes"))
        ops.append(("fn", n))
    ops.append(("list", "int", "always"))
    ops.append(("list", "int", "never"))
    ops.append(("list", "bytes", "never"))
    return ops


ALPHABET = alphabet()


def queries(names, list_types, texts):
    q = []
    for n in names:
        q.append(("get-field", n))
        q.append(("get-function", n))
    for t in list_types:
        q.append(("get-list", t))
    q += ["fields", "functions", "lists", "counts"]
    for t in texts:
        q.append(("parse-ident", t))
    q.append(("scheme-eq",))
    return q


FULL_QUERIES = queries(LOOKUPS, LIST_TYPES, LOOKUPS)


def case(ops, qs=None):
    return to_sexp(("registry-history", list(ops), list(FULL_QUERIES if qs is None else qs)))


# the random part also registers names that cannot be written in a filter and
# a wider range of types
ODD_NAMES = [b"x.", b".x", b"", b"x..y", b"x y", b"x-y", "é".encode(), b"x.y.z.w", b"xx", b"Xy", b"x.Y", b"0", b"_",
             b"2fa", b"5xx.count", b"1.2", b"0x", b"x.0"]
TYPES = ["bool", "int", "bytes", "ip", ("array", "bool"), ("map", "bool"), ("array", "int"), ("map", ("array", "bytes")),
         ("array", ("array", "bool"))]
SAFE = set(b"abcdefghijklmnopqrstuvwxyzABCDEFGHIJKLMNOPQRSTUVWXYZ0123456789_.")
KEYWORD_STARTS = (b"not", b"any", b"all")


def is_utf8(b):
    try:
        b.decode("utf-8")
        return True
    except UnicodeDecodeError:
        return False


def parseable_text(n):
    """texts the model of the filter parser covers: identifier characters and dots only"""
    return len(n) > 0 and all(c in SAFE for c in n) and not n.startswith(KEYWORD_STARTS)


def random_case(rng):
    n = rng.choice([5, 5, 6, 6, 6, 8, 12])
    names = POOL + (rng.sample(ODD_NAMES, 3) if rng.random() < 0.5 else [])
    focus = rng.sample(names, min(len(names), rng.choice([2, 3, 4])))  # few names: many collisions
    ops = []
    for _ in range(n):
        r = rng.random()
        nm = rng.choice(focus if rng.random() < 0.8 else names)
        if r < 0.35:
            ops.append(("field", nm, rng.choice(TYPES)))
        elif r < 0.55:
            ops.append(("ofield", nm, rng.choice(TYPES)))
        elif r < 0.8:
            ops.append(("fn", nm))
        else:
            ops.append(("list", rng.choice(TYPES[:5]), rng.choice(["always", "never"])))
    used = []
    for o in ops:
        if o[0] != "list" and o[1] not in used:
            used.append(o[1])
    lookups = list(dict.fromkeys(LOOKUPS + used + names))
    derived = []
    for u in used[:4]:
        derived += [u + b".", u + b".z", u[:-1], u.upper(), u.lower(), u.replace(b".", b"_"), u.replace(b"_", b".")]
    lookups = [t for t in dict.fromkeys(lookups + derived) if is_utf8(t)]
    texts = [t for t in lookups if parseable_text(t)]
    return case(ops, queries(lookups, [t for t in TYPES[:6]], texts))


def big_case(nfields, nfns):
    """a registry far larger than the exhaustive part reaches: n fields f0.. and m functions g0.., looked up at both
    ends (sizes are chosen around the limits of narrow index types)"""
    ops = []
    for i in range(max(nfields, nfns)):
        if i < nfields:
            ops.append(("field" if i % 3 else "ofield", b"f%d" % i, TYPES[i % 4]))
        if i < nfns:
            ops.append(("fn", b"g%d" % i))
    names = []
    for pre, n in ((b"f", nfields), (b"g", nfns)):
        names += [pre + b"%d" % i for i in sorted({0, 1, 127, 128, 255, 256, 257, n - 2, n - 1, n}) if 0 <= i]
    qs = [q for q in queries(names, ["int"], names)]
    return case(ops, qs)


def huge_case(nfields, nfns):
    """more names than a 16-bit index can tell apart (thorough tier: the model and the specification need about
    three minutes each for the 2*10^9 name comparisons).  Names are the decimal number written backwards plus a
    letter, so that most comparisons are decided by the first byte.  No `fields` / `functions` / `scheme-eq`
    queries: their model is quadratic."""
    def nm(pre, i):
        return str(i)[::-1].encode() + pre
    ops = []
    for i in range(max(nfields, nfns)):
        if i < nfields:
            ops.append(("field" if i % 3 else "ofield", nm(b"f", i), TYPES[i % 4]))
        if i < nfns:
            ops.append(("fn", nm(b"g", i)))
    names = []
    for pre, n in ((b"f", nfields), (b"g", nfns)):
        names += [nm(pre, i) for i in sorted({0, 1, 255, 256, 65535, 65536, 65537, n - 2, n - 1, n}) if 0 <= i]
    qs = [q for q in queries(names, ["int"], names) if q not in ("fields", "functions") and q != ("scheme-eq",)]
    return case(ops, qs)


def stack_can_grow():
    """the extracted model recurses along the history: it needs a stack limit that can be lifted (tools/vp.py does)"""
    try:
        import resource
        hard = resource.getrlimit(resource.RLIMIT_STACK)[1]
        return hard == resource.RLIM_INFINITY or hard >= (1 << 30)
    except Exception:
        return False


def gen(rng, tier):
    out = []
    if tier == "thorough" and stack_can_grow():
        out.append(huge_case(65540, 3))
    for nf, ng in ((255, 3), (256, 256), (257, 0), (300, 300), (5, 257)) + (((2000, 1000),) if tier == "thorough" else ()):
        out.append(big_case(nf, ng))
    k = 4 if tier == "thorough" else 3
    for n in range(0, k + 1):
        for i, ops in enumerate(itertools.product(ALPHABET, repeat=n)):
            if n <= 3:
                out.append(case(ops))
            else:
                # length 4 (531 441 histories): every pool name, and the never-registered names in rotation
                names = POOL + [EXTRA[i % len(EXTRA)]]
                out.append(case(ops, queries(names, LIST_TYPES, names)))
    for _ in range(600 if tier == "quick" else 20000):
        out.append(random_case(rng))
    return out


def n_ops(line):
    # the operation list is the first nested list
    depth = 0
    n = 0
    for ch in line[len("(registry-history "):]:
        if ch == "(":
            depth += 1
            if depth == 2:
                n += 1
        elif ch == ")":
            depth -= 1
            if depth == 0:
                break
    return n


def nontrivial(line):
    return n_ops(line) >= 2


def distribution(lines):
    d = {}
    for l in lines:
        k = "ops_%d" % min(n_ops(l), 7)
        d[k] = d.get(k, 0) + 1
    return d


PROP = {
    "id": "C16",
    "prop_file": "theories/Props/C16.v",
    "proof_files": ["theories/Proofs/RegistryProofs.v"],
    "gen": gen,
    "nontrivial": nontrivial,
    "distribution": distribution,
    "exhaustive": True,
    "rule": "exhaustive: every sequence of <=3 (quick) / <=4 (thorough) registrations over a 27-operation alphabet "
            "(names x, x.y, x.y.z, X, xy, x_y x {field Bool, field Int, optional field Bytes, function} + lists "
            "(Int, always), (Int, never), (Bytes, never)); plus random sequences of 5-12 registrations over few names "
            "(also names no filter can spell: trailing/leading/double dot, empty, space, non-ASCII) and nine types. "
            "(the 531 441 histories of length 4 ask about the six pool names and one of the five other names in rotation). "
            "After every history the built scheme is asked: get_field / get_function for every pool name and for "
            "x., x.y., .x, x.y.z.w, xx (random part: also every registered name with a dot appended, a segment "
            "appended, the last character dropped, other case, . and _ swapped); get_list per type; fields(), "
            "functions(), lists() in full with name, index, type, optionality; the three counts; each name parsed as "
            "a value expression and as a filter, bare and as a call `name()`; scheme == clone, scheme == scheme "
            "rebuilt from the same history, and the same for their first fields. "
            "Each case = one history and all its queries. Non-trivial = at least two registrations.",
    "vm_sample": (48, 320),
    "assumptions": [
        "functions are registered as a zero-parameter SimpleFunctionDefinition returning Bool; lists as AlwaysList / "
        "NeverList, told apart by the derived Debug text of the ListRef",
        "parse probes use texts made of identifier characters and dots only (plus the harness-appended `()`), not "
        "starting with not/any/all; error kinds are compared as LexErrorKind variant names only",
    ],
}
