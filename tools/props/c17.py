"""C17 — `in $list` delegates exactly to the context's list matcher: generators and wiring.

Case kinds (coq/theories/Run/C17.v, harness/src/c17.rs; `exec` is the language-level kind of C01-C03):
  (list-exec <scheme> #text <ast> <ctx>...)   one `lhs in $name` comparison (under not / any / all):
                                              result + the (name, value) queries the set matcher received
  (list-ffi ...)                              the same, the scheme and its built-in lists registered through the
                                              C API (wirefilter_add_{always,never}_list_to_scheme)
  (exec <scheme> #text <ast> <ctx>...)        `in $name` comparisons inside arbitrary filters
  (list-name <scheme> #lhs <ty> #name)        parse `<lhs> in $<name>`: accepted name or error kind
  (list-history <scheme> <op>...)             mutate / set value / clear / round trip / load / dump / probe /
                                              execute on one real ExecutionContext, one observation per step
"""
import itertools

import langgen as lg
from langgen import arr, mp
from props.c01 import norm_exec
from vp import to_sexp

LIST_TYPES = ["int", "bytes", "ip"]

# list names over the permitted alphabet; several are prefixes / extensions of one another
NAME_POOL = [b"l1", b"l2.x", b"a", b"ab", b"a.b", b"a..b", b"0", b"_", b"z9_.q", b"l1x", b"l", b"abc_d.e.f0"]

# registered lists: (type, kind) in registration order.  Lists on types that `in` cannot use
# (bool, arrays, maps) are legal registrations and shift the indexes of the others.
LIST_CONFIGS = [
    [("int", "set"), ("bytes", "set"), ("ip", "set")],
    [("bool", "never"), ("ip", "set"), (arr("int"), "always"), ("bytes", "set"), (mp("bytes"), "set"), ("int", "set")],
    [("int", "always"), ("bytes", "always"), ("ip", "always")],
    [("ip", "never"), ("bytes", "never"), ("int", "never")],
    [("bytes", "set"), ("ip", "always")],
    [("ip", "never"), ("int", "set"), ("bytes", "always")],
    [(arr("bytes"), "set"), ("int", "set"), ("bool", "always"), ("ip", "set"), ("bytes", "never")],
]


def prim_values(v, out):
    """collects the int / bytes / ip leaves of a value s-expression by type"""
    if v is None:
        return
    tag = v[0]
    if tag == "i":
        out["int"].append(v)
    elif tag == "s":
        out["bytes"].append(v)
    elif tag in ("v4", "v6"):
        out["ip"].append(v)
    elif tag == "arr":
        for x in v[2:]:
            prim_values(x, out)
    elif tag == "map":
        for _, x in v[2:]:
            prim_values(x, out)


def gen_set(rng, t, present, names):
    """a set matcher state for a list of type t: named sets, half of the members taken from the context"""
    sets = []
    for name in sorted(set(names)):
        if rng.random() < 0.25:
            continue
        vs = []
        for _ in range(rng.choice([0, 1, 2, 3, 5])):
            tt = t if (t in LIST_TYPES and rng.random() < 0.9) else rng.choice(LIST_TYPES)
            pool = present.get(tt) or []
            v = rng.choice(pool) if pool and rng.random() < 0.6 else lg.gen_prim(rng, tt)
            if v not in vs:
                vs.append(v)
        sets.append((name,) + tuple(vs))
    return ("set",) + tuple(sets)


def gen_ctx_with_lists(rng, sch, names, p_absent):
    base = lg.gen_ctx(rng, sch, matchers=[], p_absent=p_absent)
    vals = base[1][1:]
    present = {"int": [], "bytes": [], "ip": []}
    for v in vals:
        prim_values(v, present)
    ms = []
    for t, k in sch.lists:
        ms.append(k if k in ("always", "never") else gen_set(rng, t, present, names))
    return lg.make_ctx(sch, list(vals), ms)


class ListGen(lg.Gen):
    """filters in which most comparisons on int / bytes / ip are `in $name`"""

    def __init__(self, rng, sch, names, **kw):
        super().__init__(rng, sch, **kw)
        self.names = names

    def gen_op(self, t):
        if t in LIST_TYPES and self.sch.list_index(t) is not None and self.rng.random() < 0.6:
            return ("inlist", self.sch.list_index(t), self.rng.choice(self.names))
        return super().gen_op(t)

    def gen_inlist_cmp(self):
        """(comparison, n_each) with an `in $name` operator, or None"""
        rng = self.rng
        types = [t for t in LIST_TYPES if self.sch.list_index(t) is not None]
        if not types:
            return None
        for _ in range(40):
            want = rng.choice(types)
            r = self.gen_iexpr(lambda x: x == want, True, 0)
            # the case format records the queries of ONE list comparison: a left-hand side that itself contains
            # one (inside a Bool argument of a call) belongs to the general `exec` cases
            if r and "'inlist'" not in repr(r[0]):
                ie, t, n_each = r
                return ("cmp", ie, ("inlist", self.sch.list_index(t), rng.choice(self.names))), n_each
        return None

    def gen_single(self):
        """one `lhs in $name` under not / parentheses / any / all, of type Bool"""
        rng = self.rng
        r = self.gen_inlist_cmp()
        if r is None:
            return None
        e, n_each = r
        if n_each > 0:
            inner = e if rng.random() < 0.6 else rng.choice([("not", e), ("paren", e), ("not", ("paren", e))])
            e = ("ql", rng.choice(["any", "all"]), inner)
        x = rng.random()
        if x < 0.2:
            return ("not", e)
        if x < 0.3:
            return ("paren", e)
        return e


def line(kind, sch, ast, ctxs, lay=None):
    text = lg.render_lexpr(sch, ast, lay or lg.Layout())
    return to_sexp((kind, sch.sexp(), text.encode(), ast) + tuple(ctxs))


def pick_names(rng):
    return rng.sample(NAME_POOL, rng.choice([2, 3, 4]))


def gen_exec(rng, n_single, n_general, nctx):
    out = []
    feats = ("index", "each", "quant", "oneof", "call", "vec", "mapbool")
    k = 0
    while k < n_single + n_general:
        lists = rng.choice(LIST_CONFIGS)
        sch = lg.Scheme(lg.RICH_FIELDS, lg.RICH_FNS, lists, rng.random() < 0.5)
        names = pick_names(rng)
        g = ListGen(rng, sch, names, features=feats, max_depth=2 if k < n_single else 3)
        ctx_names = names + [rng.choice(NAME_POOL)]
        ctxs = [gen_ctx_with_lists(rng, sch, ctx_names[:rng.randrange(1, len(ctx_names) + 1)],
                                   rng.choice([0.0, 0.2, 0.5])) for _ in range(nctx)]
        if k < n_single:
            ast = g.gen_single()
            if ast is None:
                k += 1
                continue
            # one case in four builds its scheme (the built-in lists) through the C API
            out.append(line("list-ffi" if rng.random() < 0.25 else "list-exec", sch, ast, ctxs, lg.Layout(rng)))
        else:
            ast = g.gen_filter()
            out.append(line("exec", sch, ast, ctxs, lg.Layout(rng)))
        k += 1
    return out


# ---------------------------------------------------------------- list names

NAME_FIELDS = [("num", "int", True), ("str", "bytes", False), ("ip.src", "ip", True), ("tt", "bool", True),
               ("nums", arr("int"), True), ("hdr", mp("bytes"), True), ("bools", arr("bool"), True),
               ("ips", arr("ip"), True)]
NAME_FNS = [("echo_int", "echo_int"), ("lower", "lower"), ("echo_ip", "echo_ip")]
# (text of the left side, its static type)
NAME_LHS = [("num", "int"), ("str", "bytes"), ("ip.src", "ip"), ("nums[1]", "int"), ('hdr["a"]', "bytes"),
            ("echo_int(num)", "int"), ("lower(str)", "bytes"), ("echo_ip(ips[0])", "ip"), ("tt", "bool"),
            ("nums", arr("int")), ("hdr", mp("bytes")), ("bools", arr("bool")), ("ips", arr("ip"))]
NAME_LISTS = [
    [("int", "set"), ("bytes", "always"), ("ip", "never")],
    [("bytes", "set")],
    [],
    [(arr("int"), "always"), ("bool", "never"), ("ip", "set"), ("int", "always")],
]
VALID_CH = "az09_."
INVALID_CH = ["A", "Z", "-", "$", ":", "/", "é", "#", ")", "@", "*", "\\"]


def name_case(sch, lhs, ty, name):
    return to_sexp(("list-name", sch.sexp(), lhs.encode(), ty, name.encode()))


def gen_names(rng, tier):
    out = []
    schemes = [lg.Scheme(NAME_FIELDS, NAME_FNS, ls, True) for ls in NAME_LISTS]
    sigma = ["a", "9", "_", ".", "A", "-"]
    maxlen = 3 if tier == "quick" else 5
    names = [""]
    for n in range(1, maxlen + 1):
        names += ["".join(p) for p in itertools.product(sigma, repeat=n)]
    # exhaustive over the small alphabet, on three left sides of the first two schemes
    for name in names:
        for si, (lhs, ty) in ((0, NAME_LHS[0]), (0, NAME_LHS[1]), (1, NAME_LHS[2]), (1, NAME_LHS[4])):
            out.append(name_case(schemes[si], lhs, ty, name))
    # every left side x every scheme on a few names
    for sch in schemes:
        for lhs, ty in NAME_LHS:
            for name in ["a", "a.b", ".a", "a.", "", "aB", "a..b", "_", "0"]:
                out.append(name_case(sch, lhs, ty, name))
    # random longer names
    for _ in range(600 if tier == "quick" else 20000):
        n = rng.choice([1, 2, 3, 5, 8, 13, 40])
        chars = []
        for _ in range(n):
            r = rng.random()
            chars.append(rng.choice(VALID_CH) if r < 0.8 else "." if r < 0.9 else rng.choice(INVALID_CH))
        lhs, ty = rng.choice(NAME_LHS)
        out.append(name_case(rng.choice(schemes), lhs, ty, "".join(chars)))
    return out


# ---------------------------------------------------------------- histories

HIST_FIELDS = [("n", "int", True), ("s", "bytes", True), ("ip", "ip", True), ("ns", arr("int"), True),
               ("ss", arr("bytes"), True), ("b", "bool", True), ("m", mp("ip"), True)]
HIST_FNS = [("echo_int", "echo_int"), ("lower", "lower"), ("len", "len")]
H_NAMES = [b"a", b"ab", b"a.b", b"l1", b"_"]
H_VALUES = {
    "int": [("i", v) for v in (0, 1, 7, -1, lg.I64_MIN, lg.I64_MAX)],
    "bytes": [("s", v) for v in (b"", b"a", b"ab", b"A", b"\xff", "é".encode())],
    "ip": [("v4", 1), ("v4", 0x0A000001), ("v6", 1), ("v6", 0xFFFF0A000001), ("v6", (1 << 128) - 1)],
}
OTHER_TYPES = ["bool", arr("int"), mp("bytes"), arr(arr("bool"))]


def h_value(rng, t=None):
    t = t if t in LIST_TYPES else rng.choice(LIST_TYPES)
    return rng.choice(H_VALUES[t])


def h_field_value(rng, t):
    if isinstance(t, str):
        return ("b", rng.random() < 0.5) if t == "bool" else h_value(rng, t)
    kind, elt = t
    n = rng.choice([0, 1, 2, 3])
    if kind == "array":
        return ("arr", elt) + tuple(h_field_value(rng, elt) for _ in range(n))
    keys = sorted(set(rng.choice([b"a", b"b", "é".encode(), b""]) for _ in range(n)))
    return ("map", elt) + tuple((k, h_field_value(rng, elt)) for k in keys)


def h_doc(rng, sch):
    entries = []
    for _ in range(rng.choice([0, 1, 1, 2, 3, 4])):
        r = rng.random()
        if r < 0.8 and sch.lists:
            t, k = rng.choice(sch.lists)
        else:
            t, k = rng.choice(LIST_TYPES + OTHER_TYPES), None
        if rng.random() < (0.15 if k == "set" else 0.5):
            entries.append((t, "empty"))
        else:
            names = sorted(set(rng.choice(H_NAMES) for _ in range(rng.choice([0, 1, 2, 3]))))
            sets = []
            for nm in names:
                vs = []
                for _ in range(rng.choice([0, 1, 2, 3])):
                    v = h_value(rng, t if rng.random() < 0.8 else None)
                    if v not in vs:
                        vs.append(v)
                sets.append((nm,) + tuple(vs))
            entries.append((t, ("set",) + tuple(sets)))
    return ("load",) + tuple(entries)


def h_exec(rng, sch, g):
    ast = g.gen_single() if rng.random() < 0.7 else g.gen_filter()
    if ast is None:
        ast = g.gen_filter()
    text = lg.render_lexpr(sch, ast, lg.Layout(rng) if rng.random() < 0.3 else lg.Layout())
    return ("exec", text.encode(), ast)


def random_history(rng, n):
    lists = rng.choice(LIST_CONFIGS)
    sch = lg.Scheme(HIST_FIELDS, HIST_FNS, lists, rng.random() < 0.5)
    g = ListGen(rng, sch, H_NAMES, features=("index", "each", "quant", "call", "oneof"), max_depth=2)
    ops = []

    set_types = [t for t, k in lists if k == "set"]

    def a_type():
        r = rng.random()
        if r < 0.7 and set_types:
            return rng.choice(set_types)
        if r < 0.88 and lists:
            return rng.choice(lists)[0]
        return rng.choice(LIST_TYPES + OTHER_TYPES)

    for _ in range(n):
        r = rng.random()
        if r < 0.30:
            t = a_type()
            ops.append(("add", t, rng.choice(H_NAMES), h_value(rng, t if rng.random() < 0.9 else None)))
        elif r < 0.38:
            t = a_type()
            ops.append(("del", t, rng.choice(H_NAMES), h_value(rng, t if rng.random() < 0.9 else None)))
        elif r < 0.50:
            f = rng.randrange(len(sch.fields))
            ops.append(("setv", f, h_field_value(rng, sch.fields[f][1])))
        elif r < 0.72:
            ops.append(h_exec(rng, sch, g))
        elif r < 0.79:
            t = a_type()
            ops.append(("probe", t, rng.choice(H_NAMES), h_value(rng, t)))
        elif r < 0.84:
            ops.append(("dump", a_type()))
        elif r < 0.92:
            ops.append(("roundtrip", rng.choice([0, 0, 1, 2, 3, 5, 7])))
        elif r < 0.95:
            ops.append(("clear",))
        else:
            ops.append(h_doc(rng, sch))
    return to_sexp(("list-history", sch.sexp()) + tuple(ops))


SMALL = lg.Scheme([("n", "int", True), ("ss", arr("bytes"), True)], [],
                  [("bool", "never"), ("bytes", "set"), ("int", "set"), ("ip", "always")], True)


def small_alphabet():
    n_in = ("cmp", ("field", 0), ("inlist", 2, b"a"))
    ss_in = ("ql", "any", ("cmp", ("field", 1, "each"), ("inlist", 1, b"a")))
    return [
        ("add", "int", b"a", ("i", 7)),
        ("add", "bytes", b"a", ("s", b"x")),
        ("add", "int", b"ab", ("i", 7)),
        ("del", "int", b"a", ("i", 7)),
        ("add", "ip", b"a", ("v4", 1)),
        ("setv", 0, ("i", 7)),
        ("setv", 1, ("arr", "bytes", ("s", b"y"), ("s", b"x"))),
        ("exec", lg.render_lexpr(SMALL, n_in, lg.Layout()).encode(), n_in),
        ("exec", lg.render_lexpr(SMALL, ss_in, lg.Layout()).encode(), ss_in),
        ("roundtrip", 0),
        ("roundtrip", 1),
        ("clear",),
        ("load", ("int", ("set", (b"a", ("i", 7)))), ("bytes", "empty")),
        ("load", ("ip", ("set", (b"a", ("i", 7)))), ("int", ("set", (b"a", ("i", 7))))),
        ("dump", "int"),
    ]


def exhaustive_histories(maxlen):
    al = [to_sexp(o) for o in small_alphabet()]
    s = to_sexp(SMALL.sexp())
    out = []
    for n in range(0, maxlen + 1):
        for ops in itertools.product(al, repeat=n):
            out.append("(list-history " + s + "".join(" " + o for o in ops) + ")")
    return out


# ---------------------------------------------------------------- wiring

def gen(rng, tier):
    quick = tier == "quick"
    out = []
    out += gen_exec(rng, 700 if quick else 12000, 500 if quick else 10000, 4 if quick else 8)
    out += gen_names(rng, tier)
    out += exhaustive_histories(2 if quick else 3)
    for _ in range(500 if quick else 10000):
        out.append(random_history(rng, rng.choice([3, 6, 10, 16, 24])))
    return out


def normalize(kind, out, case_line):
    if case_line.startswith("(exec "):
        return norm_exec(kind, out, case_line)
    return out


def nontrivial(l):
    if l.startswith("(list-name"):
        return True
    if l.startswith("(list-history"):
        return "(exec " in l and ("(roundtrip" in l or "(clear" in l or "(load" in l)
    return "(inlist " in l


def distribution(lines):
    d = {"cases": len(lines), "list_exec": 0, "exec_general": 0, "list_name": 0, "list_history": 0,
         "history_ops": 0, "roundtrips": 0, "clears": 0, "loads": 0, "execs_in_histories": 0,
         "inlist_nodes": 0, "map_each_lhs": 0, "call_lhs": 0}
    for l in lines:
        if l.startswith("(list-exec") or l.startswith("(list-ffi"):
            d["list_exec"] += 1
            d["through_c_api"] = d.get("through_c_api", 0) + l.startswith("(list-ffi")
        elif l.startswith("(exec"):
            d["exec_general"] += 1
        elif l.startswith("(list-name"):
            d["list_name"] += 1
        elif l.startswith("(list-history"):
            d["list_history"] += 1
            d["roundtrips"] += l.count("(roundtrip")
            d["clears"] += l.count("(clear")
            d["loads"] += l.count("(load")
            d["execs_in_histories"] += l.count("(exec ")
            d["history_ops"] += sum(l.count("(" + k) for k in ("add ", "del ", "setv ", "probe ", "dump ", "exec ",
                                                               "roundtrip ", "clear)", "load"))
        d["inlist_nodes"] += l.count("(inlist ")
        d["map_each_lhs"] += l.count(" each) (inlist")
        d["call_lhs"] += l.count(")) (inlist") + l.count(") each) (inlist")
    return d


PROP = {
    "id": "C17",
    "prop_file": "theories/Props/C17.v",
    "proof_files": ["theories/Proofs/ListProofs.v", "theories/Proofs/ListNameProofs.v", "theories/Proofs/FullProofs.v", "theories/Proofs/ScalarProofs.v",
                    "theories/Proofs/ParserClosed.v", "theories/Proofs/LexFacts.v"],
    "gen": gen,
    "normalize": normalize,
    "nontrivial": nontrivial,
    "distribution": distribution,
    "exhaustive": False,
    "vm_sample": (60, 1000),
    "rule": "list-exec / exec: rich scheme (functions, containers to depth 3) x 7 list registrations (set lists on "
            "int/bytes/ip, always/never on every type, lists on unusable types shifting the indexes, a type left "
            "unregistered) x `lhs in $name` with lhs a field, index path, map-each path or call, alone (with the "
            "recorded (name, value) queries) and inside random filters x contexts whose set matchers hold named sets "
            "(prefix-related names) half filled from the context's own values; list-name: every name over "
            "{a,9,_,.,A,-} up to length 3 (quick) / 5 (thorough) and random names up to 40 characters with invalid "
            "characters x 13 left sides of every type x 4 list registrations; list-history: every history of length "
            "<= 2 (quick) / 3 (thorough) over a 15-operation alphabet on a small scheme, and random histories of 3-24 "
            "operations (add / del / set value / clear / round trip with rotated $lists / load of hand-made $lists / "
            "dump / probe / execute) on one real ExecutionContext.  Non-trivial = has an `in $name` node / a parsed "
            "name / a history that executes a filter and round-trips, clears or loads.",
    "assumptions": [
        "the JSON text layer of the context serialization is not modelled here (C14): a serialized context is an "
        "abstract document; contexts are written and read as text (serde_json::to_string / Deserializer::from_str)",
        "the harness matcher SetMatcher (BTreeMap<String, Vec<value>>) is a fixture mirrored by MSet / sets_add / "
        "sets_del; built-in lists are AlwaysList / NeverList of the engine (the C API registers the same two)",
        "histories use schemes whose fields are all optional (an unset mandatory field is C08's panic)",
    ],
}


# ---------------------------------------------------------------- the directed corpus
# `cd tools && python3 -m props.c17 --corpus` rewrites corpus/C17/*.txt (no randomness).

def write_corpus():
    import os
    CORPUS_DIR = os.path.join(os.path.dirname(os.path.dirname(os.path.dirname(os.path.abspath(__file__)))),
                              "corpus", "C17")
    os.makedirs(CORPUS_DIR, exist_ok=True)

    FIELDS = [("num", "int", False), ("onum", "int", True), ("str", "bytes", False), ("ip.src", "ip", False),
              ("oip", "ip", True), ("nums", arr("int"), True), ("strs", arr("bytes"), False), ("hdr", mp("bytes"), True),
              ("cube", arr(arr("int")), True)]
    FNS = [("lower", "lower"), ("echo_int", "echo_int"), ("len", "len")]

    def fi(sch, n): return sch.field_index(n)

    def cases(lists, matchers_variants, names, ffi=False):
        sch = lg.Scheme(FIELDS, FNS, lists, True)
        li = {t: sch.list_index(t) for t in ("int", "bytes", "ip")}
        vals1 = [("i", 7), None, ("s", b"Ab"), ("v4", 0x0A000001), None,
                 ("arr", "int", ("i", 1), ("i", 7), ("i", 9)), ("arr", "bytes", ("s", b"ab"), ("s", b"x")),
                 ("map", "bytes", (b"a", ("s", b"ab")), (b"b", ("s", b"zz"))),
                 ("arr", arr("int"), ("arr", "int", ("i", 7)), ("arr", "int"), ("arr", "int", ("i", 2), ("i", 7)))]
        vals2 = [("i", -1), ("i", 7), ("s", b""), ("v6", 1), ("v6", 1), None, ("arr", "bytes"), None, None]
        out = []
        asts = []
        for nm in names:
            if li["int"] is not None:
                asts += [("cmp", ("field", fi(sch, "num")), ("inlist", li["int"], nm)),
                         ("cmp", ("field", fi(sch, "onum")), ("inlist", li["int"], nm)),
                         ("ql", "any", ("cmp", ("field", fi(sch, "nums"), "each"), ("inlist", li["int"], nm))),
                         ("ql", "all", ("cmp", ("field", fi(sch, "nums"), "each"), ("inlist", li["int"], nm))),
                         ("cmp", ("field", fi(sch, "nums"), ("a", 1)), ("inlist", li["int"], nm)),
                         ("cmp", ("field", fi(sch, "nums"), ("a", 5)), ("inlist", li["int"], nm)),
                         ("ql", "any", ("cmp", ("field", fi(sch, "cube"), "each", "each"), ("inlist", li["int"], nm))),
                         ("ql", "all", ("cmp", ("field", fi(sch, "cube"), "each", ("a", 0)), ("inlist", li["int"], nm))),
                         ("cmp", ("call", sch.fn_index("echo_int"), (("ai", ("field", fi(sch, "num"))),)), ("inlist", li["int"], nm)),
                         ("ql", "any", ("cmp", ("call", sch.fn_index("len"), (("ai", ("field", fi(sch, "strs"), "each")),), "each"), ("inlist", li["int"], nm))),
                         ("not", ("cmp", ("field", fi(sch, "num")), ("inlist", li["int"], nm)))]
            if li["bytes"] is not None:
                asts += [("cmp", ("field", fi(sch, "str")), ("inlist", li["bytes"], nm)),
                         ("cmp", ("call", sch.fn_index("lower"), (("ai", ("field", fi(sch, "str"))),)), ("inlist", li["bytes"], nm)),
                         ("cmp", ("field", fi(sch, "hdr"), ("k", b"a")), ("inlist", li["bytes"], nm)),
                         ("cmp", ("field", fi(sch, "hdr"), ("k", b"zz")), ("inlist", li["bytes"], nm)),
                         ("ql", "any", ("cmp", ("field", fi(sch, "hdr"), "each"), ("inlist", li["bytes"], nm))),
                         ("ql", "all", ("not", ("cmp", ("field", fi(sch, "strs"), "each"), ("inlist", li["bytes"], nm))))]
            if li["ip"] is not None:
                asts += [("cmp", ("field", fi(sch, "ip.src")), ("inlist", li["ip"], nm)),
                         ("cmp", ("field", fi(sch, "oip")), ("inlist", li["ip"], nm))]
        for ast in asts:
            ctxs = []
            for ms in matchers_variants:
                ctxs.append(lg.make_ctx(sch, vals1, ms))
                ctxs.append(lg.make_ctx(sch, vals2, ms))
            out.append(line("list-exec", sch, ast, ctxs))
            if ffi and len(out) % 3 == 0:
                out.append(line("list-ffi", sch, ast, ctxs))
            if len(out) % 7 == 1:
                out.append(line("exec", sch, ast, ctxs))
        return out

    def write(name, comment, lines):
        with open(os.path.join(CORPUS_DIR, name), "w") as f:
            for c in comment:
                f.write("; " + c + "\n")
            for l in lines:
                f.write(l + "\n")
        print(name, len(lines))

    # F2 regression: the built-in lists on every type
    write("f2_always_never.txt",
          ["F2 (fixed in /repo 5101249): AlwaysListMatcher::match_value returned false.",
           "`x in $name` against the built-in always-list (and never-list) on int / bytes / ip: fields (present, absent),",
           "index paths, map-each paths and calls."],
          cases([("int", "always"), ("bytes", "always"), ("ip", "always")], [["always"] * 3], [b"any"], ffi=True)
          + cases([("bool", "never"), ("ip", "always"), (arr("int"), "never"), ("int", "always"), ("bytes", "never")],
                  [["never", "always", "never", "always", "never"]], [b"x_1"], ffi=True))

    # set lists: routing by type with shifted indexes, prefix-related names, values in / out
    S_int = ("set", (b"a", ("i", 7)), (b"ab", ("i", 9), ("i", -1)), (b"l1", ("i", 2), ("i", 1)))
    S_bytes = ("set", (b"a", ("s", b"ab")), (b"ab", ("s", b"Ab"), ("s", b"")), (b"l1", ("s", b"x")))
    S_ip = ("set", (b"a", ("v4", 0x0A000001)), (b"ab", ("v6", 1)))
    S_cross = ("set", (b"a", ("s", b"ab"), ("v6", 1)), (b"ab", ("i", 7)))   # an int list holding no ints under `a`
    write("set_lists.txt",
          ["set lists on int / bytes / ip; names a / ab / l1 / nope (prefix-related, unknown); the same sets installed on",
           "a registration with unusable lists in front (indexes shifted) must give the same answers"],
          cases([("int", "set"), ("bytes", "set"), ("ip", "set")], [[S_int, S_bytes, S_ip], [S_cross, ("set",), S_ip]],
                [b"a", b"ab"])
          + cases([("bool", "set"), ("ip", "set"), (arr("int"), "always"), ("bytes", "set"), ("int", "set")],
                  [[S_int, S_ip, "always", S_bytes, S_int]], [b"a"])
          )

    # names
    nsch = [lg.Scheme(NAME_FIELDS, NAME_FNS, ls, True) for ls in NAME_LISTS]
    nl = []
    for name in ["hello", "hello_world", "hello.world", "hello1234567890", "a", "0", "_", "a.b", "a..b", "a.b.c", "",
                 ".", ".abc", "abc.", "a.", "..", "A", "aB", "Ab", "a-b", "a$b", "$a", "abc;", "a:b", "é", "aé", "a.é",
                 "a*", "a)", "a#"]:
        k = len(nl) % 3
        sch, (lhs, ty) = ((nsch[0], NAME_LHS[0]), (nsch[1], NAME_LHS[4]), (nsch[0], NAME_LHS[2]))[k]
        nl.append(name_case(sch, lhs, ty, name))
    for si, sch in enumerate(nsch):
        for li_, (lhs, ty) in enumerate(NAME_LHS):
            if (si + li_) % 2 == 0:
                nl.append(name_case(sch, lhs, ty, "ok_name.1"))
    write("names.txt",
          ["list names: the valid / invalid examples of rhs_types/list.rs and more (inner dots, doubled dots, upper case,",
           "non-ASCII), on left sides of every type, with and without a list registered for the type"], nl)

    # histories
    H = lg.Scheme(HIST_FIELDS, HIST_FNS,
                  [("bool", "never"), ("ip", "set"), (arr("int"), "always"), ("bytes", "set"), ("int", "set")], True)
    def ex(ast):
        return ("exec", lg.render_lexpr(H, ast, lg.Layout()).encode(), ast)
    n_in_a = ("cmp", ("field", 0), ("inlist", 4, b"a"))
    n_in_ab = ("cmp", ("field", 0), ("inlist", 4, b"ab"))
    s_in_a = ("cmp", ("field", 1), ("inlist", 3, b"a"))
    ip_in_a = ("cmp", ("field", 2), ("inlist", 1, b"a"))
    ns_any = ("ql", "any", ("cmp", ("field", 3, "each"), ("inlist", 4, b"a")))
    ss_all = ("ql", "all", ("cmp", ("field", 4, "each"), ("inlist", 3, b"a")))
    call_in = ("cmp", ("call", 1, (("ai", ("field", 1)),)), ("inlist", 3, b"a"))
    hist = []
    hist.append(("list-history", H.sexp(),
                 ("setv", 0, ("i", 7)), ("setv", 1, ("s", b"Ab")), ("setv", 2, ("v4", 1)),
                 ("setv", 3, ("arr", "int", ("i", 1), ("i", 7))), ("setv", 4, ("arr", "bytes", ("s", b"ab"), ("s", b"x"))),
                 ex(n_in_a), ("add", "int", b"a", ("i", 7)), ex(n_in_a), ex(n_in_ab), ex(ns_any),
                 ("add", "bytes", b"a", ("s", b"ab")), ("add", "bytes", b"a", ("s", b"x")), ex(ss_all), ex(call_in), ex(s_in_a),
                 ("add", "ip", b"a", ("v4", 1)), ex(ip_in_a), ("add", "bytes", b"a", ("i", 7)),
                 ("dump", "int"), ("dump", "bytes"), ("dump", "ip"), ("dump", "bool"), ("dump", arr("int")), ("dump", mp("int")),
                 ("roundtrip", 0), ex(n_in_a), ex(ss_all), ex(ip_in_a),
                 ("roundtrip", 1), ("roundtrip", 2), ("roundtrip", 3), ("roundtrip", 4), ("roundtrip", 7),
                 ex(n_in_a), ex(ss_all), ex(ip_in_a), ex(call_in),
                 ("del", "int", b"a", ("i", 7)), ex(n_in_a), ("dump", "int"), ("add", "int", b"a", ("i", 7)),
                 ("probe", "int", b"a", ("i", 7)), ("probe", "int", b"ab", ("i", 7)), ("probe", "bytes", b"a", ("i", 7)),
                 ("probe", "bool", b"a", ("i", 7)), ("probe", arr("int"), b"a", ("i", 7)), ("probe", mp("int"), b"a", ("i", 7)),
                 ("clear",), ex(n_in_a), ("dump", "int"), ("dump", "bytes"), ("dump", "ip"), ("roundtrip", 0), ("roundtrip", 2)))
    hist.append(("list-history", H.sexp(),
                 ("add", "bool", b"a", ("i", 7)), ("add", arr("int"), b"a", ("i", 7)), ("add", mp("int"), b"a", ("i", 7)),
                 ("del", "bool", b"a", ("i", 7)), ("del", "int", b"zz", ("i", 7)),
                 ("load", ("int", ("set", (b"a", ("i", 7)), (b"ab", ("i", 1), ("s", b"x")))), ("ip", ("set",))),
                 ("dump", "int"), ("dump", "ip"), ("setv", 0, ("i", 7)), ex(n_in_a),
                 ("load", ("bytes", ("set", (b"a", ("s", b"q")))), ("int", ("set", (b"l1",))), ("bytes", ("set", (b"ab", ("s", b"r"))))),
                 ("dump", "int"), ("dump", "bytes"),
                 ("load", ("int", "empty")), ("dump", "bytes"),
                 ("load", ("bool", "empty"), (arr("int"), ("set", (b"a", ("i", 1)))), ("bool", ("set",))),
                 ("dump", "bool"), ("dump", arr("int")),
                 ("load", (mp("int"), "empty")), ("load", ("int", ("set",)), (arr("bool"), ("set",))),
                 ("load",), ("dump", "bytes"), ("roundtrip", 1),
                 ("setv", 0, ("s", b"x")), ("setv", 9, ("i", 1)), ("setv", 6, ("map", "ip", (b"a", ("v6", 1)), ("é".encode(), ("v4", 1)))),
                 ("roundtrip", 0), ("roundtrip", 3)))
    H2 = lg.Scheme(HIST_FIELDS, HIST_FNS, [], True)
    hist.append(("list-history", H2.sexp(), ("add", "int", b"a", ("i", 7)), ("dump", "int"), ("setv", 0, ("i", 1)),
                 ("roundtrip", 0), ("roundtrip", 5), ("load",), ("load", ("int", "empty")), ("clear",), ("roundtrip", 1)))
    write("histories.txt",
          ["matcher state histories on one real context: mutate through get_list_matcher_mut, execute, round trip (as written",
           "and with $lists rotated), clear, hand-made $lists documents (routing by type, unknown type, wrong data)"],
          [to_sexp(h) for h in hist] + exhaustive_histories(1))


if __name__ == "__main__":
    import sys
    if "--corpus" in sys.argv:
        write_corpus()
