"""C20 — the C API mirrors the Rust API and reports failures via status and last-error:
generators and wiring.

Case kinds (coq/theories/Run/C20.v, harness/src/c20.rs):
  (ffi-history <call>...)                            one fresh thread
  (ffi-2threads (<call>...) (<call>...) (0|1 ...))   two fresh threads in lock-step
  (cstring-history <op>...)                          the CString behind LAST_ERROR alone
A call is (<name> <expect> <arg>...); <expect> = ok | (fail str|eng plain|nul) | panic is predicted
HERE (the generator tracks the builder, schemes, ASTs, filters and contexts it creates: which names
exist with which type, which filters are well typed, which values a context holds); the model turns
it into the required result and last-error, the harness ignores it and runs the real functions next
to the Rust API."""
import langgen as lg
import vp
from langgen import arr, mp
from vp import to_sexp, Sym

F8_TAG = "F8-bool-fns-no-last-error"
F8_FNS = {"add-field", "add-always-list", "add-never-list", "add-int", "add-bytes", "add-ipv4", "add-ipv6", "add-bool"}

OK = Sym("ok")
PANIC = Sym("panic")


def fail(site, nul=False):
    return (Sym("fail"), Sym(site), Sym("nul" if nul else "plain"))


# every field is mandatory: the C API has no optional fields
FIELD_POOL = [(n, t) for n, t, _ in lg.RICH_FIELDS]
SIMPLE_POOL = [("num", "int"), ("str", "bytes"), ("ip.src", "ip"), ("tt", "bool"), ("nums", arr("int")),
               ("hdr", mp("bytes")), ("onum", "int"), ("ostr", "bytes")]
LIB_FNS = list(lg.RICH_FNS) + [("boom", "boom")]
PANIC_FNS = [("boom", "boom"), ("boom_parse", "boom_parse"), ("boom_compile", "boom_compile")]
TYPES = ["bool", "bytes", "int", "ip", arr("int"), mp("bytes"), arr(arr("bool")), mp(mp(arr("int"))), arr(mp("ip")),
         mp(arr(mp(arr("bytes"))))]
NON_UTF8 = [b"\xff", b"num\xff", b"\xc3\x28", b"\xe2\x82", b"a\x80b", b"\xf0\x28\x8c\xbc"]
FEATURES = ("index", "each", "quant", "oneof", "call", "vec", "inlist", "mapbool")


def nameable(name):
    """can a filter text name this field?"""
    return bool(name) and all(c.isascii() and (c.isalnum() or c in "_.") for c in name)


def simple_cmp(name, t):
    """a comparison on one field, in text"""
    if not nameable(name):
        return None
    if t == "int":
        return "%s == 7" % name
    if t == "bytes":
        return '%s == "boom"' % name
    if t == "ip":
        return "%s == 10.0.0.1" % name
    if t == "bool":
        return name
    if t == arr("int"):
        return "%s[0] == 1" % name
    if t == mp("bytes"):
        return '%s["host"] == "a"' % name
    return None


def value_call(name, t, rng):
    """(call name, value) setting a field of primitive type t through its typed function"""
    if t == "int":
        return "add-int", rng.choice(lg.INT_POOL)
    if t == "bytes":
        return "add-bytes", rng.choice(lg.BYTES_POOL)
    if t == "bool":
        return "add-bool", rng.random() < 0.5
    if t == "ip":
        if rng.random() < 0.5:
            return "add-ipv4", rng.choice(lg.V4_POOL)
        return "add-ipv6", rng.choice(lg.V6_POOL)
    return None


WRONG = {"int": ("add-bytes", b"x"), "bytes": ("add-int", 5), "ip": ("add-bool", True), "bool": ("add-ipv4", 1)}

JSON_OK = {"int": [b"1", b"-5", b"9223372036854775807"], "bytes": [b'"abc"', b'"a\\u0000b"', b"[1,2,255]", b'""'],
           "bool": [b"true", b"false"], "ip": [b'"1.2.3.4"', b'"::1"'], arr("int"): [b"[]", b"[1,2,3]"],
           mp("bytes"): [b"{}", b'{"a":"b"}']}
JSON_BAD = {"int": [b'"x"', b"{", b"", b"true"], "bytes": [b"5", b"{"], "bool": [b"1", b"nope"], "ip": [b'"1.2.3"', b"7"],
            arr("int"): [b'["a"]', b"5"], mp("bytes"): [b"[1]", b'{"a":1}']}
BAD_DOCS = [b"{", b"", b"[1]", b"nonsense", b'{"nosuch":1}', b"\xff"]


def used_fields(sch, e, acc=None):
    """names of the fields an AST (langgen form) mentions"""
    if acc is None:
        acc = set()
    if isinstance(e, tuple):
        if e and e[0] == "field":
            acc.add(sch.fields[e[1]][0])
        for x in e:
            used_fields(sch, x, acc)
    return acc


class H:
    """One thread's history and the state it leaves."""

    def __init__(self, rng):
        self.rng = rng
        self.calls = []
        self.builder = None      # dict(fields=[(n,t)], lists=[(t,k)], fns=[(n,lib)])
        self.schemes = {}        # slot -> dict(fields, lists, fns, id)
        self.asts = {}           # slot -> dict(sid, used or None, special)
        self.filters = {}        # slot -> same
        self.ctxs = {}           # slot -> dict(sid, set=set(names), vals={name: value})
        self.enabled = False
        self.dead = False
        self.next_id = 0
        self.kinds = []

    # ---- plumbing
    def emit(self, name, expect, *args):
        if self.dead:
            return
        self.calls.append((Sym(name), expect) + tuple(args))
        self.kinds.append("ok" if expect is OK else "panic" if expect is PANIC else "fail")

    def catching(self):
        return self.enabled

    # ---- protocol-only calls
    def get_le(self):
        self.emit("get-last-error", OK)

    def clear_le(self):
        self.emit("clear-last-error", OK)

    def enable(self):
        self.emit("enable", OK)
        self.enabled = True

    def disable(self):
        self.emit("disable", OK)
        self.enabled = False

    def set_hook(self):
        self.emit("set-hook", OK)

    def set_fallback(self, good):
        n = 0 if good else self.rng.choice([2, 3, 7, 128, 255])
        self.emit("set-fallback", OK if good else fail("eng"), n)

    def version(self):
        self.emit("version", OK)

    def make_type(self):
        self.emit(self.rng.choice(["make-type", "ser-type"]), OK, self.rng.choice(TYPES))

    # ---- builder
    def create_builder(self, fns=()):
        self.emit("create-builder", OK, (Sym("fns"),) + tuple((n.encode(), Sym(l)) for n, l in fns))
        self.builder = {"fields": [], "lists": [], "fns": list(fns)}

    def free_builder(self):
        self.emit("free-builder", OK)
        self.builder = None

    def add_field(self, name, t):
        """name: bytes; the outcome follows from the builder's state"""
        b = self.builder
        try:
            s = name.decode("utf-8")
        except UnicodeDecodeError:
            self.emit("add-field", fail("str"), name, t)
            return
        taken = {n for n, _ in b["fields"]} | {n for n, _ in b["fns"]}
        if s in taken:
            self.emit("add-field", fail("eng", b"\0" in name), name, t)
            return
        self.emit("add-field", OK, name, t)
        b["fields"].append((s, t))

    def add_list(self, t, always):
        b = self.builder
        name = "add-always-list" if always else "add-never-list"
        if any(lt == t for lt, _ in b["lists"]):
            self.emit(name, fail("eng"), t)
            return
        self.emit(name, OK, t)
        b["lists"].append((t, "always" if always else "never"))

    def build(self, slot):
        b = self.builder
        self.emit("build", OK, slot)
        self.schemes[slot] = {"fields": list(b["fields"]), "lists": list(b["lists"]), "fns": list(b["fns"]),
                              "id": self.next_id}
        self.next_id += 1
        self.builder = None

    def free_scheme(self, slot):
        self.emit("free-scheme", OK, slot)
        del self.schemes[slot]

    def ser_scheme(self, slot):
        self.emit("ser-scheme", OK, slot)

    def lg_scheme(self, s):
        """langgen view: only fields a filter text can name"""
        fields = [(n, t, False) for n, t in s["fields"]]
        fns = [(n, l) for n, l in s["fns"] if l in lg.LIB and l != "boom"]
        return lg.Scheme(fields, fns, s["lists"], True)

    # ---- parse
    def parse_text(self, sslot, aslot, text, expect, used=None, special=None):
        self.emit("parse", expect, sslot, aslot, text)
        self.asts.pop(aslot, None)        # the slot's previous AST is freed first
        if expect is OK:
            self.asts[aslot] = {"sid": self.schemes[sslot]["id"], "used": used, "special": special,
                                "scheme": self.schemes[sslot]}
        if expect is PANIC and not self.catching():
            self.dead = True

    def good_filter(self, s, fancy=True):
        """(text bytes, used field names) of a well-typed filter for scheme dict s, or None"""
        rng = self.rng
        named = [(n, t) for n, t in s["fields"] if simple_cmp(n, t)]
        sch = self.lg_scheme(s)
        if fancy and len(s["fields"]) >= 4 and all(nameable(n) for n, _ in s["fields"]):
            try:
                g = lg.Gen(rng, sch, features=FEATURES, max_depth=rng.choice([1, 2, 3]))
                ast = g.gen_filter()
                text = lg.render_lexpr(sch, ast, lg.Layout(rng if rng.random() < 0.5 else None))
                return text.encode(), used_fields(sch, ast)
            except RuntimeError:
                pass
        if not named:
            return None
        k = rng.choice([1, 1, 2, 3])
        parts = [rng.choice(named) for _ in range(k)]
        text = rng.choice([" and ", " or ", " xor "]).join(simple_cmp(n, t) for n, t in parts)
        if rng.random() < 0.3:
            text = "not (" + text + ")"
        return text.encode(), {n for n, _ in parts}

    def parse_good(self, sslot, aslot, fancy=True):
        r = self.good_filter(self.schemes[sslot], fancy)
        if r is None:
            return False
        self.parse_text(sslot, aslot, r[0], OK, used=r[1])
        return True

    def parse_bad(self, sslot, aslot):
        rng = self.rng
        s = self.schemes[sslot]
        sch = self.lg_scheme(s)
        base = None
        named = [(n, t) for n, t in s["fields"] if simple_cmp(n, t)]
        if named:
            n, t = rng.choice(named)
            base = simple_cmp(n, t)
        kind = rng.choice(["utf8", "nul-pre", "nul-post", "garbage", "unknown", "empty", "type", "open", "nul-only"])
        if base is None and kind in ("nul-pre", "nul-post", "garbage", "type", "open"):
            kind = "unknown"
        if kind == "utf8":
            text = rng.choice(NON_UTF8) if base is None or rng.random() < 0.4 else base.encode() + rng.choice(NON_UTF8)
            return self.parse_text(sslot, aslot, text, fail("str"))
        if kind == "nul-pre":
            return self.parse_text(sslot, aslot, b"\0" + base.encode(), fail("eng", True))
        if kind == "nul-post":
            return self.parse_text(sslot, aslot, base.encode() + b"\0", fail("eng", True))
        if kind == "nul-only":
            return self.parse_text(sslot, aslot, rng.choice([b"\0", b"\0\0", b"zz\0zz == 1"]), fail("eng", True))
        if kind == "garbage":
            text = base + rng.choice([" )", " &&", " == ==", " ]", " zzz", " and and"])
            return self.parse_text(sslot, aslot, text.encode(), fail("eng"))
        if kind == "unknown":
            text = rng.choice(["nosuchfield == 1", "nosuch(num) == 1", "zz", "not", "1 == 1", "é == 1"])
            return self.parse_text(sslot, aslot, text.encode(), fail("eng"))
        if kind == "empty":
            return self.parse_text(sslot, aslot, rng.choice([b"", b" ", b"\n"]), fail("eng"))
        if kind == "open":
            return self.parse_text(sslot, aslot, ("(" + base).encode(), fail("eng"))
        # type error: a literal of the wrong type
        n, t = rng.choice(named)
        wrong = {"int": '%s == "x"', "bytes": "%s == 1.2.3.4", "ip": "%s == 5", "bool": "%s == 1",
                 arr("int"): '%s[0] == "x"', mp("bytes"): '%s["k"] == 1'}[t] % n
        return self.parse_text(sslot, aslot, wrong.encode(), fail("eng"))

    def bytes_field(self, s):
        for n, t in s["fields"]:
            if t == "bytes" and nameable(n):
                return n
        return None

    def parse_special(self, sslot, aslot, lib):
        """boom(f) == "x" and friends; needs the function in the scheme and a Bytes field"""
        s = self.schemes[sslot]
        f = self.bytes_field(s)
        text = ('%s(%s) == "x"' % (lib, f)).encode()
        if lib == "boom_parse":
            self.parse_text(sslot, aslot, text, PANIC)
        else:
            self.parse_text(sslot, aslot, text, OK, used={f}, special=(lib, f))

    # ---- AST-level
    def ast_query(self, aslot):
        rng = self.rng
        a = self.asts[aslot]
        names = [n for n, _ in a["scheme"]["fields"]]
        fn_names = [n for n, _ in a["scheme"]["fns"]]
        r = rng.random()
        if r < 0.15:
            return self.emit("hash", OK, aslot)
        if r < 0.3:
            return self.emit("json", OK, aslot)
        call = rng.choice(["uses", "uses-list"])
        r = rng.random()
        if r < 0.5 and names:
            return self.emit(call, OK, aslot, rng.choice(names).encode())
        if r < 0.65:
            return self.emit(call, fail("str"), aslot, rng.choice(NON_UTF8))
        bad = rng.choice([b"nosuch", b"", b"a\0", b"\0", "é".encode()] + [n.encode() for n in fn_names[:2]])
        if bad.decode() in names:
            return self.emit(call, OK, aslot, bad)
        return self.emit(call, fail("eng"), aslot, bad)

    def free_ast(self, aslot):
        self.emit("free-ast", OK, aslot)
        del self.asts[aslot]

    def compile(self, aslot, fslot):
        a = self.asts.pop(aslot)
        self.filters.pop(fslot, None)
        if a["special"] and a["special"][0] == "boom_compile":
            self.emit("compile", PANIC, aslot, fslot)
            if not self.catching():
                self.dead = True
            return
        self.emit("compile", OK, aslot, fslot)
        self.filters[fslot] = a

    def free_filter(self, fslot):
        self.emit("free-filter", OK, fslot)
        del self.filters[fslot]

    # ---- contexts
    def create_ctx(self, sslot, cslot):
        self.emit("create-ctx", OK, sslot, cslot)
        s = self.schemes[sslot]
        self.ctxs[cslot] = {"sid": s["id"], "scheme": s, "set": set(), "vals": {}}

    def free_ctx(self, cslot):
        self.emit("free-ctx", OK, cslot)
        del self.ctxs[cslot]

    def ser_ctx(self, cslot):
        self.emit("ser-ctx", OK, cslot)

    def set_value(self, cslot, name, t, call=None, value=None):
        """a well-typed value through the typed function"""
        if call is None:
            call, value = value_call(name, t, self.rng)
        self.emit(call, OK, cslot, name.encode(), value)
        c = self.ctxs[cslot]
        c["set"].add(name)
        c["vals"][name] = value

    def add_value(self, cslot):
        rng = self.rng
        c = self.ctxs[cslot]
        fields = c["scheme"]["fields"]
        prim = [(n, t) for n, t in fields if isinstance(t, str)]
        r = rng.random()
        if r < 0.4 and prim:
            n, t = rng.choice(prim)
            return self.set_value(cslot, n, t)
        anycall = rng.choice(["add-int", "add-bytes", "add-ipv4", "add-ipv6", "add-bool"])
        anyval = {"add-int": 3, "add-bytes": b"v", "add-ipv4": 1, "add-ipv6": 1, "add-bool": True}[anycall]
        if r < 0.55:
            return self.emit(anycall, fail("str"), cslot, rng.choice(NON_UTF8), anyval)
        if r < 0.75 or not fields:
            known = {n for n, _ in fields}
            bad = rng.choice([b"nosuch", b"", b"\0", b"num\0", b"NUM"] + [n.encode() for n, _ in c["scheme"]["fns"][:1]])
            if bad.decode() in known:
                return None
            return self.emit(anycall, fail("eng"), cslot, bad, anyval)
        # wrong type (for a container field every typed function is wrong)
        n, t = rng.choice(fields)
        call, val = WRONG[t] if isinstance(t, str) else (anycall, anyval)
        return self.emit(call, fail("eng"), cslot, n.encode(), val)

    def add_json(self, cslot):
        rng = self.rng
        c = self.ctxs[cslot]
        fields = [(n, t) for n, t in c["scheme"]["fields"] if t in JSON_OK]
        r = rng.random()
        if r < 0.15:
            return self.emit("add-json", fail("str"), cslot, rng.choice(NON_UTF8), b"1")
        if r < 0.3 or not fields:
            return self.emit("add-json", fail("eng"), cslot, b"nosuch\0", b"1")
        n, t = rng.choice(fields)
        if r < 0.65:
            self.emit("add-json", OK, cslot, n.encode(), rng.choice(JSON_OK[t]))
            c["set"].add(n)
            c["vals"].pop(n, None)
            return None
        return self.emit("add-json", fail("eng"), cslot, n.encode(), rng.choice(JSON_BAD[t]))

    def fill_ctx(self, cslot):
        """deserialize a complete, well-typed context (its JSON is produced by the Rust API in the harness)"""
        c = self.ctxs[cslot]
        sch = self.lg_scheme(c["scheme"])
        doc = lg.gen_ctx(self.rng, sch, matchers=[Sym(k) for _, k in c["scheme"]["lists"]], p_absent=0.0)
        self.emit("deser-ctx", OK, cslot, doc)
        c["set"] = {n for n, _ in c["scheme"]["fields"]}
        c["vals"] = {}
        bf = self.bytes_field(c["scheme"])
        if bf is not None:
            i = [n for n, _ in c["scheme"]["fields"]].index(bf)
            c["vals"][bf] = doc[1][1 + i][1]

    def deser_bad(self, cslot):
        self.emit("deser-ctx", fail("eng"), cslot, self.rng.choice(BAD_DOCS))

    # ---- match
    def match(self, fslot, cslot):
        """emits a match when its outcome is certain; returns False otherwise"""
        f = self.filters[fslot]
        c = self.ctxs[cslot]
        if f["sid"] != c["sid"]:
            self.emit("match", fail("eng"), fslot, cslot)
            return True
        if f["used"] is None:
            return False
        missing = f["used"] - c["set"]
        if f["special"] and f["special"][0] == "boom":
            field = f["special"][1]
            if field in missing:
                expect = PANIC                       # mandatory field without a value
            elif field in c["vals"]:
                expect = PANIC if c["vals"][field] == b"boom" else OK
            else:
                return False
        elif not missing:
            expect = OK
        elif len(f["used"]) == 1:
            expect = PANIC                           # the only field it reads has no value
        else:
            return False
        if expect is PANIC and not self.catching():
            return False                             # would abort: only emitted deliberately (abort_case)
        self.emit("match", expect, fslot, cslot)
        return True

    def line(self, head="ffi-history"):
        return to_sexp((Sym(head),) + tuple(self.calls))


# ---------------------------------------------------------------- scenarios

def setup_scheme(h, slot=0, rich=False, fns=(), with_fail=True, lists=True):
    """create-builder, fields (with failing additions in between), lists, build"""
    rng = h.rng
    h.create_builder(fns)
    if rich:
        fields = list(FIELD_POOL)
    else:
        k = rng.choice([1, 2, 3, 4, 5])
        fields = rng.sample(SIMPLE_POOL, k)
        if fns and not any(t == "bytes" for _, t in fields):
            fields.append(("str", "bytes"))
    for n, t in fields:
        h.add_field(n.encode(), t)
        if with_fail and rng.random() < 0.25:
            r = rng.random()
            if r < 0.4:
                h.add_field(n.encode(), rng.choice(TYPES))          # duplicate
            elif r < 0.7:
                h.add_field(rng.choice(NON_UTF8), t)                # to_str! failure
            elif fns and r < 0.85:
                h.add_field(fns[0][0].encode(), t)                  # clashes with a function
            else:
                h.add_field(b"nul\0name", t)                        # fine the first time, a duplicate later
                h.add_field(b"nul\0name", t)
    if lists:
        for t in rng.sample(["int", "bytes", "ip"], rng.choice([0, 1, 2, 3])):
            h.add_list(t, rng.random() < 0.5)
            if with_fail and rng.random() < 0.3:
                h.add_list(t, rng.random() < 0.5)
    h.build(slot)


def gen_walk(rng, n):
    """a random walk of about n calls over everything that is possible in the current state"""
    h = H(rng)
    guard = 0
    while len(h.calls) < n and not h.dead and guard < 200:
        guard += 1
        acts = [h.get_le, h.clear_le, h.enable, h.set_hook, h.version, h.make_type,
                lambda: h.set_fallback(rng.random() < 0.4)]
        if h.enabled and not h.filters and not h.asts:
            acts.append(h.disable)
        if h.builder is None and len(h.schemes) < 2:
            acts += [lambda: h.create_builder(rng.choice([(), (), LIB_FNS, PANIC_FNS]))] * 4
        if h.builder is not None:
            b = h.builder
            acts += [lambda: h.add_field(rng.choice(SIMPLE_POOL)[0].encode(), rng.choice(SIMPLE_POOL)[1])] * 3
            acts += [lambda: h.add_field(rng.choice(NON_UTF8 + [b"a\0b", b""]), rng.choice(TYPES))]
            acts += [lambda: h.add_list(rng.choice(["int", "bytes", "ip", arr("int")]), rng.random() < 0.5)] * 2
            free = [s for s in (0, 1) if s not in h.schemes]
            if b["fields"] and free:
                acts += [lambda: h.build(free[0])] * 3
            acts += [h.free_builder]
        for s in list(h.schemes):
            acts += [lambda s=s: h.parse_good(s, rng.randrange(3), fancy=False),
                     lambda s=s: h.parse_bad(s, rng.randrange(3)),
                     lambda s=s: h.create_ctx(s, rng.randrange(2)),
                     lambda s=s: h.ser_scheme(s)]
            if rng.random() < 0.15:
                acts += [lambda s=s: h.free_scheme(s)]
        for a in list(h.asts):
            acts += [lambda a=a: h.ast_query(a), lambda a=a: h.ast_query(a),
                     lambda a=a: h.compile(a, rng.randrange(2)) if h.asts[a]["special"] is None else None]
            acts += [lambda a=a: h.free_ast(a)]
        for c in list(h.ctxs):
            acts += [lambda c=c: h.add_value(c)] * 3
            acts += [lambda c=c: h.add_json(c), lambda c=c: h.ser_ctx(c), lambda c=c: h.deser_bad(c),
                     lambda c=c: h.fill_ctx(c), lambda c=c: h.free_ctx(c)]
        for f in list(h.filters):
            acts += [lambda f=f: h.free_filter(f)]
            for c in list(h.ctxs):
                if h.enabled:
                    acts += [lambda f=f, c=c: h.match(f, c)] * 4
        rng.choice(acts)()
    return h


def gen_pipeline(rng, rich):
    """scheme -> parse -> hash/json/uses -> compile -> context -> match, with failing calls in between"""
    h = H(rng)
    setup_scheme(h, 0, rich=rich, fns=LIB_FNS if rich or rng.random() < 0.5 else ())
    if rng.random() < 0.3:
        h.ser_scheme(0)
    h.enable()
    nfilters = rng.choice([1, 1, 2])
    for k in range(nfilters):
        if rng.random() < 0.4:
            h.parse_bad(0, k)
            if rng.random() < 0.5:
                h.get_le()
        if not h.parse_good(0, k):
            return h
        for _ in range(rng.choice([0, 1, 2, 3])):
            h.ast_query(k)
        if rng.random() < 0.2:
            h.clear_le()
        h.compile(k, k)
    h.create_ctx(0, 0)
    for _ in range(rng.choice([1, 2, 3])):
        r = rng.random()
        if r < 0.25:
            h.add_value(0)
        elif r < 0.4:
            h.add_json(0)
        elif r < 0.5:
            h.deser_bad(0)
        h.fill_ctx(0)
        if rng.random() < 0.3:
            # overwrite a primitive field through its typed function
            prim = [(n, t) for n, t in h.ctxs[0]["scheme"]["fields"] if isinstance(t, str)]
            if prim:
                h.set_value(0, *rng.choice(prim))
        for k in range(nfilters):
            h.match(k, 0)
        if rng.random() < 0.3:
            h.ser_ctx(0)
    if rng.random() < 0.3:
        # a second, structurally identical scheme: its contexts do not fit the first one's filters
        h.create_builder(())
        for n, t in h.schemes[0]["fields"][:3]:
            h.add_field(n.encode(), t)
        h.build(1)
        h.create_ctx(1, 1)
        h.match(0, 1)
        h.get_le()
    if rng.random() < 0.5:
        # give things back in any order; what is left keeps working (contexts, ASTs and filters hold the scheme)
        frees = [lambda: h.free_scheme(0), lambda: h.free_ctx(0)] + [lambda k=k: h.free_filter(k) for k in h.filters]
        rng.shuffle(frees)
        for f in frees[:rng.randrange(1, len(frees) + 1)]:
            f()
        if 0 in h.ctxs:
            h.ser_ctx(0)
            h.add_value(0)
            for k in list(h.filters):
                h.match(k, 0)
        if 0 in h.schemes:
            h.parse_bad(0, 3)
            if h.parse_good(0, 3):
                h.ast_query(3)
                h.free_ast(3)
    return h


def gen_panic(rng):
    """panics inside parse / compile / match, catcher enabled (panic status) or not (the model says
    abort; the harness does not execute that call)"""
    h = H(rng)
    setup_scheme(h, 0, rich=False, fns=PANIC_FNS, with_fail=rng.random() < 0.3, lists=False)
    caught = rng.random() < 0.8
    where = rng.choice(["parse", "compile", "match", "match", "mandatory"])
    if rng.random() < 0.3:
        h.parse_bad(0, 2)
    if caught:
        h.enable()
    elif rng.random() < 0.5:
        h.enable()
        h.disable()
    if where == "parse":
        h.parse_special(0, 0, "boom_parse")
    elif where == "compile":
        h.parse_special(0, 0, "boom_compile")
        h.compile(0, 0)
    elif where == "match":
        h.parse_special(0, 0, "boom")
        h.compile(0, 0)
        h.create_ctx(0, 0)
        f = h.bytes_field(h.schemes[0])
        h.set_value(0, f, "bytes", "add-bytes", rng.choice([b"boom", b"boom", b"fine"]))
        if caught or h.ctxs[0]["vals"][f] != b"boom":
            h.match(0, 0)
        else:
            h.emit("match", PANIC, 0, 0)
            h.dead = True
    else:
        s = h.schemes[0]
        n, t = rng.choice([(n, t) for n, t in s["fields"] if simple_cmp(n, t)])
        h.parse_text(0, 0, simple_cmp(n, t).encode(), OK, used={n})
        h.compile(0, 0)
        h.create_ctx(0, 0)
        if caught:
            h.match(0, 0)
        else:
            h.emit("match", PANIC, 0, 0)
            h.dead = True
    was_dead = h.dead
    h.dead = False
    # whatever follows an abort is not run; otherwise the message stays until replaced or cleared
    h.get_le()
    if rng.random() < 0.5:
        h.version()
    if rng.random() < 0.5:
        h.clear_le()
        h.get_le()
    h.dead = was_dead
    return h


def gen_nohook(rng):
    """a panic history in a process in which the panic catcher's hook has not been installed (the harness runs it
    in a child process); in half of them the history installs it itself at a random point"""
    h = gen_panic(rng)
    if rng.random() < 0.5:
        h.calls.insert(rng.randrange(len(h.calls) + 1), (Sym("set-hook"), OK))
    return h.line("ffi-history-nohook")


def gen_replace(rng):
    """sequences about replacement and clearing: failures of different functions in a row, successes and
    get_last_error in between, clear, then failures again"""
    h = H(rng)
    setup_scheme(h, 0, rich=False, fns=(), with_fail=False, lists=False)
    h.create_ctx(0, 0)
    n = rng.randrange(3, 10)
    for _ in range(n):
        r = rng.random()
        if r < 0.25:
            h.parse_bad(0, 0)
        elif r < 0.45:
            h.add_value(0)
        elif r < 0.55:
            h.add_json(0)
        elif r < 0.62:
            h.deser_bad(0)
        elif r < 0.7:
            h.set_fallback(False)
        elif r < 0.8:
            h.get_le()
        elif r < 0.9:
            h.clear_le()
        else:
            h.parse_good(0, 1, fancy=False)
    h.get_le()
    return h


def gen_two(rng):
    def one():
        r = rng.random()
        if r < 0.5:
            h = gen_replace(rng)
        elif r < 0.8:
            h = gen_walk(rng, rng.randrange(2, 9))
        else:
            h = gen_panic(rng)
            while h.dead:            # an abort would take the other thread with it
                h = gen_panic(rng)
        return h
    a, b = one(), one()
    sched = [0] * len(a.calls) + [1] * len(b.calls)
    rng.shuffle(sched)
    if rng.random() < 0.2:
        sched = sched[:rng.randrange(len(sched) + 1)]
    return to_sexp((Sym("ffi-2threads"), tuple(a.calls), tuple(b.calls), tuple(sched))), a, b


def gen_cstring(rng):
    ops = []
    for _ in range(rng.randrange(1, 9)):
        r = rng.random()
        if r < 0.5:
            n = rng.choice([0, 1, 1, 2, 3, 5, 9])
            ops.append((Sym("append"), bytes(rng.choice([0, 0, 0x1a, 65, 66, 0xff, 0x80, rng.randrange(256)])
                                             for _ in range(n))))
        elif r < 0.7:
            ops.append(Sym("clear"))
        else:
            frags = []
            for _ in range(rng.choice([0, 1, 2, 3, 4])):
                frags.append(rng.choice(["", "", "a", "\0", "x\0y", "é", "\0\0", "msg: ", "\x1a"]).encode())
            ops.append((Sym("write-error"),) + tuple(frags))
    return to_sexp((Sym("cstring-history"),) + tuple(ops))


def directed():
    """the situations named in the property text, one each (also kept in corpus/C20)"""
    out = []
    rng = __import__("random").Random(20)
    for where in range(12):
        out.append(gen_panic(rng).line())
    return out


def gen(rng, tier):
    out = []
    scale = 1 if tier == "quick" else 12
    out += directed()
    for _ in range(900 * scale):
        out.append(gen_walk(rng, rng.randrange(1, 13)).line())
    for _ in range(450 * scale):
        out.append(gen_replace(rng).line())
    for _ in range(300 * scale):
        out.append(gen_pipeline(rng, rich=False).line())
    for _ in range(250 * scale):
        out.append(gen_pipeline(rng, rich=True).line())
    for _ in range(200 * scale):
        out.append(gen_panic(rng).line())
    for _ in range(60 * scale):
        out.append(gen_nohook(rng))
    for _ in range(500 * scale):
        out.append(gen_two(rng)[0])
    for _ in range(800 * scale):
        out.append(gen_cstring(rng))
    rng.shuffle(out)
    return out


# ---------------------------------------------------------------- classification (known finding F8)

def _threads(line, out):
    """[(calls, observations)] per thread, or None"""
    try:
        c = vp.parse_sexp(line)
        o = vp.parse_sexp(out)
    except Exception:
        return None
    if c[0] in ("ffi-history", "ffi-history-nohook") and o and o[0] == "obs":
        return [(c[1:], o[1:])]
    if c[0] == "ffi-2threads" and o and o[0] == "two" and len(o) == 3:
        return [(c[1], o[1][1:]), (c[2], o[2][1:])]
    return None


def _f8_failure(call):
    e = call[1]
    return str(call[0]) in F8_FNS and isinstance(e, list) and len(e) == 3 and e[0] == "fail" and e[1] == "eng"


def _le_as_f8(a, b, c, calls):
    """impl's last-error observation a, against the intended one b and the as-coded one c.
    The harness names the MOST RECENT call whose Rust-API text equals the buffer.  With F8 the buffer is
    the text of the last call that really wrote (c names it: call w); it is reported as w, or as a later
    `.is_ok()` failure m (w < m <= k, k = the call b names) that wrote nothing but whose own text happens
    to be the same (e.g. two "unknown field" in a row)."""
    if a == b or a == c:
        return True
    if all(isinstance(x, list) and len(x) == 3 and x[0] == "msg" and isinstance(x[1], int) for x in (a, b, c)):
        m, k, w = a[1], b[1], c[1]
        return w < m < k and a[2] == c[2] and m < len(calls) and _f8_failure(calls[m])
    return False


def classify(line, rec):
    """F8 only.  The implementation's answer is compared, call by call, with the Coq model of the intended
    protocol (the case's model answer) and with the Coq model of the code AS IT STANDS (Sem/FfiProto.v with
    coded = true, which differs from the intended one only in that a failing `.is_ok()` wrapper keeps the
    last error: theorem C20_as_coded_differs_only_at_is_ok_failures).  The tag is returned only if
      * every observation has the result and the Rust-API comparison of the models (they agree on both
        everywhere) and a last-error field that is the intended one, the as-coded one, or names an
        `.is_ok()` failure in between with the same text (see _le_as_f8),
      * in every thread the first difference is at a failing call (failure in the engine, not in to_str!)
        of one of the `.is_ok()` functions, which returned false as the model says, and whose last-error
        observation is the one of the previous call (NULL or unchanged) instead of the call's own message,
      * and there is such a difference.
    Anything else (another result, a `differs`, an ill-formed buffer, a message nobody expects, a missing
    message of another function, a message that survives a clear) is not F8."""
    head = vp.head_of(line)
    if head not in ("ffi-history", "ffi-history-nohook", "ffi-2threads"):
        return None
    if rec.get("spec") is not None and rec["spec"] != rec["model"]:
        return None
    impls = set(rec["impl"].values())
    if len(impls) != 1:
        return None
    impl = impls.pop()
    if impl == rec["model"]:
        return None
    coded = vp.run_model([line.replace("(" + head, "(" + head + "-coded", 1)], shards=1)[0]
    ti, tm, tc = _threads(line, impl), _threads(line, rec["model"]), _threads(line, coded)
    if ti is None or tm is None or tc is None or not (len(ti) == len(tm) == len(tc)):
        return None
    seen = False
    for (calls, oi), (_, om), (_, oc) in zip(ti, tm, tc):
        if not (len(oi) == len(om) == len(oc) == len(calls)):
            return None
        first = True
        prev_le = Sym("null")
        for k, (call, a, b, c) in enumerate(zip(calls, oi, om, oc)):
            if a != b:
                if not all(isinstance(x, list) and len(x) == 3 for x in (a, b, c)):
                    return None
                if a[0] != b[0] or a[2] != b[2]:
                    return None                      # a result or the Rust comparison differs: not F8
                if not _le_as_f8(a[1], b[1], c[1], calls):
                    return None                      # neither intended nor what F8 explains
                if first:
                    if not (_f8_failure(call) and a[0] == "false" and b[1][:2] == ["msg", k] and a[1] == prev_le):
                        return None
                    first = False
                    seen = True
            if isinstance(a, list) and len(a) == 3:
                prev_le = a[1]
    return F8_TAG if seen else None


# ---------------------------------------------------------------- evidence

def nontrivial(line):
    if line.startswith("(cstring-history"):
        return "(append #" in line or "(write-error #" in line
    return "(fail " in line or " panic" in line


def distribution(lines):
    d = {"single": 0, "two_threads": 0, "cstring": 0, "calls": 0, "failing_calls": 0, "fail_to_str": 0,
         "fail_nul_message": 0, "panicking_calls": 0, "with_clear": 0, "with_match": 0, "f8_calls": 0}
    length = {}
    fns = {}
    for l in lines:
        if l.startswith("(cstring-history"):
            d["cstring"] += 1
            continue
        d["single" if l.startswith("(ffi-history") else "two_threads"] += 1
        d["failing_calls"] += l.count("(fail ")
        d["fail_to_str"] += l.count("(fail str")
        d["fail_nul_message"] += l.count(" nul)")
        d["panicking_calls"] += l.count(" panic ")
        d["with_clear"] += "(clear-last-error" in l
        d["with_match"] += "(match " in l
        try:
            c = vp.parse_sexp(l)
        except Exception:
            continue
        hs = [c[1:]] if c[0] in ("ffi-history", "ffi-history-nohook") else [c[1], c[2]]
        for h in hs:
            d["calls"] += len(h)
            if c[0] in ("ffi-history", "ffi-history-nohook"):
                length[len(h)] = length.get(len(h), 0) + 1
            for call in h:
                n = str(call[0])
                fns[n] = fns.get(n, 0) + 1
                if n in F8_FNS and isinstance(call[1], list) and call[1][1] == "eng":
                    d["f8_calls"] += 1
    d["history_length"] = {str(k): v for k, v in sorted(length.items())}
    d["calls_per_function"] = dict(sorted(fns.items()))
    return d


PROP = {
    "id": "C20",
    "prop_file": "theories/Props/C20.v",
    "proof_files": ["theories/Proofs/FfiProofs.v"],
    "gen": gen,
    "classify": classify,
    "nontrivial": nontrivial,
    "distribution": distribution,
    "vm_sample": (120, 800),
    "shrink_budget": 0,   # dropping calls would invalidate the predicted outcomes of the calls that follow
    "rule": "call histories over the whole exported surface (scheme builder incl. every type constructor, lists, build, "
            "parse, hash, JSON, uses / uses_list, compile, contexts with every typed add_*_value, add_json_value, "
            "serialize / deserialize, match, get / clear last error, panic catcher switches, version), each call made "
            "on the real C API (as Rust functions from the rlib) and, on the same input, through the Rust API; the "
            "generator tracks the objects it creates and predicts ok / failure (in to_str! or in the engine; whether "
            "the Rust message contains a NUL) / panic for every call.  Random walks of 1..12 calls over all calls "
            "possible in the current state; replacement/clearing sequences (failures of different functions in a row, "
            "successes, get, clear); full pipelines on small and on the 22-field rich scheme with langgen's typed "
            "filters (all features) and complete contexts, ill-formed filters (NUL before/after, non-UTF-8, unknown "
            "names, type errors, garbage), a second structurally identical scheme for the mismatch error; panics "
            "inside parse (a function whose check_param panics), compile (whose compile panics) and match (`boom`, a "
            "mandatory field without value) with the catcher enabled, and disabled (model: abort; not executed); "
            "two real threads in lock-step under a random schedule, each with its own objects; the CString driven "
            "directly (append of arbitrary bytes, clear, write_last_error! with fragments).  Observed per call: the "
            "result, the whole last-error vector (NULL / NUL-terminated / no interior NUL / what the pointer shows) "
            "and which failing call's Rust-API text it is, and `same` when the C result equals the Rust result "
            "(AST equality, JSON text, FNV-1a of the Rust JSON, uses, match, context JSON after every mutation).  "
            "Non-trivial = a history with a failing or panicking call, a cstring case with an append.",
    "assumptions": [
        "the success / failure / panic of each engine call is the generator's prediction (the model abstracts calls "
        "to outcomes); a wrong prediction shows as a disagreement, never as a silent pass",
        "a panic that nothing would catch is not executed by the harness (it would abort the process at the "
        "extern \"C\" boundary); the model's answer `abort` is compared with the harness's refusal",
        "the panic hook is installed once per process before the first case (as for C19); fallback mode Abort is "
        "not exercised",
        "real threads, thread_local!, catch_unwind and the Debug view of the CString vector are trusted",
    ],
}
