"""C18 — compiled filters are deterministic and safe to execute concurrently: generators and wiring.

Case: (threads scheme (filters (#text ast)...) (ctxs ctx...) T R mode), see harness/src/c18.rs and
coq/theories/Run/C18.v.  Every case carries a SET of filters that contains, at least, a regex
(`matches`), a wildcard and a strict wildcard, `contains` with needles long enough for the AVX2
searcher (2..40 bytes, haystacks up to ~200 bytes), `in $list` (int and bytes set lists, the
always-list for ip), map-each `[*]` under any()/all(), and calls of concat / lower / len (plain and
mapped over `[*]`), plus random filters of the language generator.  The fresh-process races are
driven from `post` (harness mode --c18-fresh)."""
import os
import subprocess
from concurrent.futures import ThreadPoolExecutor

import langgen as lg
import vp
from vp import to_sexp

THREADS = [2, 4, 16, 64]
MODES = ["shared", "clone", "distinct"]

# regexes inside the subset of the model (Sem/Matchers.v regex_parse), written as raw strings
REGEXES = [b"ab+c", b"^GET ", b"[0-9]+", b"(foo|bar)baz", b"a.c", b"x*yz", b"\\d\\d-\\d", b"[a-f0-9][a-f0-9]$",
           b"(ab)*c", b"hello|world", b"[^a-z]", b"\\w+@\\w+", b"needle", b"a?b?c?d", b"^$", b"[A-Z][a-z]+ [A-Z]",
           b"/api/v[0-9]/", b"\\.php$", b"(a|b|c)(d|e)f", b"colou?r"]
WILDCARDS = [b"*", b"a*", b"*a", b"*needle*", b"GET /*/index.*", b"hel*o w*d", b"*.php", b"A*b*C", b"\\*lit\\*", b"ab",
             b"*a*b*c*", b"Hello*", b"/api/v?/*", b"x\\\\y*"]
NEEDLES = [b"ab", b"lo", b"abc", b"need", b"needle", b"GET /api", b"0123456789abcde", b"0123456789abcdef",
           b"0123456789abcdefg", b"the quick brown fox jumps over th", b"the quick brown fox jumps over the",
           b"Lorem ipsum dolor sit amet, consectetur ", b"\xff\xfe", b"\x00\x00", b"aaaaaaab", b"/v2/", b".php"]
VOCAB = [b"a", b"b", b"ab", b"abc", b"abbbc", b"foo", b"bar", b"baz", b"foobaz", b"barbaz", b"hello", b"world", b" ",
         b"GET ", b"GET /api/v2/index.php", b"/api/v1/", b"needle", b"need", b"x", b"yz", b"xxyz", b"12-3", b"af", b"0f",
         b"Hello World", b"colour", b"color", b"a@b", b"user@host", b"d", b"cd", b"0123456789abcde", b"f", b"g",
         b"the quick brown fox jumps over th", b"e", b"Lorem ipsum dolor sit amet, consectetur ", b"\xff\xfe", b"\x00",
         b"aaaaaaa", b"aaaaaaab", b"*lit*", b"A-b-C", b"x\\y", b"\n", b"Z"]


def hay(rng, maxlen=200):
    # a few values beyond any plausible size threshold of a shortcut (256 bytes and more)
    n = rng.choice([0, 1, 3, 8, 20, 40, 70, 120, maxlen, maxlen, 256, 300, 520])
    out = bytearray()
    while len(out) < n:
        out += rng.choice(VOCAB)
    if rng.random() < 0.3 and out:
        out = out[:rng.randrange(len(out) + 1)]
    return bytes(out)


# ---------------------------------------------------------------- rendering (adds matches / wildcard to langgen's)

def raw_lit(b, n=0):
    return "r" + "#" * n + '"' + b.decode("utf-8") + '"' + "#" * n


def render_cmp(sch, lhs, op, lay):
    if isinstance(op, tuple) and op[0] == "matches":
        l = lg.render_iexpr(sch, lhs, lay)
        o = lay.alias("matches")
        sep = lay.sp() if lg.is_word(o) else lay.osp()
        return l + sep + o + sep + raw_lit(op[1], op[2][1])
    if isinstance(op, tuple) and op[0] == "wildcard":
        l = lg.render_iexpr(sch, lhs, lay)
        kw = "strict wildcard" if op[1] else "wildcard"
        return l + lay.sp() + kw + lay.sp() + raw_lit(op[2], op[3][1])
    return lg.render_cmp(sch, lhs, op, lay)


def render(sch, e, lay):
    k = e[0]
    if k == "comb":
        parts = [render(sch, x, lay) for x in e[2:]]
        out = parts[0]
        for p in parts[1:]:
            a = lay.alias(e[1])
            out += (lay.sp() + a + lay.sp() if lg.is_word(a) else lay.osp() + a + lay.osp()) + p
        return out
    if k == "cmp":
        return render_cmp(sch, e[1], e[2], lay)
    if k == "paren":
        return "(" + lay.osp() + render(sch, e[1], lay) + lay.osp() + ")"
    if k == "not":
        a = lay.alias("not")
        return a + (lay.sp() if lg.is_word(a) else lay.osp()) + render(sch, e[1], lay)
    if k == "ql":
        return e[1] + lay.osp() + "(" + lay.osp() + render(sch, e[2], lay) + lay.osp() + ")"
    return lg.render_lexpr(sch, e, lay)


# ---------------------------------------------------------------- the filter set of a case

def fi(sch, name):
    return sch.field_index(name)


def fn(sch, name):
    return sch.fn_index(name)


def bytes_source(rng, sch):
    """an index expression of type Bytes: (iexpr, mapped?)"""
    r = rng.random()
    if r < 0.3:
        return ("field", fi(sch, "str")), False
    if r < 0.4:
        return ("field", fi(sch, "ostr")), False
    if r < 0.5:
        return ("field", fi(sch, "hdr"), ("k", rng.choice([b"host", b"a", b"k1"]))), False
    if r < 0.6:
        return ("call", fn(sch, "lower"), (("ai", ("field", fi(sch, "str"))),)), False
    if r < 0.7:
        return ("call", fn(sch, "concat"), (("ai", ("field", fi(sch, "str"))), ("lit", ("s", b"/v2/x.php")))), False
    if r < 0.8:
        return ("field", fi(sch, "strs"), "each"), True
    if r < 0.9:
        return ("field", fi(sch, "hdrs"), "each", "each"), True
    return ("call", fn(sch, "lower"), (("ai", ("field", fi(sch, "strs"), "each")),), "each"), True


def wrap(rng, src, op):
    ie, mapped = src
    c = ("cmp", ie, op)
    return ("ql", rng.choice(["any", "all"]), c) if mapped else c


def ctx_strings(sch, ctxs):
    """byte strings that occur in the contexts (field str and the elements of strs)"""
    out = []
    for c in ctxs:
        vals = c[1][1:]
        v = vals[fi(sch, "str")]
        if v is not None:
            out.append(v[1])
        v = vals[fi(sch, "strs")]
        if v is not None:
            out.extend(x[1] for x in v[2:])
    return out or [b"a"]


def directed(rng, sch, ctxs):
    """one filter of every kind the property names"""
    out = []
    seen = ctx_strings(sch, ctxs)
    rx = rng.sample(REGEXES, 3)
    out.append(wrap(rng, (("field", fi(sch, "str")), False), ("matches", rx[0], ("raw", 0))))
    out.append(wrap(rng, bytes_source(rng, sch), ("matches", rx[1], ("raw", rng.choice([0, 1])))))
    out.append(wrap(rng, (("field", fi(sch, "strs"), "each"), True), ("matches", rx[2], ("raw", 0))))
    wc = rng.sample(WILDCARDS, 2)
    out.append(wrap(rng, bytes_source(rng, sch), ("wildcard", False, wc[0], ("raw", 0))))
    out.append(wrap(rng, bytes_source(rng, sch), ("wildcard", True, wc[1], ("raw", 0))))
    nd = rng.sample(NEEDLES, 3)
    out.append(wrap(rng, (("field", fi(sch, "str")), False), ("contains", nd[0])))
    out.append(wrap(rng, bytes_source(rng, sch), ("contains", nd[1])))
    out.append(wrap(rng, (("field", fi(sch, "hdr"), "each"), True), ("contains", nd[2])))
    out.append(("cmp", ("field", fi(sch, "num")), ("inlist", 0, rng.choice([b"l1", b"l2.x", b"empty_1", b"nope"]))))
    out.append(wrap(rng, bytes_source(rng, sch), ("inlist", 1, rng.choice([b"l1", b"l2.x"]))))
    out.append(("cmp", ("field", fi(sch, "ip.src")), ("inlist", 2, b"any")))
    out.append(wrap(rng, bytes_source(rng, sch), ("in-bytes", tuple(rng.sample(VOCAB, 3) + [rng.choice(seen), rng.choice(seen)]))))
    out.append(("ql", "any", ("cmp", ("field", fi(sch, "nums"), "each"), ("inlist", 0, b"l1"))))
    out.append(("ql", rng.choice(["any", "all"]),
                ("cmp", ("field", fi(sch, "cube"), "each", "each", "each"),
                 ("in-int", ((0, 7), (255, 256))))))
    out.append(("cmp", ("call", fn(sch, "len"), (("ai", ("field", fi(sch, "str"))),)),
                ("ord", rng.choice(["gt", "le", "eq"]), ("i", rng.choice([0, 3, 20, 70])))))
    out.append(("cmp", ("call", fn(sch, "concat"),
                        (("ai", ("field", fi(sch, "str"))), ("ai", ("field", fi(sch, "ostr"))), ("lit", ("s", b"!")))),
                ("contains", rng.choice(NEEDLES))))
    out.append(("ql", "any", ("cmp", ("call", fn(sch, "len"), (("ai", ("field", fi(sch, "strs"), "each")),), "each"),
                              ("ord", "ge", ("i", rng.choice([1, 5, 30]))))))
    a, b = rng.sample(out[:8], 2)
    out.append(("comb", rng.choice(["and", "or", "xor"]), a, ("not", b)))
    return out


def gen_ctx(rng, sch, force_str=None):
    c = lg.gen_ctx(rng, sch, p_absent=rng.choice([0.0, 0.2, 0.5]))
    vals = list(c[1][1:])

    def put(name, v):
        vals[fi(sch, name)] = v
    put("str", ("s", force_str if force_str is not None else hay(rng)))
    if rng.random() < 0.7:
        put("ostr", ("s", hay(rng, 60)))
    put("strs", ("arr", "bytes") + tuple(("s", hay(rng, 90)) for _ in range(rng.choice([0, 1, 2, 5]))))
    if rng.random() < 0.8:
        keys = sorted(set(rng.choice(lg.KEY_POOL) for _ in range(rng.choice([0, 1, 3]))))
        put("hdr", ("map", "bytes") + tuple((k, ("s", hay(rng, 90))) for k in keys))
    if rng.random() < 0.6:
        keys = sorted(set(rng.choice(lg.KEY_POOL) for _ in range(rng.choice([1, 2]))))
        put("hdrs", ("map", ("array", "bytes")) +
            tuple((k, ("arr", "bytes") + tuple(("s", hay(rng, 50)) for _ in range(rng.choice([0, 1, 3])))) for k in keys))
    ms = []
    for t, k in sch.lists:
        if k != "set":
            ms.append(k)
        elif t == "bytes":
            ms.append(("set", (b"l1",) + tuple(("s", rng.choice(VOCAB)) for _ in range(3)),
                       (b"l2.x",) + tuple(("s", hay(rng, 20)) for _ in range(2)) + (vals[fi(sch, "str")],), (b"empty_1",)))
        else:
            ms.append(lg.gen_matchers(rng, lg.Scheme([], [], [(t, k)]))[0])
    return lg.make_ctx(sch, vals, ms)


def make_case(rng, t, r, mode, nrandom=3, nctx=4):
    sch = lg.rich_scheme(nil_ne=rng.random() < 0.5)
    g = lg.Gen(rng, sch, features=("index", "each", "quant", "oneof", "call", "vec", "mapbool", "inlist"), max_depth=3)
    # the second context's `str` has the length of the first one's and a different tail: the buffer-reuse phase of
    # the harness then executes the long-lived filters on two inputs with the same address and length
    c0 = gen_ctx(rng, sch)
    s0 = c0[1][1:][fi(sch, "str")][1]
    s1 = (s0[:-3] + b"zq!") if len(s0) >= 3 else bytes(reversed(s0 + b"q"))[:len(s0)]
    if s1 == s0:
        s1 = bytes((b ^ 1) for b in s0)
    ctxs = (c0, gen_ctx(rng, sch, force_str=s1)) + tuple(gen_ctx(rng, sch) for _ in range(max(0, nctx - 2)))
    asts = directed(rng, sch, ctxs) + [g.gen_filter() for _ in range(nrandom)]
    lay = lg.Layout(rng)
    filters = tuple((render(sch, a, lay).encode(), a) for a in asts)
    return to_sexp(("threads", sch.sexp(), ("filters",) + filters, ("ctxs",) + ctxs, t, r, mode))


def gen(rng, tier):
    out = []
    if tier == "quick":
        per, reps = 3, 200
    else:
        per, reps = 12, 600
    for t in THREADS:
        for mode in MODES:
            for k in range(per):
                r = reps if t <= 16 else max(4, reps // 3)  # 64 threads on 16 cores
                out.append(make_case(rng, t, r, mode, nrandom=3 if tier == "quick" else 5,
                                     nctx=4 if tier == "quick" else 6))
    return out


def nontrivial(line):
    return all(w in line for w in ("(matches ", "(wildcard ", "(contains ", "(inlist ", " each", "(call "))


def distribution(lines):
    d = {"cases": len(lines), "by_threads": {}, "by_mode": {}, "filters": 0, "contexts": 0,
         "matches": 0, "wildcard": 0, "strict_wildcard": 0, "contains": 0, "contains_needle_ge_17": 0,
         "inlist": 0, "each": 0, "calls": 0, "quantifiers": 0}
    for l in lines:
        c = vp.parse_sexp(l)
        t, mode = str(c[4]), str(c[6])
        d["by_threads"][t] = d["by_threads"].get(t, 0) + 1
        d["by_mode"][mode] = d["by_mode"].get(mode, 0) + 1
        d["filters"] += len(c[2]) - 1
        d["contexts"] += len(c[3]) - 1
        d["matches"] += l.count("(matches ")
        d["wildcard"] += l.count("(wildcard false")
        d["strict_wildcard"] += l.count("(wildcard true")
        d["contains"] += l.count("(contains ")
        d["inlist"] += l.count("(inlist ")
        d["each"] += l.count(" each")
        d["calls"] += l.count("(call ")
        d["quantifiers"] += l.count("(ql ") + l.count("(qi ")
        i = 0
        while True:
            i = l.find("(contains #", i)
            if i < 0:
                break
            j = i + len("(contains #")
            k = j
            while k < len(l) and l[k] in "0123456789abcdef":
                k += 1
            if (k - j) // 2 >= 17:
                d["contains_needle_ge_17"] += 1
            i = k
    return d


# ---------------------------------------------------------------- fresh-process races, sanitizer run

def fresh_races(ctx):
    """N fresh harness processes per T in {2,4,16,64}: the first use of the engine's lazily initialised globals,
    of every regex pool and of the thread-local RNG happens on T threads at once (no warm-up).  The answer must
    be the model's answer for the same case."""
    tier = ctx["tier"]
    # T = 16 and 64 cost seconds per process on a busy 16-core machine (46 spin barriers each)
    n_per_t = {2: 24, 4: 24, 16: 12, 64: 8} if tier == "quick" else {2: 200, 4: 200, 16: 120, 64: 80}
    lines, model = ctx["lines"], ctx["model"]
    rng = ctx["rng"]
    exe = vp.harness_bin(False)
    jobs = []
    for t in THREADS:
        for k in range(n_per_t[t]):
            i = rng.randrange(len(lines))
            jobs.append((t, i))

    def one(job):
        t, i = job
        try:
            p = subprocess.run([exe, "--c18-fresh", str(t)], input=(lines[i] + "\n").encode(),
                               stdout=subprocess.PIPE, stderr=subprocess.DEVNULL, timeout=300)
            return p.stdout.decode("utf-8", "replace").strip() or "(crash %d)" % p.returncode
        except Exception as ex:
            return "(error %r)" % (ex,)
    with ThreadPoolExecutor(max_workers=4) as ex:
        outs = list(ex.map(one, jobs))
    bad = [(jobs[k], outs[k]) for k in range(len(jobs)) if outs[k] != model[jobs[k][1]]]
    cov = {"fresh_process_runs": len(jobs), "fresh_per_thread_count": {str(t): n_per_t[t] for t in THREADS},
           "fresh_disagreements": len(bad)}
    viol = []
    for (t, i), out in bad[:3]:
        rec = {"property": "C18", "case": lines[i], "threads": t, "impl_fresh": out, "model": model[i],
               "verdict": "fresh process: the first use of the engine raced by %d threads gave an answer that differs "
                          "from the sequential results" % t,
               "rerun": "echo '<case>' | harness/target/debug/wfh --c18-fresh %d" % t}
        viol.append(("fresh-race", vp.write_replay("C18", rec), ""))
    return cov, viol


def tsan_extra(ctx):
    """thorough only, supporting evidence: the harness built with ThreadSanitizer (nightly, -Zbuild-std) runs a few
    cases; data-race reports are recorded.  Never changes the verdict when the build is impossible offline."""
    if ctx["tier"] != "thorough" or os.environ.get("VERIF_C18_TSAN", "1") == "0":
        return {}
    tdir = os.path.join(vp.HARNESS, "target", "tsan")
    env = {"RUSTFLAGS": "--cfg wirefilter_verif -Zsanitizer=thread", "CARGO_TARGET_DIR": tdir,
           "RUSTUP_TOOLCHAIN": "nightly", "CARGO_NET_OFFLINE": "true"}
    rc, out = vp.sh(["cargo", "build", "--offline", "-q", "-Zbuild-std", "--target", "x86_64-unknown-linux-gnu"],
                    cwd=vp.HARNESS, timeout=1500, env=env)
    if rc != 0:
        return {"tsan": {"built": False, "log": out[-600:]}}
    exe = os.path.join(tdir, "x86_64-unknown-linux-gnu", "debug", "wfh")
    lines = [l for l in ctx["lines"] if " 16 " in l or " 4 " in l][:6] or ctx["lines"][:3]
    e = dict(os.environ)
    e["TSAN_OPTIONS"] = "halt_on_error=0 exitcode=0"
    reports = 0
    same = 0
    detail = ""
    for l in lines:
        try:
            p = subprocess.run([exe], input=(l + "\n").encode(), stdout=subprocess.PIPE, stderr=subprocess.PIPE,
                               env=e, timeout=900)
            err = p.stderr.decode("utf-8", "replace")
            reports += err.count("WARNING: ThreadSanitizer")
            if not detail and "WARNING: ThreadSanitizer" in err:
                detail = err[:1500]
            same += p.stdout.decode().strip().endswith("all-agree)")
        except Exception as ex:
            detail = detail or repr(ex)
    return {"tsan": {"built": True, "cases": len(lines), "all_agree": same, "reports": reports, "first_report": detail}}


def post(ctx):
    cov, viol = fresh_races(ctx)
    try:
        cov.update(tsan_extra(ctx))
    except Exception as ex:  # supporting evidence only
        cov["tsan"] = {"built": False, "log": repr(ex)}
    agree = sum(1 for o in ctx["impl"]["debug"] if o.endswith("all-agree)"))
    cov["concurrent_cases_all_agree"] = agree
    return {"coverage": cov, "violations": viol}


PROP = {
    "id": "C18",
    "prop_file": "theories/Props/C18.v",
    "proof_files": ["theories/Proofs/SharedProofs.v"],
    "gen": gen,
    "nontrivial": nontrivial,
    "distribution": distribution,
    "post": post,
    "vm_sample": (3, 16),
    "shrink_budget": 12,
    "exhaustive": False,
    "rule": "T in {2,4,16,64} x mode in {shared contexts, per-thread clones, per-thread distinct contexts} x 3 (quick) / "
            "12 (thorough) cases; a case is a scheme (22 fields incl. nested arrays/maps, 14 functions, int/bytes set "
            "lists + always-list), a set of 21 (quick) / 23 (thorough) filters = one of every kind named by the "
            "property (3 regexes incl. one under [*]; wildcard and strict wildcard; 3 `contains` with needles of 2-40 "
            "bytes on fields, map values, concat()/lower() results; `in $list` on int/bytes/ip incl. under [*], `in {...}` on bytes; "
            "map-each to depth 3 under any/all; len/concat/lower calls plain and mapped; a combination) + 3/5 random "
            "filters of the language generator, and 4/6 contexts whose strings are built from the needles' "
            "vocabulary (0-200 bytes).  The harness computes the sequential results single-threaded with a compile "
            "of its own, compiles every filter once more, shares them through an Arc, releases T threads by a "
            "Barrier; every thread executes every filter on its contexts R = 200 (quick; 66 for T=64) / 600 (200) "
            "times (sweep: threads start at different filters; hammer: all threads on one filter at a time), then "
            "recompiles every filter itself R/8 times; each single result is compared with the sequential one.  "
            "The model's answer is run_filter per (filter, context) plus `all-agree` computed by running the step "
            "machine of Sem/Shared.v (min(T,3) threads, every filter executed and recompiled on every context, "
            "round-robin and sequential schedule); the specification's is the denotation.  Fresh-process races: 24/24/12/8 "
            "(quick) / 200/200/120/80 (thorough) fresh processes for T = 2/4/16/64, the first round of compile / execute steps released step by step by a spin "
            "barrier so that each first use is contended, no warm-up, answer compared with the model's.  Non-trivial = the case has regex, wildcard, contains, "
            "list, map-each and call filters (all generated cases).",
    "assumptions": [
        "PARTIAL: thread interleavings of the machine code, data races, Send/Sync and the memory model are not "
        "modelled; the theorem covers every schedule of the model's atomic steps (look at a lazily initialised "
        "cell / publish / take a scratch and run / put it back) for engines whose hidden state satisfies "
        "engine_ok; the real regex-automata pool, memchr's function pointers and std_detect are only explored by "
        "the barrier-released threads and the fresh-process races",
        "the schedule actually taken by the OS cannot be chosen: a defect that needs a rare interleaving can be "
        "missed by a run (detection rates of the planted mutations are in the C18 report)",
        "user functions and list matchers are the harness fixtures (pure, Send + Sync)",
    ],
}
