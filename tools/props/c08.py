"""C08 — execution contexts are typed field maps bound to one scheme: generators and wiring.

Case kinds (see coq/theories/Run/C08.v, harness/src/c08.rs):
  (ctx-history <scheme> <op>...)      one observation per operation
  (build-array <ty> <value>...)       (ok <value>) | (err)
  (build-map <ty> (#key <value>)...)  (ok <value>) | (err)
Scheme handles: 0 = A, 1 = clone of A, 2 = B (independently built, structurally identical).
Slots 0..3; initially 0 = new(A), 1 = new(B)."""
import itertools

import langgen
from langgen import arr, mp
from vp import to_sexp

# ---------------------------------------------------------------- small scheme, exhaustive histories

SMALL = langgen.Scheme([("n", "int", True), ("a", arr(arr("int")), True)])

N_OK, N_OK2 = ("i", 7), ("i", 8)
N_BAD = [("s", b"\x07"),                      # wrong primitive
         ("arr", "int", ("i", 7))]            # a container where a primitive is declared
A_OK = ("arr", arr("int"), ("arr", "int", ("i", 1)))
A_OK2 = ("arr", arr("int"))                   # empty, right tag
A_BAD = [("arr", arr("bytes")),               # right container, wrong element type tag (empty: only the tag tells)
         ("arr", "int"),                      # right shape, one level too shallow
         ("arr", arr(arr("int"))),            # one level too deep
         ("map", arr("int"))]                 # wrong container, right element


def small_alphabet():
    al = []
    # set by field through the clone's FieldRef (same scheme identity): must behave as A's own
    for v in [N_OK] + N_BAD:
        al.append(("set", 0, 1, 0, v))
    for v in [A_OK] + A_BAD:
        al.append(("set", 0, 1, 1, v))
    al.append(("set", 0, 2, 0, N_OK))         # B's field on a context of A: scheme mismatch
    al.append(("set", 1, 2, 0, N_OK))         # B's field on B's context
    al.append(("set", 1, 0, 0, N_OK))         # A's field on B's context
    al.append(("set", 2, 0, 0, ("i", 9)))     # writes to the clone / moved context
    # set by name
    al.append(("setn", 0, b"n", N_OK2))
    al.append(("setn", 0, b"n", N_BAD[0]))
    al.append(("setn", 0, b"a", A_OK2))
    al.append(("setn", 0, b"a", A_BAD[0]))
    al.append(("setn", 0, b"zz", N_OK))
    # reads
    al += [("get", 0, 0, 0), ("get", 0, 0, 1), ("get", 2, 1, 0), ("get", 2, 0, 1), ("get", 0, 2, 0)]
    al += [("clear", 0), ("clone", 0, 2), ("clone", 2, 0), ("take", 0, 2), ("take", 2, 0),
           ("borrow", 0), ("end",), ("new", 2, 0)]
    al += [("exec", 0, 1), ("exec", 0, 2), ("exec", 2, 0)]
    return al


def history(sch_sexp, ops):
    return "(ctx-history " + sch_sexp + "".join(" " + o for o in ops) + ")"


def exhaustive_histories(maxlen, alphabet=None):
    al = [to_sexp(o) for o in (alphabet or small_alphabet())]
    s = to_sexp(SMALL.sexp())
    out = []
    for n in range(0, maxlen + 1):
        for ops in itertools.product(al, repeat=n):
            out.append(history(s, ops))
    return out


# ---------------------------------------------------------------- random histories over the rich scheme

def all_types(sch):
    ts = []
    for _, t, _ in sch.fields:
        if t not in ts:
            ts.append(t)
    return ts


def retag(rng, t):
    """A type of the same shape as t with another leaf, or one level deeper / shallower."""
    r = rng.random()
    if r < 0.4:
        def leaf(x):
            if isinstance(x, str):
                return rng.choice([p for p in langgen.PRIMS if p != x])
            return (x[0], leaf(x[1]))
        return leaf(t)
    if r < 0.6:
        return ("array", t) if rng.random() < 0.5 else ("map", t)
    if r < 0.8 and not isinstance(t, str):
        return t[1]
    if not isinstance(t, str):
        return ("map" if t[0] == "array" else "array", t[1])
    return ("array", t)


def offered_value(rng, sch, fty):
    r = rng.random()
    if r < 0.55:
        return langgen.gen_value(rng, fty)
    if r < 0.75:
        return langgen.gen_value(rng, rng.choice(all_types(sch)))
    t = retag(rng, fty)
    if rng.random() < 0.5 and not isinstance(t, str):
        return ("arr" if t[0] == "array" else "map", t[1])      # empty container: only the tag differs
    return langgen.gen_value(rng, t)


def random_history(rng, sch, sch_sexp, n):
    names = [f[0].encode() for f in sch.fields]
    other_names = [b"zz", b"", b"num2", b"echo", b"Num", b"ip", b"ip.src.x", "é".encode()]
    ops = []
    depth = 0
    nf = len(sch.fields)
    hot = rng.sample(range(nf), 5)          # most reads and writes concentrate on a few fields

    def slot():
        return rng.choice([0, 0, 0, 0, 1, 2, 2, 2, 3, 3]) if rng.random() < 0.97 else 4

    def handle():
        return rng.choice([0, 0, 0, 1, 1, 1, 2]) if rng.random() < 0.97 else 3

    def field():
        r = rng.random()
        if r < 0.75:
            return rng.choice(hot)
        if r < 0.98:
            return rng.randrange(nf)
        return nf + rng.randrange(3)
    # populate the empty slots most of the time
    if rng.random() < 0.7:
        ops.append(rng.choice([("clone", 0, 2), ("new", 2, 0), ("new", 2, 1), ("new", 2, 2)]))
    if rng.random() < 0.5:
        ops.append(rng.choice([("clone", 1, 3), ("new", 3, 0), ("new", 3, 2), ("clone", 0, 3)]))
    for _ in range(n):
        r = rng.random()
        if r < 0.30:
            f = field()
            fty = sch.fields[f][1] if f < nf else "int"
            ops.append(("set", slot(), handle(), f, offered_value(rng, sch, fty)))
        elif r < 0.45:
            if rng.random() < 0.85:
                f = field() % nf
                ops.append(("setn", slot(), names[f], offered_value(rng, sch, sch.fields[f][1])))
            else:
                ops.append(("setn", slot(), rng.choice(other_names), langgen.gen_value(rng, "int")))
        elif r < 0.65:
            ops.append(("get", slot(), handle(), field()))
        elif r < 0.68:
            ops.append(("clear", slot()))
        elif r < 0.75:
            ops.append(("clone", slot(), slot()))
        elif r < 0.77:
            ops.append(("take", slot(), slot()))
        elif r < 0.86:
            ops.append(("borrow", slot()))
            depth += 1
        elif r < 0.92:
            # mostly well bracketed; now and then a drop without a guard
            if depth > 0 or rng.random() < 0.15:
                ops.append(("end",))
                depth = max(0, depth - 1)
            else:
                ops.append(("get", slot(), handle(), field()))
        elif r < 0.97:
            ops.append(("exec", slot(), handle()))
        else:
            ops.append(("new", slot(), handle()))
    # read the hot fields back at the end (remaining guards are still live: the slot names denote them)
    for c in (0, 2, 3):
        for f in hot:
            ops.append(("get", c, rng.choice([0, 1]), f))
    return history(sch_sexp, [to_sexp(o) for o in ops])


# ---------------------------------------------------------------- constructors

BUILD_POOL = [("i", 1), ("s", b"a"), ("b", True), ("v4", 1),
              ("arr", "int"), ("arr", "int", ("i", 1)), ("arr", "bytes"), ("arr", arr("int")),
              ("map", "int"), ("map", "bytes"), ("map", "int", (b"k", ("i", 1)))]
BUILD_TYPES = ["int", "bytes", "bool", "ip", arr("int"), arr("bytes"), mp("int"), arr(arr("int"))]
KEYS = [b"", b"a", b"b"]


def build_cases(tier):
    out = []
    na = 3 if tier == "thorough" else 2
    for t in BUILD_TYPES:
        for n in range(0, na + 1):
            for vs in itertools.product(BUILD_POOL, repeat=n):
                out.append(to_sexp(("build-array", t) + tuple(vs)))
    pairs = [(k, v) for k in KEYS for v in BUILD_POOL]
    mtypes = BUILD_TYPES if tier == "thorough" else ["int", arr("int"), mp("int"), "bytes"]
    for t in mtypes:
        for n in range(0, 3):
            for ps in itertools.product(pairs, repeat=n):
                out.append(to_sexp(("build-map", t) + tuple(ps)))
    return out


def random_build(rng, sch):
    t = rng.choice(all_types(sch) + langgen.PRIMS)
    n = rng.choice([0, 1, 2, 3, 5, 8])
    p_bad = rng.choice([0.0, 0.0, 0.1, 0.3])

    def elem():
        if rng.random() < p_bad:
            t2 = retag(rng, t)
            if rng.random() < 0.5 and not isinstance(t2, str):
                return ("arr" if t2[0] == "array" else "map", t2[1])
            return langgen.gen_value(rng, t2)
        return langgen.gen_value(rng, t, 1)
    if rng.random() < 0.5:
        return to_sexp(("build-array", t) + tuple(elem() for _ in range(n)))
    keys = [rng.choice(langgen.KEY_POOL + [b"k\x00", b"k", b"\xff"]) for _ in range(n)]      # unsorted, with repeats
    return to_sexp(("build-map", t) + tuple((k, elem()) for k in keys))


# ---------------------------------------------------------------- wiring

def gen(rng, tier):
    out = []
    out += exhaustive_histories(4 if tier == "thorough" else 3)
    rich = langgen.rich_scheme()
    rs = to_sexp(rich.sexp())
    plain = langgen.Scheme(langgen.RICH_FIELDS)
    ps = to_sexp(plain.sexp())
    for i in range(5000 if tier == "thorough" else 400):
        if i % 2 == 0:
            out.append(random_history(rng, rich, rs, 50))
        else:
            out.append(random_history(rng, plain, ps, 50))
    out += build_cases(tier)
    for _ in range(40000 if tier == "thorough" else 3000):
        out.append(random_build(rng, rich))
    return out


def nontrivial(line):
    if line.startswith("(ctx-history"):
        # at least two operations
        return line.count("(set") + line.count("(get") + line.count("(cl") + line.count("(take") \
            + line.count("(borrow") + line.count("(end") + line.count("(exec") + line.count("(new") >= 2
    return line.count("(") >= 3          # a constructor call with at least one element


def distribution(lines):
    d = {"ctx-history": 0, "build-array": 0, "build-map": 0, "history_ops_total": 0, "histories_len_ge_50": 0}
    for op in ("set", "setn", "get", "clear", "clone", "take", "borrow", "end", "exec", "new"):
        d["op_" + op] = 0
    for l in lines:
        kind = l[1:l.index(" ")] if " " in l else l.strip("()")
        d[kind] = d.get(kind, 0) + 1
        if kind == "ctx-history":
            n = 0
            for op in ("set", "setn", "get", "clear", "clone", "take", "borrow", "exec", "new"):
                k = l.count("(" + op + " ")
                d["op_" + op] += k
                n += k
            k = l.count("(end)")
            d["op_end"] += k
            n += k
            d["history_ops_total"] += n
            if n >= 50:
                d["histories_len_ge_50"] += 1
    return d


PROP = {
    "id": "C08",
    "prop_file": "theories/Props/C08.v",
    "proof_files": ["theories/Proofs/CtxApiProofs.v"],
    "gen": gen,
    "nontrivial": nontrivial,
    "distribution": distribution,
    "exhaustive": True,
    "rule": "exhaustive: every operation sequence of length <=3 (quick) / <=4 (thorough) over a 33-operation alphabet on a "
            "two-field scheme {n: Int, a: Array(Array(Int))}: set by field through the clone's FieldRef with one well-typed "
            "and several ill-typed values per field (wrong primitive, container for primitive, right container/wrong "
            "element tag on an EMPTY array, one level too shallow / too deep, map for array), fields of the "
            "independently built identical scheme B, set by name (known / unknown), get (own and foreign field), clear, "
            "clone_with both ways, take_with both ways, borrow_with / drop of the guard (also unbalanced), new, execute "
            "with a filter of the clone and of B; plus random histories of 50-52 operations (+15 final reads) over the rich "
            "22-field scheme with nested borrows, out-of-range slots/handles/fields, ill-typed values obtained by "
            "re-tagging; plus the checked constructors: every list of <=2 (<=3) elements from an 11-value pool x 8 "
            "declared types for Array::try_from_iter/try_from_vec (and TypedArray), every list of <=2 pairs over 3 keys "
            "for Map::try_from_iter (and TypedMap), and random ones with repeated / unsorted keys. Every operation's "
            "result is compared (Ok(previous)/Err kind/value read/executed vs scheme-mismatch). "
            "Non-trivial = history with >=2 operations or constructor call with >=1 element; distinct = distinct case line.",
    "vm_sample": (64, 640),
    "assumptions": [
        "schemes A and B of one case are built from the same description (structurally identical); list matchers are "
        "present in half of the random histories but their state is not observed",
        "values offered to a context are built with Array::try_from_iter / Map::try_from_iter (the only public way), "
        "which is the premise value_wf of C08_ctx_refines_typed_map",
        "operations the borrow checker forbids (moving or overwriting a borrowed context) are answered `busy` by "
        "harness and model alike and not attempted",
        "get_field_value with a field of another scheme panics by a documented assert; the harness reports it as `refused`",
    ],
}
