"""C02 — indexing, map-each, bool-array logic, any/all."""
import langgen as lg
from props.c01 import norm_exec, distribution as dist01


def gen(rng, tier):
    out = []
    n = 2500 if tier == "quick" else 50000
    nctx = 6 if tier == "quick" else 12
    fields = [f for f in lg.RICH_FIELDS]
    for nil_ne in (True, False):
        sch = lg.Scheme(fields, [], [], nil_ne)
        g = lg.Gen(rng, sch, features=("index", "each", "quant", "oneof", "mapbool"), max_depth=3)
        for _ in range(n // 2):
            ast = g.gen_filter()
            ctxs = [lg.gen_ctx(rng, sch, p_absent=rng.choice([0.0, 0.2, 0.5])) for _ in range(nctx)]
            out.append(lg.exec_case(sch, ast, ctxs, lg.Layout(rng))[0])
    return out


def nontrivial(line):
    return " each" in line or "(a " in line or "(k " in line


def distribution(lines):
    d = dist01(lines)
    d.update({"each": sum(l.count(" each") for l in lines), "array_index": sum(l.count("(a ") for l in lines),
              "map_key": sum(l.count("(k ") for l in lines), "quant_logical": sum(l.count("(ql ") for l in lines),
              "quant_index": sum(l.count("(qi ") for l in lines)})
    return d


PROP = {
    "id": "C02",
    "prop_file": "theories/Props/C02.v",
    "proof_files": ["theories/Proofs/FullProofs.v", "theories/Proofs/CallProofs.v", "theories/Proofs/ExecProofs.v", "theories/Proofs/IndexProofs.v", "theories/Proofs/ValueProofs.v", "theories/Proofs/ScalarProofs.v", "theories/Proofs/RangeSetProofs.v", "theories/Proofs/C09Proofs.v"],
    "gen": gen,
    "normalize": norm_exec,
    "nontrivial": nontrivial,
    "distribution": distribution,
    "rule": "rich scheme with containers nested to depth 3; filters with [n], [\"key\"], [*] paths, element-wise logic "
            "on boolean arrays, any/all; contexts with empty/singleton/ragged/absent containers.",
}
