"""C15 — type and scheme encodings: generators and wiring.

Case kinds (see coq/theories/Run/C15.v): type-codec, type-json, scheme-json,
scheme-roundtrip, ctype-build, ctype-decode."""
import itertools
import re

import vp
from vp import Sym, parse_sexp, to_sexp

PRIMS = ["bool", "bytes", "int", "ip"]
JNAME = {"bool": "Bool", "bytes": "Bytes", "int": "Int", "ip": "Ip", "array": "Array", "map": "Map"}
ENTRIES = ["str", "slice", "reader", "value"]
PANIC_F4 = b"Could not convert type to compound type"
ERR_F5 = b"expected a borrowed string"


# ---------------------------------------------------------------- types

def ty_sexp(prim, layers):
    """layers: outermost first, each 'array' | 'map'."""
    s = prim
    for l in reversed(layers):
        s = "(%s %s)" % (l, s)
    return s


def ty_json(prim, layers):
    """python JSON tree (see render) of a type."""
    j = JNAME[prim]
    for l in reversed(layers):
        j = {"__obj__": [(JNAME[l], j)]}
    return j


def all_layer_strings(k):
    for n in range(k + 1):
        for ls in itertools.product(("array", "map"), repeat=n):
            yield list(ls)


def shaped_layers(rng, n, shape):
    if shape == "array":
        return ["array"] * n
    if shape == "map":
        return ["map"] * n
    if shape == "alt0":
        return [("array", "map")[i % 2] for i in range(n)]
    if shape == "alt1":
        return [("map", "array")[i % 2] for i in range(n)]
    if shape == "inner-map":
        return ["array"] * (n - 1) + ["map"] if n else []
    if shape == "outer-map":
        return ["map"] + ["array"] * (n - 1) if n else []
    return [rng.choice(("array", "map")) for _ in range(n)]


SHAPES = ["array", "map", "alt0", "alt1", "inner-map", "outer-map", "random", "random"]

# ---------------------------------------------------------------- JSON text


def jstr(s, style, rng=None):
    """JSON string literal for the python str s.
       plain: what serde_json writes; uall: every char as \\uXXXX (surrogate pairs);
       mixed: each char at random plain / \\u / short escape / upper-case hex."""
    out = ['"']
    short = {'"': '\\"', "\\": "\\\\", "\b": "\\b", "\f": "\\f", "\n": "\\n", "\r": "\\r", "\t": "\\t"}

    def uesc(ch, upper=False):
        cp = ord(ch)
        fmt = "\\u%04X" if upper else "\\u%04x"
        if cp >= 0x10000:
            cp -= 0x10000
            return fmt % (0xD800 + (cp >> 10)) + fmt % (0xDC00 + (cp & 0x3FF))
        return fmt % cp
    for ch in s:
        if style == "plain":
            if ch in short:
                out.append(short[ch])
            elif ord(ch) < 0x20:
                out.append("\\u%04x" % ord(ch))
            else:
                out.append(ch)
        elif style == "uall":
            out.append(uesc(ch))
        else:
            r = rng.random()
            must = ch in short or ord(ch) < 0x20
            if r < 0.3 or (must and r < 0.6 and ch not in short):
                out.append(uesc(ch, upper=rng.random() < 0.5))
            elif ch in short:
                out.append(short[ch])
            elif ch == "/" and r < 0.8:
                out.append("\\/")
            elif must:
                out.append(uesc(ch))
            else:
                out.append(ch)
    out.append('"')
    return "".join(out)


def render(j, style="plain", rng=None, ws=False):
    """j: None | bool | int | str | list | {'__obj__': [(key, value)...]} | {'__raw__': text}"""
    sp = (lambda: rng.choice(["", " ", "\n", "\t ", "\r\n"])) if ws else (lambda: "")
    if isinstance(j, dict) and "__raw__" in j:
        return j["__raw__"]
    if j is None:
        return "null"
    if j is True:
        return "true"
    if j is False:
        return "false"
    if isinstance(j, int):
        return str(j)
    if isinstance(j, str):
        return jstr(j, style, rng)
    if isinstance(j, list):
        return "[" + sp() + ",".join(sp() + render(x, style, rng, ws) + sp() for x in j) + "]"
    items = j["__obj__"]
    return "{" + sp() + ",".join(sp() + jstr(k, style, rng) + sp() + ":" + sp() + render(v, style, rng, ws) + sp()
                                 for k, v in items) + "}"


def obj(*items):
    return {"__obj__": list(items)}


def raw(text):
    return {"__raw__": text}


def case_text(kind, text, entry):
    return "(%s #%s %s)" % (kind, text.encode("utf-8").hex(), entry)


# ---------------------------------------------------------------- names

NAME_POOL = [
    "a", "b", "x1", "http.host", "http.request.uri.path", "ip.src", "tcp.port", "a.b.c.d.e.f.g.h",
    "", " ", ".", "..", "type", "optional", "Array", "Int",
    "héllo", "日本語", "Δ.δ", "emoji\U0001F600x", "\U0001F468‍\U0001F469", "﻿bom", "￿",
    'quo"te', "back\\slash", "new\nline", "tab\there", "cr\rlf", "nul\x00byte", "ctl\x01\x1f", "del\x7f", "sl/ash",
    "bs\bff\f", '"', "\\", "\\u0041", "\\n",
    "L" * 300, "long." * 120 + "end", "é" * 200,
]
ESCAPED = set('"\\\b\f\n\r\t') | {chr(i) for i in range(0x20)}


def needs_escape(name):
    return any(c in ESCAPED for c in name)


def rand_name(rng):
    r = rng.random()
    if r < 0.45:
        return rng.choice(NAME_POOL)
    if r < 0.7:
        return ".".join("".join(rng.choice("abcxyz_09") for _ in range(rng.randrange(1, 6)))
                        for _ in range(rng.randrange(1, 5)))
    alphabet = ["a", "Z", ".", "é", "中", "\U0001F600", '"', "\\", "\n", "\x01", "\x7f", " ", "/", " "]
    return "".join(rng.choice(alphabet) for _ in range(rng.randrange(0, 12)))


def plain_name(rng):
    """a name whose JSON form needs no escape (so from_str / from_slice read it today)"""
    while True:
        n = rand_name(rng)
        if not needs_escape(n):
            return n


def rand_type(rng, maxd=6):
    r = rng.random()
    n = 0 if r < 0.35 else rng.randrange(1, maxd + 1) if r < 0.9 else rng.choice([31, 32, 33])
    return rng.choice(PRIMS), shaped_layers(rng, n, "random")


def fields_case(fields, entry):
    fl = "(" + " ".join("(#%s %s %s)" % (n.encode("utf-8").hex(), ty_sexp(p, ls), "true" if o else "false")
                        for n, (p, ls), o in fields) + ")"
    return "(scheme-roundtrip %s %s)" % (fl, entry)


def rand_fields(rng, n, namef, dup=False):
    names = []
    seen = set()
    while len(names) < n:
        x = namef(rng)
        if x in seen:
            continue
        seen.add(x)
        names.append(x)
    if dup and n >= 1:
        i = rng.randrange(n)
        names.insert(rng.randrange(i + 1, n + 1), names[i])
    return [(x, rand_type(rng), rng.random() < 0.5) for x in names]


# coqc (vm_compute cross-check) overflows its stack on a case line of more than about 25 000 characters
LINE_CAP = 20000


def fit(fields, line_of):
    """Shortens the longest names until the case line fits LINE_CAP."""
    fields = list(fields)
    while True:
        line = line_of(fields)
        if len(line) <= LINE_CAP:
            return fields, line
        i = max(range(len(fields)), key=lambda k: len(fields[k][0]))
        name = fields[i][0]
        if len(name) <= 4:
            fields.pop()
            continue
        used = {f[0] for f in fields}
        new = name[:len(name) // 2]
        k = 0
        while new in used:
            new = name[:len(name) // 2] + str(k)
            k += 1
        fields[i] = (new,) + tuple(fields[i][1:])


def scheme_json(fields, form="obj"):
    items = []
    for n, (p, ls), o in fields:
        t = ty_json(p, ls)
        if form == "seq":
            v = [t, o]
        elif form == "swapped":
            v = obj(("optional", o), ("type", t))
        elif form == "extra":
            v = obj(("x", [1, obj(("y", None))]), ("type", t), ("Type", "Int"), ("optional", o), ("z", "w"))
        else:
            v = obj(("type", t), ("optional", o))
        items.append((n, v))
    return obj(*items)


# ---------------------------------------------------------------- generators

def gen_types(rng, tier):
    out = []
    k = 12 if tier == "thorough" else 10
    for ls in all_layer_strings(k):
        for p in PRIMS:
            out.append("(type-codec %s)" % ty_sexp(p, ls))
    reps = 40 if tier == "thorough" else 4
    for n in range(k + 1, 33):
        for shape in SHAPES[:6]:
            out.append("(type-codec %s)" % ty_sexp(rng.choice(PRIMS), shaped_layers(rng, n, shape)))
        for _ in range(reps):
            out.append("(type-codec %s)" % ty_sexp(rng.choice(PRIMS), shaped_layers(rng, n, "random")))
    # 33 layers exist as a Type but not as a CompoundType; 34 and more do not exist
    for n in (33, 34, 35, 40, 64, 130):
        for shape in SHAPES:
            out.append("(type-codec %s)" % ty_sexp(rng.choice(PRIMS), shaped_layers(rng, n, shape)))
    # C API constructors and raw CType values
    for n in list(range(0, 9)) + [30, 31, 32, 33, 34, 35, 40, 100, 254]:
        for shape in SHAPES:
            ls = shaped_layers(rng, n, shape)
            out.append("(ctype-build %s (%s))" % (rng.choice(PRIMS), " ".join(reversed(ls))))
    # (255 pushes overflow the u8 `len`: in a debug build that is a panic inside an extern "C" function, which
    #  aborts the process; the model says "panic" there, the case is not generated)
    for n in list(range(0, 6)) + [31, 32, 33, 34, 35, 64, 128, 255]:
        for code in (0, 1, 2, 3, 4, 5, 255):
            for _ in range(3 if tier == "quick" else 30):
                hi = rng.choice([0, 0, 1])
                bits = rng.getrandbits(min(n, 32)) if n else 0
                if hi:
                    bits = rng.getrandbits(32)
                out.append("(ctype-decode %d %d %d)" % (bits, n, code))
    for bits in (0, 1, 2, 3, 0x80000000, 0xFFFFFFFF, 0x7FFFFFFF, 0xAAAAAAAA, 0x55555555):
        for n in (0, 1, 2, 31, 32, 33):
            out.append("(ctype-decode %d %d %d)" % (bits, n, rng.choice([1, 2, 3, 4])))
    return out


def type_descriptors(rng, tier):
    """(safe, f4_prone): JSON texts of types; the second list holds 34..127 layers."""
    safe, deep = [], []
    # small hand-made shapes, every entry point
    hand = [
        "Int", "Bool", "Ip", "Bytes", "Array", "Map", "int", "", "Intx", None, True, 0, -1, 12345678901234567890123,
        [], ["Int"], obj(), obj(("Int", None)), obj(("Bytes", None)), obj(("Int", "x")), obj(("Int", obj())),
        obj(("Array", "Int")), obj(("Map", "Bytes")), obj(("Array", None)), obj(("Array", "Array")),
        obj(("Array", obj(("Int", None)))), obj(("array", "Int")), obj(("Array", "Int"), ("Map", "Int")),
        obj(("Array", "Int"), ("Array", "Bytes")), obj(("Map", "Int"), ("Array", "Bytes")),
        obj(("Int", None), ("Int", None)), obj(("Array", ["Int"])), obj(("Array", obj(("Map", obj(("Array", "Ip")))))),
        obj(("Array", obj(("Map", obj(("Arr", "Ip")))))), obj(("Array", obj(("Map", 1)))),
        raw('"Int" x'), raw('"Int"'  + " \n"), raw(' \t"Int"'), raw('{"Array":"Int"'), raw('{"Array":"Int",}'),
        raw('{"Array" "Int"}'), raw("'Int'"), raw('"In\\u0074"'), raw('"\\u0049\\u006E\\u0074"'), raw('"Int\\u0000"'),
        raw('{"\\u0041rray":"\\u0042ytes"}'), raw('"\\ud800"'), raw('"\\udc00"'), raw('"\\ud83d\\ude00"'),
        raw('"\\ud83dx"'), raw('"\\ud83d\\u0041"'), raw('"In\\x74"'), raw('"Int'), raw('"In\nt"'), raw("01"),
        raw("-"), raw("tru"), raw("nulll"), raw("[1,]"), raw("[1 2]"), raw("{1:2}"), raw(""), raw("  "),
    ]
    for j in hand:
        for e in ENTRIES:
            safe.append(case_text("type-json", render(j), e))
    for _ in range(100 if tier == "quick" else 2000):
        p, ls = rand_type(rng, 8)
        j = ty_json(p, ls)
        if rng.random() < 0.3:
            j2 = ty_json(p, [])
            j2 = obj((JNAME[p], None))
            for l in reversed(ls):
                j2 = obj((JNAME[l], j2))
            j = j2
        text = render(j, rng.choice(["plain", "uall", "mixed"]), rng, ws=rng.random() < 0.5)
        safe.append(case_text("type-json", text, rng.choice(ENTRIES)))
    # every depth up to 130
    shapes = SHAPES if tier == "thorough" else ["array", "alt1"]
    for n in range(0, 131):
        for si, shape in enumerate(shapes):
            p = rng.choice(PRIMS)
            text = render(ty_json(p, shaped_layers(rng, n, shape)))
            ents = ENTRIES if (tier == "thorough" or n in (32, 33, 34, 35, 126, 127, 128, 129)) \
                else [ENTRIES[(n + si) % 4]]
            for e in ents:
                (deep if 34 <= n <= 127 else safe).append(case_text("type-json", text, e))
    return safe, deep


def scheme_cases(rng, tier):
    """(safe, f5_prone, f4_prone)"""
    safe, f5, f4 = [], [], []

    def put(line, fields_n, entry, escaped, deep=False):
        if deep:
            f4.append(line)
        elif fields_n > 0 and (entry in ("reader", "value") or escaped):
            f5.append(line)
        else:
            safe.append(line)
    sizes = list(range(0, 41))
    reps = 1 if tier == "quick" else 12
    for n in sizes:
        for _ in range(reps):
            # readable today: unescaped names through from_str / from_slice
            fs, _ = fit(rand_fields(rng, n, plain_name), lambda f: fields_case(f, "reader"))
            for e in ("str", "slice"):
                put(fields_case(fs, e), n, e, False)
            # any names, every entry point
            fs, _ = fit(rand_fields(rng, n, rand_name), lambda f: fields_case(f, "reader"))
            esc = any(needs_escape(f[0]) for f in fs)
            for e in ENTRIES:
                put(fields_case(fs, e), n, e, esc)
            # a repeated name: refused by the builder already
            if n >= 1:
                fs = rand_fields(rng, n, rand_name, dup=True)
                line = fields_case(fs, rng.choice(ENTRIES))
                if len(line) <= LINE_CAP:
                    safe.append(line)
    # every pool name alone, every entry point
    for name in NAME_POOL:
        fs = [(name, rand_type(rng), rng.random() < 0.5)]
        for e in ENTRIES:
            put(fields_case(fs, e), 1, e, needs_escape(name))
    # hand-written scheme documents
    for _ in range(60 if tier == "quick" else 1500):
        n = rng.choice([0, 1, 2, 3, 5, 8, 20, 40])
        namef = plain_name if rng.random() < 0.5 else rand_name
        fs = rand_fields(rng, n, namef, dup=rng.random() < 0.2)
        form = rng.choice(["obj", "obj", "seq", "swapped", "extra"])
        style = rng.choice(["plain", "plain", "uall", "mixed"])
        ws = rng.random() < 0.4
        st = rng.getstate()

        def line_of(f):
            rng.setstate(st)
            return case_text("scheme-json", render(scheme_json(f, form), style, rng, ws=ws), "reader")
        fs, line = fit(fs, line_of)
        text = parse_sexp(line)[1].decode("utf-8")
        esc = "\\" in text
        for e in ENTRIES:
            put(case_text("scheme-json", text, e), n, e, esc)
    t = "Int"
    hand = [
        obj(), [], None, "x", 1, obj(("a", None)), obj(("a", "Int")), obj(("a", obj())),
        obj(("a", obj(("type", t)))), obj(("a", obj(("optional", True)))),
        obj(("a", obj(("type", t), ("optional", 1)))), obj(("a", obj(("type", t), ("optional", None)))),
        obj(("a", obj(("type", t), ("optional", "true")))),
        obj(("a", obj(("type", t), ("type", t), ("optional", True)))),
        obj(("a", obj(("type", t), ("optional", True), ("optional", False)))),
        obj(("a", obj(("type", "Nope"), ("optional", True)))),
        obj(("a", obj(("type", t), ("optional", True))), ("a", obj(("type", t), ("optional", True)))),
        obj(("a", obj(("type", t), ("optional", True))), ("b", obj(("type", t), ("optional", True))),
            ("a", obj(("type", "Ip"), ("optional", False)))),
        obj(("b", obj(("type", t), ("optional", True))), ("a", obj(("type", t), ("optional", False))),
            ("b", obj(("type", "Ip"), ("optional", False)))),
        obj(("a", [t, True])), obj(("a", [t])), obj(("a", [t, True, 1])), obj(("a", [True, t])), obj(("a", [])),
        obj(("a", [obj(("Array", "Ip")), False]), ("b", [t, True])),
        obj(("a", obj(("type", obj(("Int", None))), ("optional", False)))),
        obj(("a", obj(("type", ty_json("ip", ["array"] * 33)), ("optional", False)))),
        raw('{"a":{"type":"Int","optional":true},}'), raw('{"a":{"type":"Int","optional":true}} x'),
        raw('{"a":{"type":"Int","optional":true}'), raw('{a:{"type":"Int","optional":true}}'),
        raw('{"\\ud800":{"type":"Int","optional":true}}'), raw('{"a\x01":{"type":"Int","optional":true}}'),
        raw('{"a":{"ty\\u0070e":"Int","optional":true}}'), raw('{"a":{"type":"\\u0049nt","optional":true}}'),
        raw('{"\\u0061":{"type":"Int","optional":true}}'), raw('{"\\ud83d\\ude00":{"type":"Int","optional":false}}'),
        raw('{"a\\/b":{"type":"Int","optional":false}}'),
        raw('{"a":{"type":"Int","optional":true},"\\u0061":{"type":"Int","optional":true}}'),
    ]
    for j in hand:
        text = render(j)
        nf = text.count('"type"') + text.count("[")
        for e in ENTRIES:
            put(case_text("scheme-json", text, e), nf, e, "\\" in text)
    # a field whose type is too deep
    for n in (34, 35, 60, 125):
        text = render(obj(("deep", obj(("type", ty_json("int", ["map"] * n)), ("optional", False)))))
        for e in ("str", "slice"):
            put(case_text("scheme-json", text, e), 1, e, False, deep=True)
    return safe, f5, f4


def interleave(a, b):
    out = []
    for i in range(max(len(a), len(b))):
        if i < len(a):
            out.append(a[i])
        if i < len(b):
            out.append(b[i])
    return out


def gen(rng, tier):
    """Cases that can only disagree through a known finding go last, F4 and F5
       interleaved, so that both are seen early among the disagreements."""
    out = gen_types(rng, tier)
    tsafe, tdeep = type_descriptors(rng, tier)
    ssafe, sf5, sf4 = scheme_cases(rng, tier)
    out += tsafe + ssafe
    out += interleave(tdeep + sf4, sf5)
    return out


# ---------------------------------------------------------------- comparison

def normalize(kind, out, case):
    # error text is never compared
    if kind == "impl" and out.startswith("(err #"):
        return "(err)"
    return out


def layers_in_text(case_line):
    """largest number of directly nested {"Array": / {"Map": in the JSON text of the case"""
    try:
        c = parse_sexp(case_line)
        text = c[1].decode("utf-8", "replace")
    except Exception:
        return -1
    best = 0
    for m in re.finditer(r'(?:\{"(?:Array|Map)":)+', text):
        best = max(best, len(re.findall(r"\{", m.group(0))))
    return best


def classify(line, rec):
    """Tag only the two observed defects, exactly."""
    impls = list(rec["impl"].values())
    model, spec = rec["model"], rec["spec"]
    if spec is not None and spec != model:
        return None
    head = vp.head_of(line)
    tags = set()
    for io in impls:
        try:
            t = parse_sexp(io)
        except Exception:
            return None
        if (isinstance(t, list) and len(t) == 2 and t[0] == "panic" and t[1] == PANIC_F4
                and head in ("type-json", "scheme-json") and model == "(err)"
                and 34 <= layers_in_text(line) <= 127):
            tags.add("F4-deep-type-panic")
        elif (isinstance(t, list) and len(t) == 2 and t[0] == "err" and isinstance(t[1], bytes) and ERR_F5 in t[1]
              and head in ("scheme-json", "scheme-roundtrip") and model.startswith("(ok")):
            tags.add("F5-scheme-borrowed-str")
        else:
            return None
    return tags.pop() if len(tags) == 1 else None


def post(ctx):
    """run_property classifies only the first 200 disagreements; look at all of
       them so that a known finding can never hide another disagreement."""
    known = {k.get("tag") for k in vp.load_known().get("known", []) if k.get("property") == "C15"}
    lines, model, spec, impls = ctx["lines"], ctx["model"], ctx["spec"], ctx["impl"]
    bad = 0
    hits = {}
    viol = []
    for i, line in enumerate(lines):
        ios = {k: v[i] for k, v in impls.items()}
        if all(normalize("impl", o, line) == model[i] for o in ios.values()) and (spec is None or spec[i] == model[i]):
            continue
        bad += 1
        rec = {"property": "C15", "case": line, "model": model[i], "spec": spec[i] if spec is not None else None,
               "impl": ios, "seed": ctx["seed"], "tier": ctx["tier"], "index": i}
        tag = classify(line, rec)
        if tag and tag in known:
            hits[tag] = hits.get(tag, 0) + 1
            continue
        if bad > 200 and len(viol) < 3:
            rec["verdict"] = "disagreement beyond the first 200 (found by the C15 post-scan)"
            viol.append(("impl!=spec", vp.write_replay("C15", rec), ""))
    return {"coverage": {"disagreements_total": bad, "known_finding_cases": hits}, "violations": viol}


def nontrivial(line):
    h = vp.head_of(line)
    if h == "type-codec":
        return "(array" in line or "(map" in line
    if h in ("type-json", "scheme-json"):
        return len(line) > 40
    if h == "scheme-roundtrip":
        return "(#" in line
    return True


def distribution(lines):
    d = {}
    for l in lines:
        h = vp.head_of(l)
        d[h] = d.get(h, 0) + 1
        if h in ("type-json", "scheme-json", "scheme-roundtrip"):
            e = l.rstrip(")").split(" ")[-1]
            d["entry_" + e] = d.get("entry_" + e, 0) + 1
    return d


PROP = {
    "id": "C15",
    "prop_file": "theories/Props/C15.v",
    "proof_files": ["theories/Proofs/TypeCodecProofs.v"],
    "gen": gen,
    "nontrivial": nontrivial,
    "distribution": distribution,
    "normalize": normalize,
    "classify": classify,
    "post": post,
    "exhaustive": True,
    "vm_sample": (120, 800),
    "rule": "exhaustive: every type with <= 10 (quick) / <= 12 (thorough) container layers (every array/map layer "
            "string x 4 primitives): Type -> CompoundType (fields read from its Debug form) -> Type, Type -> ffi::CType "
            "-> Type, Type -> JSON text -> Type through from_str, from_slice, from_reader and from_value; sampled "
            "13..32 layers (all-array, all-map, both alternations, one map at either end, random); 33 layers (a Type "
            "but no CompoundType) and 34+ (no Type); the C API constructors applied 0..256 times and raw CType triples "
            "with any code / len / stray high bits; JSON type descriptors of every depth 0..130 plus malformed and "
            "alternative spellings ({\"Int\":null}, escapes, duplicate keys, white space); schemes with 0..40 fields "
            "with dotted / long / non-ASCII / JSON-escaped / empty names built with SchemeBuilder, written and read "
            "back through the four entry points, with a repeated name, and hand-written scheme documents (pair form, "
            "extra and missing members, duplicate keys, escaped keys, too deep field types). "
            "Non-trivial = at least one container layer / one field / a document of more than a few bytes.",
    "assumptions": [
        "the text layer of serde_json (Sem/JsonText.v: strict RFC 8259 reader with recursion limit 128, compact "
        "writer) is modelled, not proved; generated texts are valid UTF-8 and use integer numbers only",
        "from_value is given serde_json::Value without the preserve_order feature (objects are BTreeMaps): through "
        "that entry point a scheme comes back ordered by field name and a repeated key keeps its last value; the "
        "model and the specification say so explicitly (supply / supplied_order)",
        "CompoundType's private fields are observed through its derived Debug output",
        "debug build: `len += 1` in ffi CType::push panics on u8 overflow (255 layers)",
    ],
}
