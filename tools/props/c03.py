"""C03 — function calls, map-each application, concat."""
import langgen as lg
from props.c01 import norm_exec, distribution as dist01


def gen(rng, tier):
    out = []
    n = 2500 if tier == "quick" else 40000
    nctx = 6 if tier == "quick" else 12
    for nil_ne in (True, False):
        sch = lg.Scheme(lg.RICH_FIELDS, lg.RICH_FNS, [], nil_ne)
        g = lg.Gen(rng, sch, features=("index", "each", "quant", "oneof", "call", "vec", "mapbool"), max_depth=3)
        for _ in range(n // 2):
            ast = g.gen_filter()
            ctxs = [lg.gen_ctx(rng, sch, p_absent=rng.choice([0.0, 0.2, 0.5])) for _ in range(nctx)]
            out.append(lg.exec_case(sch, ast, ctxs, lg.Layout(rng))[0])
    return out


def nontrivial(line):
    return "(call " in line


def distribution(lines):
    d = dist01(lines)
    d.update({"calls": sum(l.count("(call ") for l in lines), "literal_args": sum(l.count("(lit ") for l in lines),
              "logical_args": sum(l.count("(al ") for l in lines), "each": sum(l.count(" each") for l in lines)})
    return d


PROP = {
    "id": "C03",
    "prop_file": "theories/Props/C03.v",
    "proof_files": ["theories/Proofs/FullProofs.v", "theories/Proofs/CallProofs.v", "theories/Proofs/FunsProofs.v", "theories/Proofs/ExecProofs.v", "theories/Proofs/IndexProofs.v", "theories/Proofs/ValueProofs.v", "theories/Proofs/ScalarProofs.v"],
    "gen": gen,
    "normalize": norm_exec,
    "nontrivial": nontrivial,
    "distribution": distribution,
    "rule": "calls to the harness function library nested to depth 3 with field / index-path / literal / nested-call / "
            "logical arguments, map-each first arguments, optional parameters, concat",
}
