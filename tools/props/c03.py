"""C03 — function calls, map-each application, concat."""
import langgen as lg
from props.c01 import norm_exec, distribution as dist01


def gen(rng, tier):
    out = []
    n = 2500 if tier == "quick" else 40000
    nctx = 6 if tier == "quick" else 12
    for nil_ne in (True, False):
        sch = lg.Scheme(lg.RICH_FIELDS, lg.RICH_FNS, [], nil_ne)
        g = lg.Gen(rng, sch, features=("index", "each", "quant", "oneof", "call", "vec", "mapbool"), max_depth=3)
        for _ in range(n // 2):
            ast = g.gen_filter()
            ctxs = [lg.gen_ctx(rng, sch, p_absent=rng.choice([0.0, 0.2, 0.5])) for _ in range(nctx)]
            out.append(lg.exec_case(sch, ast, ctxs, lg.Layout(rng))[0])
    out += value_cases(rng, tier)
    return out


def value_cases(rng, tier):
    """value expressions: the whole result of a call (not just a comparison on it) is compared.
       (1) concat over every tuple of 2..4 arguments from a pool of present / absent array and byte-string
           expressions (exhaustive small scope: absent arguments in leading, middle and trailing positions);
       (2) random calls (nested to depth 3, with map-each first arguments) evaluated as value expressions."""
    out = []
    sch = lg.Scheme(lg.RICH_FIELDS, lg.RICH_FNS, [], True)
    f = sch.field_index
    concat = [i for i, (n, lib) in enumerate(sch.fns) if lib == "concat"][0]
    pools = {
        "abytes": [("field", f("strs")), ("field", f("hdrs"), ("k", b"k1")), ("field", f("hdrs"), ("k", b"missing")),
                   ("field", f("words"), ("a", 0)), ("field", f("words"), ("a", 7))],
        "aint": [("field", f("nums")), ("field", f("cube"), ("a", 0), ("a", 0)), ("field", f("cube"), ("a", 9), ("a", 0)),
                 ("field", f("deep"), ("k", b"a"), ("k", b"b"))],
        "abool": [("field", f("bools")), ("field", f("grid"), ("a", 0)), ("field", f("grid"), ("a", 9)),
                  ("field", f("mgrid"), ("k", b"k1")), ("field", f("mgrid"), ("k", b"missing"))],
        "bytes": [("field", f("str")), ("field", f("ostr")), ("field", f("hdr"), ("k", b"k1")),
                  ("field", f("hdr"), ("k", b"missing")), ("field", f("strs"), ("a", 0))],
    }
    nctx = 3 if tier == "quick" else 8
    import itertools
    for name, pool in pools.items():
        for n in (2, 3, 4):
            tuples = list(itertools.product(pool, repeat=n))
            if tier == "quick" and len(tuples) > 150:
                tuples = rng.sample(tuples, 150)
            for args in tuples:
                e = ("call", concat, tuple(("ai", a) for a in args))
                ctxs = [lg.gen_ctx(rng, sch, p_absent=rng.choice([0.0, 0.3, 0.6])) for _ in range(nctx)]
                out.append(lg.exec_case(sch, e, ctxs, lg.Layout(rng), kind="exec-value")[0])
    # (3) every library function applied to `field[*]` for every array / map field whose element type fits its
    #     first parameter, as a value expression: absent, empty and populated containers; the absence must carry
    #     the call's static type (Array of the return type)
    for fi, (fname, lib) in enumerate(sch.fns):
        sig = lg.LIB[lib]
        if not sig or not sig[0]:
            continue
        params, opts, ret = sig
        kind0, t0 = params[0]
        if kind0 == "literal":
            continue
        for xi, (xname, xt, xopt) in enumerate(sch.fields):
            paths = []
            if not isinstance(xt, str) and xt[1] == t0:
                paths.append(("field", xi, "each"))
            if not isinstance(xt, str) and not isinstance(xt[1], str) and xt[1][1] == t0:
                paths.append(("field", xi, ("a", 0) if xt[0] == "array" else ("k", b"k1"), "each"))
                paths.append(("field", xi, ("a", 9) if xt[0] == "array" else ("k", b"missing"), "each"))
            for pth in paths:
                args = [("ai", pth)]
                ok = True
                for kind, t in params[1:]:
                    a = None
                    if t == "int":
                        a = ("lit", ("i", 3))
                    elif t == "bytes":
                        a = ("lit", ("s", b"zz")) if kind != "field" else ("ai", ("field", f("str")))
                    if a is None or (kind == "field" and a[0] == "lit"):
                        ok = False
                        break
                    args.append(a)
                if not ok:
                    continue
                e = ("call", fi, tuple(args))
                ctxs = [lg.gen_ctx(rng, sch, p_absent=p) for p in (0.0, 0.5, 1.0)]
                out.append(lg.exec_case(sch, e, ctxs, lg.Layout(rng), kind="exec-value")[0])
    # (4) a mapped call applied to the result of another mapped call, f(g(xs[*])[*]): the inner result is an array
    #     the engine owns; arrays with elements the outer function drops at the start, in the middle and at the end
    #     (results in order, the dropped ones gone), also indexed and compared
    bytes_fns = [(fi, lib) for fi, (fname, lib) in enumerate(sch.fns)
                 if lg.LIB.get(lib) and lg.LIB[lib][0] == [("field", "bytes")] and not lg.LIB[lib][1]]
    strs = f("strs")
    shapes = [[b"a", b"", b"b", b"c"], [b"", b"a", b"", b"b"], [b"a", b"b", b""], [b"", b""], [b"x", b"", b"", b"y", b"z", b""],
              [b"A", b"", b"b", b"", b"C", b"d", b"", b"e"], [], [b"q"]]
    for fi, flib in bytes_fns:
        for gi, glib in bytes_fns:
            if lg.LIB[glib][2] != "bytes":
                continue
            inner = ("call", gi, (("ai", ("field", strs, "each")),), "each")
            for tail in ((), (("a", 0),), (("a", 1),), (("a", 2),)):
                e = ("call", fi, (("ai", inner),)) + tuple(tail)
                ctxs = []
                for sh in shapes:
                    c = lg.gen_ctx(rng, sch, p_absent=0.0)
                    vals = list(c[1][1:])
                    vals[strs] = ("arr", "bytes") + tuple(("s", b) for b in sh)
                    ctxs.append(lg.make_ctx(sch, vals, list(c[2][1:])))
                try:
                    out.append(lg.exec_case(sch, e, ctxs, lg.Layout(rng), kind="exec-value")[0])
                except Exception:
                    pass
    g = lg.Gen(rng, sch, features=("index", "each", "call", "oneof", "vec", "mapbool"), max_depth=3)
    n = 600 if tier == "quick" else 10000
    made = 0
    tries = 0
    while made < n and tries < 20 * n:
        tries += 1
        c = g.gen_call(0)
        if not c:
            continue
        base, t0 = c
        idx, t, n_each = g.index_further(t0, False)
        if n_each:
            continue
        e = base + tuple(idx)
        ctxs = [lg.gen_ctx(rng, sch, p_absent=rng.choice([0.0, 0.2, 0.5])) for _ in range(nctx)]
        try:
            out.append(lg.exec_case(sch, e, ctxs, lg.Layout(rng), kind="exec-value")[0])
            made += 1
        except Exception:
            continue
    return out


def nontrivial(line):
    return "(call " in line or line.startswith("(exec-value")


def distribution(lines):
    d = dist01(lines)
    d.update({"calls": sum(l.count("(call ") for l in lines), "literal_args": sum(l.count("(lit ") for l in lines),
              "logical_args": sum(l.count("(al ") for l in lines), "each": sum(l.count(" each") for l in lines)})
    return d


PROP = {
    "id": "C03",
    "prop_file": "theories/Props/C03.v",
    "proof_files": ["theories/Proofs/FullProofs.v", "theories/Proofs/CallProofs.v", "theories/Proofs/FunsProofs.v", "theories/Proofs/ExecProofs.v", "theories/Proofs/IndexProofs.v", "theories/Proofs/ValueProofs.v", "theories/Proofs/ScalarProofs.v"],
    "gen": gen,
    "normalize": norm_exec,
    "nontrivial": nontrivial,
    "distribution": distribution,
    "rule": "calls to the harness function library nested to depth 3 with field / index-path / literal / nested-call / "
            "logical arguments, map-each first arguments, optional parameters, concat; value expressions: concat over "
            "every tuple of 2..4 present/absent array and byte-string arguments (whole result compared), random calls "
            "evaluated as value expressions",
}
