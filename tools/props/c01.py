"""C01 — scalar comparisons and boolean logic."""
import langgen as lg
from vp import parse_sexp, to_sexp


def norm_exec(kind, out, line):
    """impl answers (ok <ast> r...): check the AST against the case's and drop it."""
    if kind != "impl" or not out.startswith("(ok "):
        return out
    try:
        o = parse_sexp(out)
        c = parse_sexp(line)
        if o[1] != c[3]:
            return "(ast-mismatch %s)" % to_sexp(o[1])
        return to_sexp([o[0]] + o[2:])
    except Exception as ex:  # pragma: no cover
        return "(unparsable %r)" % (ex,)


SCALAR_FIELDS = [f for f in lg.RICH_FIELDS if isinstance(f[1], str)]


def boundary_ctxs(rng, sch, n):
    out = []
    for _ in range(n):
        out.append(lg.gen_ctx(rng, sch, p_absent=rng.choice([0.0, 0.3, 0.6, 1.0])))
    return out


def gen(rng, tier):
    out = []
    nfilters = 1500 if tier == "quick" else 30000
    nctx = 8 if tier == "quick" else 16
    for nil_ne in (True, False):
        sch = lg.Scheme(SCALAR_FIELDS, [], [], nil_ne)
        # exhaustive operator x type x boundary crossing (single comparisons)
        for fi, (name, t, opt) in enumerate(sch.fields):
            if t == "bool":
                ops = ["istrue"]
            else:
                pool = {"int": [("i", v) for v in (lg.I64_MIN, -1, 0, 1, lg.I64_MAX)],
                        "bytes": [("s", v) for v in (b"", b"a", b"ab", b"\xff", b"b")],
                        "ip": [("v4", 0), ("v4", 0x0A000001), ("v4", 0xFFFFFFFF), ("v6", 0), ("v6", 0xFFFF0A000001),
                               ("v6", (1 << 128) - 1)]}[t]
                ops = [("ord", o, r) for o in ("eq", "ne", "ge", "le", "gt", "lt") for r in pool]
                if t == "int":
                    ops += [("band", v) for v in (0, 1, -1, lg.I64_MIN, 255)]
            for op in ops:
                ast = ("cmp", ("field", fi), op)
                vals_pool = {"int": [("i", v) for v in (lg.I64_MIN, -1, 0, 1, 255, lg.I64_MAX)],
                             "bytes": [("s", v) for v in (b"", b"a", b"ab", b"aa", b"\xff", b"b")],
                             "ip": [("v4", 0), ("v4", 0x0A000001), ("v4", 0xFFFFFFFF), ("v6", 0),
                                    ("v6", 0xFFFF0A000001), ("v6", (1 << 128) - 1)],
                             "bool": [("b", True), ("b", False)]}[t]
                ctxs = []
                base = lg.gen_ctx(rng, sch, p_absent=0.0)
                for v in vals_pool + ([None] if opt else []):
                    vals = list(base[1][1:])
                    vals[fi] = v
                    ctxs.append(lg.make_ctx(sch, vals, []))
                out.append(lg.exec_case(sch, ast, ctxs)[0])
        g = lg.Gen(rng, sch, features=(), max_depth=4)
        for _ in range(nfilters // 2):
            ast = g.gen_filter()
            ctxs = boundary_ctxs(rng, sch, nctx)
            out.append(lg.exec_case(sch, ast, ctxs, lg.Layout(rng))[0])
    return out


def nontrivial(line):
    return line.count("(comb ") + line.count("(not ") >= 2 or "none" in line or "9223372036854775807" in line


def distribution(lines):
    d = {"cases": len(lines), "with_comb": 0, "with_not": 0, "with_paren": 0, "and": 0, "or": 0, "xor": 0,
         "absent_ctx_values": 0}
    for l in lines:
        d["with_comb"] += "(comb " in l
        d["with_not"] += "(not " in l
        d["with_paren"] += "(paren " in l
        d["and"] += l.count("(comb and")
        d["or"] += l.count("(comb or")
        d["xor"] += l.count("(comb xor")
        d["absent_ctx_values"] += l.count(" none")
    return d


PROP = {
    "id": "C01",
    "prop_file": "theories/Props/C01.v",
    "proof_files": ["theories/Proofs/ScalarProofs.v", "theories/Parse/Climb.v", "theories/Proofs/RangeSetProofs.v", "theories/Proofs/C09Proofs.v"],
    "gen": gen,
    "normalize": norm_exec,
    "nontrivial": nontrivial,
    "distribution": distribution,
    "rule": "scalar scheme (Int/Bytes/Ip/Bool, optional and mandatory) x both nil-not-equal settings; exhaustive "
            "single comparisons: every operator x type x boundary literal x boundary/absent value; random filters in "
            "the parser's normal form (or > xor > and chains of 1-3 operands, not, parentheses, depth <= 4) with random "
            "alias and white-space layout x 8/16 contexts with every optional field present or absent. Compared: the "
            "AST the real parser returns vs the generated tree, and execute() vs model vs denotation. "
            "Non-trivial = >= 2 logical operators, or an absent value, or an i64 extreme.",
}
