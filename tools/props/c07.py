"""C07 — the AST and its JSON are a canonical image of filter structure."""
import itertools
import os

import langgen as lg
from props.c01 import SCALAR_FIELDS
from props.c04 import fix_inlist, normal_form, renderable
from vp import parse_sexp, to_sexp

FEATURES = ("index", "each", "quant", "oneof", "call", "vec", "inlist", "mapbool", "regex")
LOG_LEVEL = {"or": 1, "xor": 2, "and": 3}


# ---------------------------------------------------------------- layouts

class CountLayout(lg.Layout):
    """canonical layout that counts the alias choices a rendering makes"""

    def __init__(self):
        super().__init__(None)
        self.n = 0

    def alias(self, op):
        self.n += 1
        return lg.ALIASES[op][0]


class ScriptLayout(lg.Layout):
    """alias of the i-th operator occurrence taken from a bit vector; white space random (or canonical)"""

    def __init__(self, bits, rng=None):
        super().__init__(rng)
        self.bits = list(bits)
        self.i = 0

    def alias(self, op):
        b = self.bits[self.i] if self.i < len(self.bits) else 0
        self.i += 1
        return lg.ALIASES[op][b]


def count_aliases(sch, e):
    c = CountLayout()
    lg.render_lexpr(sch, e, c)
    return c.n


def layouts_for(rng, sch, e, k):
    """k renderings: the canonical one, then every alias vector when there are few operator occurrences
    (else random vectors), each with a random white-space layout"""
    n = count_aliases(sch, e)
    texts = [lg.render_lexpr(sch, e, lg.Layout())]
    if n and 2 ** n <= k:
        vecs = list(itertools.product((0, 1), repeat=n))
        rng.shuffle(vecs)
    else:
        vecs = [[rng.randrange(2) for _ in range(n)] for _ in range(k)]
        if n:
            vecs[0] = [1] * n  # the all-symbolic spelling always appears
    for v in vecs:
        if len(texts) >= k:
            break
        texts.append(lg.render_lexpr(sch, e, ScriptLayout(v, rng)))
    while len(texts) < k:
        texts.append(lg.render_lexpr(sch, e, lg.Layout(rng)))
    return texts


def same_case(sch, e, texts):
    return to_sexp(("c07-same", sch.sexp(), e) + tuple(t.encode() for t in texts))


def distinct_case(rng, sch, e1, e2):
    t1 = lg.render_lexpr(sch, e1, lg.Layout(rng))
    t2 = lg.render_lexpr(sch, e2, lg.Layout(rng))
    return to_sexp(("c07-distinct", sch.sexp(), e1, t1.encode(), e2, t2.encode()))


# ---------------------------------------------------------------- structural mutations (one change)

def subterms(e, p=()):
    if isinstance(e, tuple):
        yield p, e
        for i, x in enumerate(e):
            yield from subterms(x, p + (i,))


def replace(e, p, new):
    if not p:
        return new
    return e[:p[0]] + (replace(e[p[0]], p[1:], new),) + e[p[0] + 1:]


def is_nf(e, parent=0):
    """the parser's normal form: an operand of a chain binds tighter than the chain (or is not a chain),
    a chain has >= 2 items"""
    if not isinstance(e, tuple) or not e:
        return True
    if e[0] == "comb":
        lvl = LOG_LEVEL[e[1]]
        if lvl <= parent or len(e) < 4:
            return False
        return all(is_nf(x, lvl) for x in e[2:])
    if e[0] in ("paren", "ql"):
        return is_nf(e[-1], 0)
    if e[0] == "not":
        return e[1][0] != "comb" and is_nf(e[1], 0)
    if e[0] == "cmp":
        return is_nf(e[1], 0)
    if e[0] == "call":
        return all(is_nf(a[1], 0) for a in e[2] if a[0] in ("al", "ai"))
    if e[0] == "qi":
        return is_nf(e[2], 0)
    return True


def other(rng, pool, cur):
    return rng.choice([x for x in pool if x != cur])


def mutate_rhs(rng, r):
    tag, v = r[0], r[1]
    if tag == "i":
        return ("i", other(rng, lg.INT_POOL + [v + 1 if v < lg.I64_MAX else v - 1], v))
    if tag == "s":
        nv = other(rng, lg.BYTES_POOL + [v + b"x"], v)
        # keep the notation class: hex-pair notation needs >= 1 byte; raw strings need UTF-8 without the delimiter
        if len(r) > 2 and r[2] == "byte" and len(nv) >= 2:
            return ("s", nv, "byte")
        if len(r) > 2 and r[2] != "byte" and lg.raw_ok(nv, r[2][1]):
            return ("s", nv, r[2])
        return ("s", nv)
    if tag == "v4":
        return ("v4", other(rng, lg.V4_POOL + [v ^ 1], v))
    return ("v6", other(rng, lg.V6_POOL + [v ^ 1], v))


def mutations(rng, sch, e):
    """yields (kind, mutant) candidates, each one structural change away from e"""
    subs = list(subterms(e))
    rng.shuffle(subs)
    for p, x in subs:
        if not x:
            continue
        k = x[0]
        if k == "comb":
            # operator of a chain
            yield "logical-op", replace(e, p, ("comb", other(rng, ["or", "xor", "and"], x[1])) + x[2:])
            # association: group two neighbours in parentheses
            if len(x) >= 5:
                i = rng.randrange(2, len(x) - 1)
                yield "association", replace(e, p, x[:i] + (("paren", ("comb", x[1], x[i], x[i + 1])),) + x[i + 2:])
            # order of operands
            if x[2] != x[3]:
                yield "operand-order", replace(e, p, x[:2] + (x[3], x[2]) + x[4:])
            # one operand less
            if len(x) >= 5:
                yield "chain-length", replace(e, p, x[:-1])
        elif k == "paren":
            if x[1][0] == "comb":
                yield "double-paren", replace(e, p, ("paren", x))
        elif k == "not":
            yield "double-not", replace(e, p, ("not", x))
        elif k in ("qi", "ql"):
            yield "quantifier", replace(e, p, (k, "all" if x[1] == "any" else "any") + x[2:])
        elif k == "cmp":
            op = x[2]
            if op == "istrue":
                if len(p) == 0 or True:
                    yield "not", replace(e, p, ("not", x))
                continue
            ok = op[0]
            if ok == "ord":
                yield "ordering-op", replace(e, p, ("cmp", x[1], ("ord", other(rng, ["eq", "ne", "ge", "le", "gt", "lt"], op[1]), op[2])))
                yield "literal", replace(e, p, ("cmp", x[1], ("ord", op[1], mutate_rhs(rng, op[2]))))
            elif ok == "band":
                yield "literal", replace(e, p, ("cmp", x[1], ("band", other(rng, lg.INT_POOL, op[1]))))
                yield "comparison-op", replace(e, p, ("cmp", x[1], ("ord", "eq", ("i", op[1]))))
            elif ok == "contains":
                yield "literal", replace(e, p, ("cmp", x[1], ("contains", op[1] + b"z") + op[2:]))
                if len(op) == 2:
                    yield "comparison-op", replace(e, p, ("cmp", x[1], ("ord", "eq", ("s", op[1]))))
            elif ok == "matches":
                yield "literal", replace(e, p, ("cmp", x[1], ("matches", op[1] + b"z") + op[2:]))
            elif ok == "wildcard":
                yield "comparison-op", replace(e, p, ("cmp", x[1], ("wildcard", not op[1]) + op[2:]))
                yield "literal", replace(e, p, ("cmp", x[1], ("wildcard", op[1], op[2] + b"z") + op[3:]))
            elif ok == "in-int":
                items = list(op[1])
                if items:
                    i = rng.randrange(len(items))
                    a, b = items[i]
                    if b < lg.I64_MAX:
                        yield "literal", replace(e, p, ("cmp", x[1], ("in-int", tuple(items[:i] + [(a, b + 1)] + items[i + 1:]))))
                    yield "list-length", replace(e, p, ("cmp", x[1], ("in-int", tuple(items[:i] + items[i + 1:]))))
                    if len(items) >= 2 and items[0] != items[1]:
                        yield "list-order", replace(e, p, ("cmp", x[1], ("in-int", tuple([items[1], items[0]] + items[2:]))))
                else:
                    yield "list-length", replace(e, p, ("cmp", x[1], ("in-int", ((0, 0),))))
            elif ok == "in-bytes":
                items = list(op[1])
                yield "list-length", replace(e, p, ("cmp", x[1], ("in-bytes", tuple(items + [b"zz"]))))
                if items:
                    yield "list-length", replace(e, p, ("cmp", x[1], ("in-bytes", tuple(items[1:]))))
            elif ok == "in-ip":
                items = list(op[1])
                yield "list-length", replace(e, p, ("cmp", x[1], ("in-ip", tuple(items + [("c4", 0x0A000000, 8)]))))
                for i, it in enumerate(items):
                    if it[0] in ("c4", "c6") and it[2] > 0:
                        # same network address, shorter prefix: a different block
                        yield "literal", replace(e, p, ("cmp", x[1], ("in-ip", tuple(items[:i] + [(it[0], 0, it[2] - 1 if it[1] == 0 else 0)] + items[i + 1:]))))
                        break
                    if it[0] in ("r4", "r6") and it[1] > 0:
                        yield "literal", replace(e, p, ("cmp", x[1], ("in-ip", tuple(items[:i] + [(it[0], it[1] - 1, it[2])] + items[i + 1:]))))
                        break
            elif ok == "inlist":
                yield "list-name", replace(e, p, ("cmp", x[1], ("inlist", op[1], other(rng, [b"l1", b"l2.x", b"empty_1", b"nope", b"l1x"], op[2]))))
        elif k == "field":
            idx = x[2:]
            for i, ix in enumerate(idx):
                if ix == "each":
                    continue
                if ix[0] == "a":
                    yield "index", replace(e, p, x[:2 + i] + (("a", other(rng, [0, 1, 2, 3, 5, 7, (1 << 32) - 1], ix[1])),) + x[3 + i:])
                else:
                    yield "index", replace(e, p, x[:2 + i] + (("k", other(rng, lg.KEY_POOL + [ix[1] + b"'"], ix[1])),) + x[3 + i:])
                break
            # another field of the same type
            t = sch.fields[x[1]][1]
            same = [j for j, f in enumerate(sch.fields) if f[1] == t and j != x[1]]
            if same:
                yield "identifier", replace(e, p, ("field", rng.choice(same)) + idx)
        elif k == "call":
            lib = sch.fns[x[1]][1]
            same = [j for j, f in enumerate(sch.fns) if lg.LIB[f[1]] == lg.LIB[lib] and lg.LIB[lib] is not None and j != x[1]]
            if same:
                yield "identifier", replace(e, p, ("call", rng.choice(same)) + x[2:])
            # one argument less: the variadic concat keeps >= 2, a function keeps its mandatory parameters
            args = x[2]
            sig = lg.LIB[lib]
            least = 2 if sig is None else len(sig[0])
            if len(args) > least:
                yield "argument-count", replace(e, p, ("call", x[1], tuple(args[:-1])) + x[3:])
            elif sig is None and args:
                # ... or one more (a copy of the last one: concat takes any number of arguments of one type)
                yield "argument-count", replace(e, p, ("call", x[1], tuple(args) + (args[-1],)) + x[3:])
        elif k == "lit":
            yield "literal", replace(e, p, ("lit", mutate_rhs(rng, x[1])))


def gen_distinct(rng, sch, e, only=None):
    for kind, m in mutations(rng, sch, e):
        if only is not None and kind != only:
            continue
        m = fix_inlist(sch, normal_form(m))
        if m == e or not is_nf(m) or not renderable(m):
            continue
        try:
            return kind, distinct_case(rng, sch, e, m)
        except Exception:
            continue
    return None


# ---------------------------------------------------------------- generator

MUT_KINDS = {}


def gen(rng, tier):
    out = []
    quick = tier == "quick"
    k = 4 if quick else 8
    plan = [
        # (scheme, features, depth, number of filters)
        (lg.Scheme(SCALAR_FIELDS, [], [], True), (), 4, 350 if quick else 3000),                  # C01
        (lg.rich_scheme(), ("index", "each", "quant", "oneof", "vec", "mapbool"), 3, 450 if quick else 4500),   # C02
        (lg.rich_scheme(), FEATURES, 3, 700 if quick else 7500),                                 # C03 (+ lists, regex)
    ]
    MUT_KINDS.clear()
    scale = float(os.environ.get("VERIF_C07_SCALE", "1"))   # smaller runs, e.g. while mutation-testing the check
    for sch, feats, depth, n in plan:
        n = max(1, int(n * scale))
        g = lg.Gen(rng, sch, features=feats, max_depth=depth)
        for i in range(n):
            e = fix_inlist(sch, normal_form(g.gen_filter()))
            if not renderable(e):
                continue
            out.append(same_case(sch, e, layouts_for(rng, sch, e, k)))
            if i % 2 == 0:
                d = gen_distinct(rng, sch, e)
                if d:
                    MUT_KINDS[d[0]] = MUT_KINDS.get(d[0], 0) + 1
                    out.append(d[1])
    # pairs that differ in the number of arguments of one call (the rarest kind among the random picks above)
    sch = lg.rich_scheme()
    g = lg.Gen(rng, sch, features=FEATURES, max_depth=3)
    want, tries = (40 if quick else 400), 0
    while want > 0 and tries < 20000:
        tries += 1
        e = fix_inlist(sch, normal_form(g.gen_filter()))
        if not renderable(e) or "'call'" not in repr(e):
            continue
        d = gen_distinct(rng, sch, e, only="argument-count")
        if d:
            MUT_KINDS[d[0]] = MUT_KINDS.get(d[0], 0) + 1
            out.append(d[1])
            want -= 1
    out += notation_pairs(rng)
    return out


def notation_pairs(rng):
    """the same regex in quoted and raw notation (and with different numbers of #): the JSON does not carry the
       notation, so the documents and hashes must be equal; where the implementation's own `==` calls the two ASTs
       equal, its std Hash must agree too (checked on the implementation side)"""
    out = []
    sch = lg.rich_scheme()
    fstr = sch.field_index("str")
    for pat in lg.REGEX_POOL:
        forms = [("matches", pat)] + [("matches", pat, ("raw", n)) for n in (1, 2, 3)]
        if b'"' not in pat:
            forms.append(("matches", pat, ("raw", 0)))
        for i in range(len(forms)):
            for j in range(i + 1, len(forms)):
                e1 = ("cmp", ("field", fstr), forms[i])
                e2 = ("cmp", ("field", fstr), forms[j])
                out.append(distinct_case(rng, sch, e1, e2))
                out.append(distinct_case(rng, sch, ("not", e1), ("comb", "and", e2, ("cmp", ("field", sch.field_index("tt")), "istrue"))))
    return out


def case_texts(line):
    """the renderings of a c07-same case"""
    return [x for x in parse_sexp(line)[3:] if isinstance(x, bytes)]


def nontrivial(line):
    if line.startswith("(c07-distinct"):
        return True
    if line.startswith("(c07-same"):
        # at least two different texts
        return len(set(case_texts(line))) >= 2
    return True


def distribution(lines):
    d = {"same": 0, "distinct": 0, "directed": 0, "layouts": 0, "with_comb": 0, "with_call": 0, "with_each": 0,
         "with_quant": 0, "with_regex_or_wildcard": 0, "with_in_list": 0}
    for l in lines:
        if l.startswith("(c07-same"):
            d["same"] += 1
            d["layouts"] += len(case_texts(l))
        elif l.startswith("(c07-distinct"):
            d["distinct"] += 1
        else:
            d["directed"] += 1
        d["with_comb"] += "(comb " in l
        d["with_call"] += "(call " in l
        d["with_each"] += " each" in l
        d["with_quant"] += "(ql " in l or "(qi " in l
        d["with_regex_or_wildcard"] += "(matches " in l or "(wildcard " in l
        d["with_in_list"] += "(in-int" in l or "(in-ip" in l or "(in-bytes" in l or "(inlist" in l
    d["mutation_kinds"] = dict(MUT_KINDS)
    return d


PROP = {
    "id": "C07",
    "prop_file": "theories/Props/C07.v",
    "proof_files": ["theories/Proofs/AstJsonProofs.v", "theories/Proofs/JsonPrintProofs.v", "theories/Proofs/AstJsonInj.v",
                    "theories/Proofs/IpTextInj.v", "theories/Proofs/LitsTyped.v", "theories/Proofs/LayoutProofs.v",
                    "theories/Proofs/C07Proofs.v", "theories/Proofs/IpsProofs.v"],
    "gen": gen,
    "nontrivial": nontrivial,
    "distribution": distribution,
    "vm_sample": (24, 40),   # a c07-same case carries k renderings: keep the vm_compute files small
    "rule": "typed filters of the C01 (scalar), C02 (indexes, [*], any/all, bool arrays, in {..}) and C03 (function calls, "
            "lists, matches/wildcard) generators in the parser's normal form; each rendered 4 (quick) / 8 (thorough) times: "
            "the canonical text, then every alias vector when 2^occurrences <= k (else random vectors incl. all-symbolic) "
            "with random white space / line breaks and literal notations; all renderings must give one AST (s-expression, "
            "Rust ==, derived Hash), one JSON text (serde_json::to_string = C API) and one C-API hash, equal to the model's "
            "(parser model + json_of_lexpr + jprint + fnv1a64) and to the canonical document computed from the generated AST. "
            "Every second filter is paired with a mutant one structural change away (operator, literal, index, identifier, "
            "association, operand order, list item, quantifier, not/parentheses); the two JSON texts must differ. "
            "Non-trivial = a pair, or a case with >= 2 distinct renderings.",
    "assumptions": ["Display of std::net addresses and of cidr blocks, serde's RangeInclusive form and serde_json's compact "
                    "writer are modelled (ip_text, cidr_text, jprint) and validated by the correspondence only",
                    "injectivity of the document is proved for well-typed filters (wt_filter => lits_typed) whose address "
                    "literals are 32/128-bit values (ips_ok; not proved of the parser model, true of Rust's address types)",
                    "alias / white-space invariance is proved for the operator tables and at the token boundaries of the "
                    "parser model (theorems ..._partial); over whole filters (C07_full) it is covered by this check only"],
}
