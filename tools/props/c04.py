"""C04 — parsing accepts exactly the well-typed filters; accepted ones never fail later."""
import itertools

import langgen as lg
from props.c01 import norm_exec
from vp import parse_sexp, to_sexp


def norm(kind, out, line):
    if line.startswith("(exec"):
        return norm_exec(kind, out, line)
    return out


def normal_form(e):
    """`any(x)` with a bare boolean-array value is an index-expression argument"""
    if not isinstance(e, tuple):
        return e
    e = tuple(normal_form(x) for x in e)
    if e and e[0] == "ql" and e[2][0] == "cmp" and e[2][2] == "istrue":
        return ("qi", e[1], e[2][1])
    return e


def py_type(sch, ie):
    """static type of an index expression (None if ill-formed): enough to pick the list of an `in $name`"""
    if ie[0] == "field":
        return lg.ty_index(sch.fields[ie[1]][1], ie[2:])
    if ie[0] == "call":
        lib = sch.fns[ie[1]][1]
        sig = lg.LIB[lib]
        args = ie[2]
        if sig is None:
            if not args or args[0][0] != "ai":
                ret = "bytes" if args and args[0][0] == "lit" else None
            else:
                ret = py_type(sch, args[0][1])
        else:
            ret = sig[2]
        if ret is None:
            return None
        if args and args[0][0] == "ai" and "each" in args[0][1]:
            ret = ("array", ret)
        return lg.ty_index(ret, ie[3:])
    return None


def fix_inlist(sch, e):
    """the list index of `x in $name` is not written in the text: it is the list registered for x's type"""
    if not isinstance(e, tuple) or not e:
        return e
    e = tuple(fix_inlist(sch, x) for x in e)
    if e[0] == "cmp" and isinstance(e[2], tuple) and e[2][0] == "inlist":
        t = py_type(sch, e[1])
        li = sch.list_index(t) if isinstance(t, str) else None
        if li is not None:
            return ("cmp", e[1], ("inlist", li, e[2][2]))
    if e[0] == "cmp" and isinstance(e[2], tuple) and e[2][0] in ("in-int", "in-ip", "in-bytes") and not e[2][1]:
        # an empty brace list carries no type in the text
        t = py_type(sch, e[1])
        k = {"int": "in-int", "ip": "in-ip", "bytes": "in-bytes"}.get(t if isinstance(t, str) else None)
        if k:
            return ("cmp", e[1], (k, ()))
    return e


def renderable(e):
    """constraints of the concrete syntax that are not typing rules: a logical expression used as an argument
    (of any()/all() or of a function) must be a single comparison or start with '(' / not / a quantifier"""
    if not isinstance(e, tuple) or not e:
        return True
    if e[0] == "ql" and not lg.arg_logical_ok(e[2]):
        return False
    if e[0] == "al" and not lg.arg_logical_ok(e[1]):
        return False
    if e[0] == "al" and e[1][0] == "cmp" and e[1][2] == "istrue":
        return False  # a bare value is an index-expression argument
    return all(renderable(x) for x in e)


def typecheck_case(sch, ast, lay=None, kind="typecheck"):
    ast = fix_inlist(sch, normal_form(ast))
    text = (lg.render_lexpr if kind == "typecheck" else lg.render_iexpr)(sch, ast, lay or lg.Layout())
    return to_sexp((kind, sch.sexp(), text.encode(), ast))


OPS_ALL = ["istrue", ("ord", "eq", ("i", 1)), ("ord", "lt", ("s", b"a")), ("ord", "ne", ("v4", 1)), ("band", 3),
           ("contains", b"a"), ("in-int", ((1, 2),)), ("in-bytes", (b"a",)), ("in-ip", (("c4", 0, 8),)),
           ("inlist", 0, b"l1"), ("inlist", 1, b"l1"), ("inlist", 2, b"l1")]


def mutate(rng, sch, e):
    """returns a (probably ill-typed) variant of the AST"""
    kind = rng.randrange(8)
    paths = []

    def walk(x, p):
        if isinstance(x, tuple):
            paths.append((p, x))
            for i, y in enumerate(x):
                walk(y, p + (i,))

    walk(e, ())

    def replace(x, p, new):
        if not p:
            return new
        return x[:p[0]] + (replace(x[p[0]], p[1:], new),) + x[p[0] + 1:]

    cmps = [(p, x) for p, x in paths if x and x[0] == "cmp"]
    fields = [(p, x) for p, x in paths if x and x[0] == "field"]
    calls = [(p, x) for p, x in paths if x and x[0] == "call"]
    combs = [(p, x) for p, x in paths if x and x[0] == "comb"]
    if kind == 0 and cmps:
        p, x = rng.choice(cmps)
        return replace(e, p, ("cmp", x[1], rng.choice([o for o in OPS_ALL if o[0] != "inlist"])))
    if kind == 1 and fields:
        p, x = rng.choice(fields)
        idx = list(x[2:])
        r = rng.random()
        if idx and r < 0.4:
            i = rng.randrange(len(idx))
            idx[i] = rng.choice([("a", 0), ("k", b"a"), "each"])
        elif r < 0.7:
            idx.append(rng.choice([("a", 0), ("k", b"a"), "each"]))
        elif idx:
            idx.pop()
        return replace(e, p, x[:2] + tuple(idx))
    if kind == 2 and fields:
        p, x = rng.choice(fields)
        return replace(e, p, ("field", rng.randrange(len(sch.fields))) + x[2:])
    if kind == 3 and calls:
        p, x = rng.choice(calls)
        args = list(x[2])
        r = rng.random()
        if args and r < 0.35:
            args.pop(rng.randrange(len(args)))
        elif r < 0.7:
            args.insert(rng.randrange(len(args) + 1),
                        rng.choice([("lit", ("i", 5)), ("lit", ("s", b"zz")), ("ai", ("field", rng.randrange(len(sch.fields)))),
                                    ("ai", ("field", sch.field_index("strs"), "each"))]))
        elif args:
            i = rng.randrange(len(args))
            args[i] = rng.choice([("lit", ("i", 5)), ("lit", ("s", b"zz")), ("lit", ("v4", 7)),
                                  ("ai", ("field", rng.randrange(len(sch.fields))))])
        return replace(e, p, x[:2] + (tuple(args),) + x[3:])
    if kind == 4 and calls:
        p, x = rng.choice(calls)
        return replace(e, p, ("call", rng.randrange(len(sch.fns))) + x[2:])
    if kind == 5 and combs:
        p, x = rng.choice(combs)
        g = lg.Gen(rng, sch, features=("index", "each", "quant", "call", "vec", "oneof"), max_depth=2)
        other = g.gen_simple(rng.random() < 0.5, 1)
        if other:
            items = list(x[2:])
            items[rng.randrange(len(items))] = other
            return replace(e, p, x[:2] + tuple(items))
    if kind == 6:
        g = lg.Gen(rng, sch, features=("index", "each", "quant", "call", "vec", "oneof"), max_depth=2)
        v = g.gen_logical(True, 1)
        if v:
            return v  # a boolean-array expression at top level
    if kind == 7 and cmps:
        p, x = rng.choice(cmps)
        q = rng.choice(["any", "all"])
        return replace(e, p, ("ql", q, x))
    return e


def rng_free_choice(i):
    return "any" if i % 2 == 0 else "all"


def matrices(sch):
    """the finite matrices: (left type x operator x literal kind), (container x index kind)"""
    out = []
    for fi, (name, t, opt) in enumerate(sch.fields):
        shapes = [idx for n in range(0, 4) for idx in itertools.product([("a", 0), ("k", b"a"), "each"], repeat=n)]
        for idx in shapes:
            ft = lg.ty_index(t, idx)
            for op in OPS_ALL:
                if op[0] == "inlist":
                    # the list index is determined by the left type (it is not written in the text)
                    li = sch.list_index(ft) if ft is not None else None
                    if op[1] != (li if li is not None else 0):
                        continue
                out.append(typecheck_case(sch, ("cmp", ("field", fi) + idx, op)))
    # the same comparisons under a quantifier, where the root is Bool whatever the operand's shape:
    # any(not X), all((X)) for every index sequence (a bare boolean container behind a non-trailing [*], an
    # array-lifted comparison, a plain scalar ...)
    for fi, (name, t, opt) in enumerate(sch.fields):
        for idx in shapes:
            ft = lg.ty_index(t, idx)
            for op in ["istrue", ("ord", "eq", ("i", 1)), ("ord", "lt", ("s", b"a"))]:
                c = ("cmp", ("field", fi) + idx, op)
                out.append(typecheck_case(sch, ("ql", "any", ("not", c))))
                out.append(typecheck_case(sch, ("ql", "all", ("paren", c))))
    # operand type pairs x logical operator
    leaves = [("cmp", ("field", sch.field_index("tt")), "istrue"),
              ("cmp", ("field", sch.field_index("bools")), "istrue"),
              ("cmp", ("field", sch.field_index("flags")), "istrue"),
              ("cmp", ("field", sch.field_index("nums"), "each"), ("ord", "eq", ("i", 1))),
              ("cmp", ("field", sch.field_index("num")), ("ord", "eq", ("i", 1))),
              ("not", ("cmp", ("field", sch.field_index("bools")), "istrue")),
              ("paren", ("cmp", ("field", sch.field_index("grid"), ("a", 0)), "istrue")),
              ("ql", "any", ("cmp", ("field", sch.field_index("strs"), "each"), ("contains", b"a")))]
    for a, b in itertools.product(leaves, repeat=2):
        for op in ("and", "or", "xor"):
            out.append(typecheck_case(sch, ("comb", op, a, b)))
        for q in ("any", "all"):
            if lg.arg_logical_ok(a):
                out.append(typecheck_case(sch, ("ql", q, a)))
    # quantifier over index expressions
    for fi, (name, t, opt) in enumerate(sch.fields):
        for n in range(0, 3):
            for idx in itertools.product([("a", 0), ("k", b"a"), "each"], repeat=n):
                out.append(typecheck_case(sch, ("qi", rng_free_choice(len(out)), ("field", fi) + tuple(idx))))
    # function signature x argument shape
    argpool = [("lit", ("i", 5)), ("lit", ("s", b"x")), ("lit", ("v4", 1)),
               ("ai", ("field", sch.field_index("str"))), ("ai", ("field", sch.field_index("num"))),
               ("ai", ("field", sch.field_index("strs"))), ("ai", ("field", sch.field_index("strs"), "each")),
               ("ai", ("field", sch.field_index("bools"))), ("ai", ("field", sch.field_index("flags"))),
               ("ai", ("field", sch.field_index("tt"))), ("ai", ("field", sch.field_index("ip.src"))),
               ("ai", ("field", sch.field_index("nums"))),
               ("al", ("paren", ("cmp", ("field", sch.field_index("tt")), "istrue"))),
               ("al", ("paren", ("cmp", ("field", sch.field_index("bools")), "istrue"))),
               ("al", ("cmp", ("field", sch.field_index("num")), ("ord", "eq", ("i", 1))))]
    for fn in range(len(sch.fns)):
        for n in range(0, 4):
            for args in itertools.product(argpool, repeat=n) if n <= 2 else [tuple(argpool[i] for i in c) for c in
                                                                           itertools.combinations(range(len(argpool)), n)][:60]:
                out.append(typecheck_case(sch, ("call", fn, tuple(args)), kind="typecheck-value"))
    # value expressions with [*]
    for fi, (name, t, opt) in enumerate(sch.fields):
        # every index sequence up to length 3 over {[0], ["a"], [*]}: [*] in leading, middle and trailing position
        steps = [("a", 0), ("k", b"a"), "each"]
        for n in range(0, 4):
            for idx in itertools.product(steps, repeat=n):
                out.append(typecheck_case(sch, ("field", fi) + tuple(idx), kind="typecheck-value"))
    return out


def gen(rng, tier):
    out = []
    sch = lg.rich_scheme()
    out += matrices(sch)
    n = 3000 if tier == "quick" else 60000
    g = lg.Gen(rng, sch, features=("index", "each", "quant", "oneof", "call", "vec", "inlist", "mapbool"), max_depth=3)
    for i in range(n):
        e = g.gen_filter()
        if i % 3 != 0:
            e = mutate(rng, sch, e)
            if rng.random() < 0.3:
                e = mutate(rng, sch, e)
            if not renderable(normal_form(e)):
                continue
            try:
                out.append(typecheck_case(sch, e, lg.Layout(rng)))
            except Exception:
                continue
        else:
            # accepted programs are executed: never panic, results per model/spec
            ctxs = [lg.gen_ctx(rng, sch, p_absent=rng.choice([0.0, 0.3, 0.7])) for _ in range(4)]
            out.append(lg.exec_case(sch, e, ctxs, lg.Layout(rng))[0])
    return out


def nontrivial(line):
    return True


def distribution(lines):
    return {"typecheck": sum(l.startswith("(typecheck ") for l in lines),
            "typecheck_value": sum(l.startswith("(typecheck-value") for l in lines),
            "exec": sum(l.startswith("(exec ") for l in lines)}


PROP = {
    "id": "C04",
    "prop_file": "theories/Props/C04.v",
    "proof_files": ["theories/Proofs/FullProofs.v", "theories/Proofs/CallProofs.v", "theories/Proofs/ExecProofs.v",
                    "theories/Proofs/IndexProofs.v", "theories/Proofs/ValueProofs.v", "theories/Proofs/ScalarProofs.v",
                    "theories/Proofs/ParserClosed.v", "theories/Proofs/ParserProofs.v", "theories/Proofs/LexFacts.v",
                    "theories/Proofs/TypingProofs.v"],
    "gen": gen,
    "normalize": norm,
    "nontrivial": nontrivial,
    "distribution": distribution,
    "exhaustive": True,
    "rule": "exhaustive finite matrices through the real parser vs the typing rules wt_*: every field (22 types incl. "
            "containers to depth 3) x all 40 index sequences up to length 3 over {[0], [\"a\"], [*]} x 12 operator/literal kinds; 8x8 operand-type pairs x 3 logical "
            "operators; quantifier arguments; every library function x argument tuples of length 0..3 over a 15-argument "
            "pool; value expressions with/without [*]. Random: well-typed filters and 1-2-step mutants (operator, index "
            "kind, field, arity, argument kind/type, [*] position, operand type, quantifier) compared on accept/reject and, "
            "when accepted, on the AST; every third program is executed on 4 contexts (never panics, equals model/spec).",
}
