"""C10 — `contains` is exact substring search on every code path: generators and wiring.

Case:  (contains <anchor|none> #needle (#hay ...)) -> (ok b ...)
       (simd-active) -> (simd any)   [implementation prints (simd true|false); checked per mode in post()]
The implementation is run twice, in separate processes: WIREFILTER_USE_AVX2=1 and =0
(the latch is per process)."""
from vp import to_sexp, Sym

MAX_HAY = 300
# values of end = |hay| - |needle| + 1 around every lane-width threshold of
# Avx2Searcher::inlined_search_in (2/4/8/16/32) and around multiples of 16/32
ENDS = [2, 3, 4, 5, 7, 8, 9, 15, 16, 17, 23, 31, 32, 33, 47, 48, 49, 63, 64, 65, 95, 96, 97, 127, 128, 129, 255, 256]
BOUNDARIES = [16, 32, 48, 64, 96, 128, 256]

SIMD_CASE = "(simd-active)"


def case(anchor, needle, hays):
    return to_sexp((Sym("contains"), Sym("none") if anchor is None else anchor, bytes(needle), [bytes(h) for h in hays]))


def other(rng, alpha, b):
    """a letter of the alphabet different from b (or any other byte when the alphabet has one letter)"""
    c = [x for x in alpha if x != b]
    return rng.choice(c) if c else (b + 1) % 256


def rand_over(rng, alpha, n):
    return bytearray(rng.choice(alpha) for _ in range(n))


def absent(rng, alpha, needle, n):
    """n bytes over the alphabet in which the needle does not occur (false candidates stay)."""
    h = rand_over(rng, alpha, n)
    if not needle:
        return h
    nb = bytes(needle)
    for _ in range(4 * n + 8):
        i = bytes(h).find(nb)
        if i < 0:
            return h
        # break this occurrence at a byte that is neither the first nor (if possible) the only choice
        j = i + rng.randrange(len(nb))
        h[j] = other(rng, alpha, h[j])
    # degenerate alphabets: use a byte outside the needle
    out = next(x for x in range(256) if x not in nb)
    i = bytes(h).find(nb)
    while i >= 0:
        h[i + len(nb) - 1] = out
        i = bytes(h).find(nb)
    return h


def make_needle(rng, n, anchor, variant):
    """returns (needle, alphabet)"""
    if variant == 0:
        alpha = [0x61, 0x62]
    elif variant == 1:
        alpha = [0x61, 0x62, 0x63]
    elif variant == 2:      # periodic / single letter: every position is a candidate
        alpha = [0x61, 0x62]
        nd = bytearray([0x61] * n)
        if n > 2 and rng.random() < 0.5:
            nd[-1] = 0x62
        return nd, alpha
    elif variant == 3:      # arbitrary bytes including 0x00, 0xff, 0x80
        alpha = [0x00, 0xFF, 0x80, 0x7F, 0x22, 0x5C] + [rng.randrange(256) for _ in range(3)]
    elif variant == 4:      # first byte == anchor byte, rare elsewhere
        alpha = [0x61, 0x62, 0x63]
        nd = rand_over(rng, [0x62, 0x63], n)
        if n:
            nd[0] = 0x61
        if anchor is not None and 0 < anchor < n:
            nd[anchor] = 0x61
        return nd, alpha
    else:                   # two letters, long runs
        alpha = [0x78, 0x79]
        nd = bytearray()
        while len(nd) < n:
            nd += bytes([rng.choice(alpha)]) * rng.randrange(1, 6)
        return nd[:n], alpha
    return rand_over(rng, alpha, n), alpha


def haystacks(rng, needle, alpha, anchor, tier):
    n = len(needle)
    nd = bytes(needle)
    a = anchor if (anchor is not None and 0 < anchor < n) else (n - 1 if n else 0)
    hs = []

    def add(h):
        h = bytes(h)
        if len(h) <= MAX_HAY:
            hs.append(h)

    def fill(k):
        return absent(rng, alpha, nd, max(0, k))

    # short haystacks: the `haystack.len() <= needle.size()` shortcut and its neighbours
    add(b"")
    add(nd)
    if n:
        add(nd[:-1])
        add(nd[1:])
        add(nd + bytes([rng.choice(alpha)]))
        add(bytes([rng.choice(alpha)]) + nd)
        x = bytearray(nd)
        j = rng.randrange(n)
        x[j] = other(rng, alpha, x[j])
        add(x)
    # pattern absent / at offset 0 / at the very end, for every lane-width regime
    ends = ENDS if tier == "thorough" else rng.sample(ENDS, 9) + [2, 16, 32, 33]
    for e in ends:
        hl = e + n - 1
        if hl > MAX_HAY or hl < 0:
            continue
        kinds = [0, 2, rng.choice([1, 3])] if tier == "thorough" else [rng.choice([0, 0, 1, 2, 2, 3])]
        for kind in kinds:
            if kind == 0 or n == 0:
                add(fill(hl))                                    # absent
            elif kind == 1:
                add(nd + fill(hl - n))                           # offset 0
            elif kind == 2:
                add(fill(hl - n) + nd)                           # the very end: last lane of the last chunk
            else:
                # match only in the remainder chunk, at one of the last lanes of the re-read
                p = max(0, e - 1 - rng.randrange(0, min(e, 4)))
                add(fill(p) + nd + fill(hl - n - p))
    if n:
        # straddling 16- and 32-byte boundaries
        bs = BOUNDARIES if tier == "thorough" else rng.sample(BOUNDARIES, 3)
        for b in bs:
            for p in {b - 1, b - n + 1 if b - n + 1 >= 0 else 0, max(0, b - (n // 2)), b}:
                tail = rng.choice([0, 1, 5, 17, 33])
                if p + n + tail <= MAX_HAY:
                    x = bytearray(nd)
                    if rng.random() < 0.5:      # near-miss across the boundary instead of a match
                        j = rng.choice([0, n - 1, a])
                        x[j] = other(rng, alpha, x[j])
                    add(fill(p) + x + fill(tail))
        # near-misses: first / last / anchor byte differs; placed at the end, at a boundary, at 0
        for pos in {0, n - 1, a}:
            x = bytearray(nd)
            x[pos] = other(rng, alpha, x[pos])
            pre = rng.choice([0, 1, 15, 16, 17, 31, 32, 33, 63, 100])
            post = rng.choice([0, 0, 1, 7, 31])
            if pre + n + post <= MAX_HAY:
                add(fill(pre) + x + fill(post))
        # many false candidates: first byte and anchor byte right, something else wrong
        if n >= 3:
            k = rng.choice([40, 100, 200])
            h = bytearray()
            while len(h) + n <= k:
                x = bytearray(nd)
                j = rng.choice([i for i in range(1, n) if i != a] or [n - 1])
                x[j] = other(rng, alpha, x[j])
                h += x
            add(h)
            add(h + nd)
        # a long run of the first byte
        add(bytes([nd[0]]) * rng.choice([31, 32, 33, 64, 299]))
    # plain random haystacks over the alphabet (matches wherever they fall)
    for _ in range(4 if tier == "thorough" else 2):
        add(rand_over(rng, alpha, rng.choice([1, 2, 3, 5, 9, 17, 31, 33, 64, 65, 127, 200, 300])))
    add(rand_over(rng, alpha, MAX_HAY))
    return hs


def gen(rng, tier):
    out = [SIMD_CASE]
    maxlen = 40 if tier == "thorough" else 20
    variants = 6 if tier == "thorough" else 3
    vcount = 0
    for n in range(0, maxlen + 1):
        anchors = list(range(1, n)) if n >= 2 else [None]
        for anchor in anchors:
            for _ in range(variants):
                v = vcount % 6
                vcount += 1
                nd, alpha = make_needle(rng, n, anchor, v)
                out.append(case(anchor, nd, haystacks(rng, nd, alpha, anchor, tier)))
        if n >= 2:
            # random anchor (no override), and values the hook ignores
            for anchor in (None, 0, n):
                nd, alpha = make_needle(rng, n, None, rng.randrange(6))
                out.append(case(anchor, nd, haystacks(rng, nd, alpha, None, tier)))
    # needle lengths far beyond the table of specialised sizes, around powers of two
    for n in (31, 32, 33, 48, 63, 64, 65, 100, 127, 128, 129, 255, 256, 257):
        for k in range(2 if tier == "thorough" else 1):
            anchor = rng.choice([None, None, 1, n // 2, n - 1])
            nd, alpha = make_needle(rng, n, anchor, rng.choice([0, 1, 3, 4, 5]))
            out.append(case(anchor, nd, haystacks(rng, nd, alpha, anchor, "quick")))
    out += sibling_families(rng, tier)
    return out


def sibling_families(rng, tier):
    """Needles that are close relatives of each other, compiled one after the other in the same process and each run
    on haystacks that hold every member of the family: a searcher must answer for its own needle whatever was
    compiled before it.  Relatives differ in one byte (another non-ASCII byte, the other letter case, one bit), or
    are each other's prefix / extension."""
    out = []
    fams = 24 if tier == "thorough" else 8
    pools = [
        [0xFF, 0xFE, 0x80, 0x81, 0xC0, 0xC3, 0xA9, 0xEF, 0xBF, 0xBD, 0xF0, 0x9F],   # UTF-8 lead / continuation / invalid
        [0x41, 0x61, 0x5A, 0x7A, 0x4B, 0x6B],                                       # letter case
        [0x00, 0x01, 0x20, 0x09, 0x0A, 0x7F, 0x30, 0x31],                           # controls, space, digits
    ]
    for f in range(fams):
        pool = pools[f % len(pools)]
        n = rng.choice([2, 2, 3, 4, 5, 8, 17])
        base = bytearray(rng.choice(pool) if rng.random() < 0.7 else rng.choice([0x61, 0x62]) for _ in range(n))
        members = [bytes(base)]
        for _ in range(4):
            x = bytearray(base)
            j = rng.randrange(n)
            k = rng.random()
            if k < 0.5:
                x[j] = other(rng, pool, x[j])
            elif k < 0.7:
                x[j] ^= 1 << rng.randrange(8)
            elif k < 0.85:
                x = x + bytes([rng.choice(pool)])
            else:
                x = x[:-1] if len(x) > 2 else x + bytes([rng.choice(pool)])
            if bytes(x) not in members:
                members.append(bytes(x))
        hays = [b""]
        for m in members:
            hays.append(m)
            hays.append(b"ab" + m + b"cd")
            hays.append(bytes([0x61]) * rng.choice([15, 16, 31, 32, 33]) + m)
            hays.append(m + bytes([0x62]) * rng.choice([1, 17, 40]))
        for m in members:
            out.append(case(None, bytearray(m), hays))
    return out


def _parse(line):
    # (contains A #needle (#h ...))
    toks = line.replace("(", " ").replace(")", " ").split()
    if not toks or toks[0] != "contains":
        return None
    anchor = None if toks[1] == "none" else int(toks[1])
    needle = bytes.fromhex(toks[2][1:])
    hays = [bytes.fromhex(t[1:]) for t in toks[3:]]
    return anchor, needle, hays


def nontrivial(line):
    p = _parse(line)
    return bool(p) and len(p[1]) >= 2 and len(p[2]) >= 2


def width_of(end):
    for lim, w in ((2, None), (4, 2), (8, 4), (16, 8), (32, 16)):
        if end < lim:
            return w
    return 32


def distribution(lines):
    d = {"cases": 0, "haystacks": 0, "expected_true": 0, "expected_false": 0,
         "needle_len_0": 0, "needle_len_1": 0, "needle_len_2_16": 0, "needle_len_17_plus": 0,
         "anchor_pairs": 0, "anchor_none_or_ignored": 0,
         "shortcut_hay_le_needle": 0, "match_only_at_last_offset": 0, "match_at_0": 0,
         "with_remainder_chunk": 0, "without_remainder_chunk": 0, "max_hay": 0}
    widths = {}
    pairs = set()
    for l in lines:
        p = _parse(l)
        if not p:
            continue
        anchor, nd, hays = p
        n = len(nd)
        d["cases"] += 1
        d["needle_len_0" if n == 0 else "needle_len_1" if n == 1 else
          "needle_len_2_16" if n <= 16 else "needle_len_17_plus"] += 1
        if anchor is not None and 1 <= anchor < n:
            pairs.add((n, anchor))
        else:
            d["anchor_none_or_ignored"] += 1
        for h in hays:
            d["haystacks"] += 1
            d["max_hay"] = max(d["max_hay"], len(h))
            i = h.find(nd)
            d["expected_true" if i >= 0 else "expected_false"] += 1
            if n >= 2:
                if len(h) <= n:
                    d["shortcut_hay_le_needle"] += 1
                else:
                    e = len(h) - n + 1
                    w = width_of(e)
                    widths[w] = widths.get(w, 0) + 1
                    d["with_remainder_chunk" if e % w else "without_remainder_chunk"] += 1
                    if i == e - 1:
                        d["match_only_at_last_offset"] += 1
                    if i == 0:
                        d["match_at_0"] += 1
    d["anchor_pairs"] = len(pairs)
    d["lane_width_used"] = {str(k): v for k, v in sorted(widths.items())}
    return d


def normalize(kind, out, case_line):
    if case_line == SIMD_CASE and kind == "impl" and out in ("(simd true)", "(simd false)"):
        return "(simd any)"
    return out


def post(ctx):
    """Which search path each implementation run really took (coverage only: never a verdict)."""
    cov = {"simd_active": {}, "paths_not_covered": []}
    try:
        i = ctx["lines"].index(SIMD_CASE)
    except ValueError:
        i = None
    for mode, outs in ctx["impl"].items():
        cov["simd_active"][mode] = outs[i] if i is not None else "not asked"
    seen = set(cov["simd_active"].values())
    cov["simd_path_covered"] = "(simd true)" in seen
    cov["scalar_path_covered"] = "(simd false)" in seen
    if not cov["simd_path_covered"]:
        cov["paths_not_covered"].append("SIMD (AVX2) path: no run reported simd_active() = true (avx2 run: %s) - the "
                                        "SIMD half is NOT covered by this run, only the scalar fallback was compared"
                                        % cov["simd_active"].get("avx2"))
    if not cov["scalar_path_covered"]:
        cov["paths_not_covered"].append("scalar (memmem) path: no run reported simd_active() = false (scalar run: %s) - "
                                        "the fallback is NOT covered by this run" % cov["simd_active"].get("scalar"))
    cov["env_switch_as_documented"] = (cov["simd_active"].get("avx2") == "(simd true)"
                                       and cov["simd_active"].get("scalar") == "(simd false)")
    return {"coverage": cov, "violations": []}


PROP = {
    "id": "C10",
    "prop_file": "theories/Props/C10.v",
    "proof_files": ["theories/Proofs/SearcherProofs.v"],
    "gen": gen,
    "nontrivial": nontrivial,
    "distribution": distribution,
    "normalize": normalize,
    "post": post,
    "modes": [{"name": "avx2", "env": {"WIREFILTER_USE_AVX2": "1"}, "release": False},
              {"name": "scalar", "env": {"WIREFILTER_USE_AVX2": "0"}, "release": False}],
    "exhaustive": False,
    "rule": "needle lengths 0..20 (quick) / 0..40 (thorough) x EVERY anchor 1..len-1 (forced through the hook; plus "
            "'none' = random anchor and two values the hook ignores) x 3 (quick) / 6 (thorough) needle shapes "
            "(2- and 3-letter alphabets, single-letter/periodic, arbitrary bytes incl. 00/ff, first byte == anchor byte, "
            "long runs) x 25-110 haystacks of length 0..300 per needle: empty, equal to the needle, shorter/longer by "
            "one, pattern absent (random text over the needle's alphabet with every occurrence broken, so false "
            "candidates remain), at offset 0, at the very end, in the re-read remainder chunk, for every value of "
            "end=|h|-|n|+1 around the lane-width thresholds 2/4/8/16/32 and multiples of 16/32, straddling 16/32/48/64/"
            "96/128/256-byte boundaries, near-misses differing in the first / last / anchor byte, strings made of false "
            "candidates (first and anchor byte right, another byte wrong), runs of the first byte, random text. One "
            "compilation per case, executed on every haystack, in two processes (WIREFILTER_USE_AVX2=1 / 0). The model "
            "line is computed on the SIMD path with the case's anchor and cross-checked inside the model against the "
            "scalar path (and, for 'none', against every anchor). Non-trivial = needle of >= 2 bytes and >= 2 haystacks.",
    "vm_sample": (60, 400),
    "assumptions": ["the filter text is rendered by the harness with every needle byte as \\xHH",
                    "memchr::memchr and memchr::memmem::Finder are modelled by naive search (third-party); SIMD registers "
                    "are modelled at lane level (lists of bytes), the intrinsics themselves are not modelled",
                    "memory safety is proved for the model's explicit bounds (every load/memcmp inside the slices), not "
                    "for the machine code"],
    "trusted_extra": ["hook H1: wirefilter::verif::set_anchor_override / simd_active (cfg wirefilter_verif)"],
}
