#!/usr/bin/env python3
"""Evaluate a seeded change (a patch that breaks a property while compiling and passing the existing tests).

usage: tools/seed_eval.py <out-dir-of-seeding-agent> <PID> <N> [--checks C01,C04,...] [--tier quick]

Steps (all in a scratch git worktree of /repo under /tmp, removed afterwards):
  1. the patch applies to HEAD, the workspace builds, the pinned test suite passes (156 tests);
  2. the demonstration test fails on the changed tree and passes on the clean tree;
  3. the /verif checks named (default: the property itself) are run against the changed worktree
     (VERIF_REPO_OVERRIDE, private harness copy / evidence / replays under work/) and the outcome recorded;
  4. patch, demonstration, note and meta.json are stored under /verif/seeded/<PID>-<N>/.
Nothing is ever committed to /repo; /repo's working tree is not touched by this script.
"""
import json
import os
import re
import shutil
import subprocess
import sys
import time

ROOT = os.path.dirname(os.path.dirname(os.path.abspath(__file__)))
LANE = os.environ.get("VERIF_LANE", "")
WT = "/tmp/sv-eval" + LANE
NEXTEST = ["cargo", "nextest", "run", "--workspace", "--no-fail-fast", "--offline", "--test-threads", "8"]


def sh(cmd, cwd=None, env=None, timeout=7200):
    e = dict(os.environ)
    e["CARGO_NET_OFFLINE"] = "true"
    if cwd == WT:
        e["CARGO_TARGET_DIR"] = "/tmp/sv-target" + LANE      # kept across evaluations (third-party crates are not rebuilt)
    if env:
        e.update(env)
    p = subprocess.run(cmd, cwd=cwd, env=e, stdout=subprocess.PIPE, stderr=subprocess.STDOUT, timeout=timeout)
    return p.returncode, p.stdout.decode("utf-8", "replace")


def fresh_worktree():
    if os.path.exists(WT):
        sh(["git", "-C", "/repo", "worktree", "remove", "--force", WT])
        shutil.rmtree(WT, ignore_errors=True)
    rc, out = sh(["git", "-C", "/repo", "worktree", "add", "--detach", WT, "HEAD"])
    assert rc == 0, out


def drop_worktree():
    sh(["git", "-C", "/repo", "worktree", "remove", "--force", WT])
    shutil.rmtree(WT, ignore_errors=True)


def demo_place(demo_src):
    head = open(demo_src).read(1500)
    crate = "ffi" if re.search(r"ffi/tests", head) else "engine"
    return crate


def run_demo(crate, name):
    pkg = "wirefilter-ffi" if crate == "ffi" else "wirefilter-engine"
    return sh(["cargo", "test", "--offline", "-p", pkg, "--test", name, "--", "--test-threads", "1"], cwd=WT)


TAG = ""


def main():
    out_dir, pid, n = sys.argv[1], sys.argv[2], sys.argv[3]
    checks = [pid]
    tier = "quick"
    for i, a in enumerate(sys.argv):
        if a == "--checks":
            checks = sys.argv[i + 1].split(",")
        if a == "--tier":
            tier = sys.argv[i + 1]
    keep_wt = "--keep" in sys.argv
    global TAG
    for i, a in enumerate(sys.argv):
        if a == "--tag":
            TAG = sys.argv[i + 1] + "-"
    patch = os.path.join(out_dir, "patch%s.diff" % n)
    demo = os.path.join(out_dir, "demo%s.rs" % n)
    note = os.path.join(out_dir, "note%s.md" % n)
    meta = {"property": pid, "seed": int(n), "source": "fresh sub-agent given only the property text and a scratch worktree",
            "repo_head": sh(["git", "-C", "/repo", "rev-parse", "--short", "HEAD"])[1].strip(),
            "evaluated_at": time.strftime("%Y-%m-%dT%H:%M:%SZ", time.gmtime())}
    fresh_worktree()
    try:
        crate = demo_place(demo)
        tests_dir = os.path.join(WT, crate, "tests")
        demo_name = "seed_demo"
        # clean tree: demo passes
        os.makedirs(tests_dir, exist_ok=True)
        shutil.copy(demo, os.path.join(tests_dir, demo_name + ".rs"))
        rc, out = run_demo(crate, demo_name)
        meta["demo_on_clean_tree"] = "pass" if rc == 0 else "FAIL"
        meta["demo_on_clean_tree_tail"] = out[-600:] if rc != 0 else ""
        os.remove(os.path.join(tests_dir, demo_name + ".rs"))
        # changed tree
        rc, out = sh(["git", "apply", patch], cwd=WT)
        meta["patch_applies"] = rc == 0
        if rc != 0:
            meta["patch_error"] = out[-600:]
            return finish(meta, pid, n, patch, demo, note)
        rc, out = sh(NEXTEST, cwd=WT)
        m = re.search(r"(\d+) tests run: (\d+) passed", out)
        meta["suite"] = {"rc": rc, "summary": m.group(0) if m else out[-400:]}
        meta["suite_passes"] = rc == 0 and bool(m) and m.group(1) == m.group(2)
        shutil.copy(demo, os.path.join(tests_dir, demo_name + ".rs"))
        rc, out = run_demo(crate, demo_name)
        meta["demo_on_changed_tree"] = "fail" if rc != 0 else "PASSES (change not demonstrated)"
        meta["demo_on_changed_tree_tail"] = out[-800:]
        os.remove(os.path.join(tests_dir, demo_name + ".rs"))
        try:
            os.rmdir(tests_dir)
        except OSError:
            pass
        meta["confirmed"] = bool(meta["suite_passes"] and meta["demo_on_clean_tree"] == "pass"
                                 and meta["demo_on_changed_tree"] == "fail")
        # the checks, against the changed worktree
        meta["checks"] = {}
        for c in checks:
            t0 = time.time()
            rc, out = sh([os.path.join(ROOT, "check"), c, tier], cwd=ROOT, env={"VERIF_REPO_OVERRIDE": WT})
            viol = [l for l in out.splitlines() if l.startswith("VIOLATION")]
            rep = None
            if viol:
                mm = re.search(r"replay=(\S+)", viol[0])
                if mm and os.path.exists(mm.group(1)):
                    d = os.path.join(ROOT, "seeded", "%s-%s%s" % (pid, TAG, n))
                    os.makedirs(d, exist_ok=True)
                    rep = os.path.join(d, "replay-%s.json" % c)
                    shutil.copy(mm.group(1), rep)
            meta["checks"][c] = {"tier": tier, "exit": rc, "violations": len(viol), "caught": rc != 0 and bool(viol),
                                 "first": viol[0] if viol else "", "replay_copy": os.path.relpath(rep, ROOT) if rep else None,
                                 "wall_s": round(time.time() - t0, 1)}
        meta["caught_by"] = [c for c in checks if meta["checks"][c]["caught"]]
    finally:
        if not keep_wt:
            drop_worktree()
    return finish(meta, pid, n, patch, demo, note)


def finish(meta, pid, n, patch, demo, note):
    d = os.path.join(ROOT, "seeded", "%s-%s%s" % (pid, TAG, n))
    os.makedirs(d, exist_ok=True)
    shutil.copy(patch, os.path.join(d, "patch.diff"))
    shutil.copy(demo, os.path.join(d, "demo.rs"))
    if os.path.exists(note):
        shutil.copy(note, os.path.join(d, "note.md"))
    json.dump(meta, open(os.path.join(d, "meta.json"), "w"), indent=1)
    print(json.dumps({k: meta.get(k) for k in ("property", "seed", "confirmed", "caught_by")}, indent=None))
    for c, r in meta.get("checks", {}).items():
        print("  ", c, r["exit"], r["violations"], r["first"][:100])
    return 0


if __name__ == "__main__":
    sys.exit(main())
